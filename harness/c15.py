"""C15 - physical constants are coherent across unit systems and with the unit table."""
import ast
from collections import OrderedDict
from fractions import Fraction

from .common import And, Case, Or, call, check_names, close, exact_eq, payload
from .names_common import CONST_DEFS, PI, TOL, dimvec, expected, float_q, oracle_var, tables, within

LEVEL = "other"
BATCH_REPLAY = True  # every case restores the global state it touches (constants table, registered user systems)
MANIFEST = dict(
    category="other",
    text=("(b) Bounded symbolic execution of the real add_constants (unyt_quantity, in_base, in_cgs, _check_em_conversion, "
          "_em_conversion, get_base_equivalent, _get_conversion_factor) on a registry of each of the 7 built-in unit systems with the "
          "table value of every constant replaced by a z3 real: X, every alias, X_mks and X_cgs have the SI magnitude v*scale(unit) "
          "(charge constants in CGS: the documented factor 0.1*c statC/C) for ALL values v, and X is written in symbols the registry's "
          "system declares. The same for every spelling by which a registry gets its system (constructor with name / UnitSystem object, "
          "attribute assigned a name / an object, copy, deepcopy, table handed to a new registry: family route/*) and for every state of "
          "the namespace handed to add_constants (empty, filled by add_symbols of the same registry, filled with the constants of another "
          "unit system, every documented key preset: family namespace/*; earlier objects neither reused nor touched, foreign keys kept). "
          "Registry configurations: the same for a "
          "registry of each built-in system in which every row the system's units or the table's units are written in was given a "
          "new size (z3 positive real) with modify() - before the first use, or after constants had been built once - and for two "
          "user-defined systems on rows of symbolic size (one of them Gaussian: no MKS current); the expected magnitude is computed "
          "by the harness from the table unit string and the sizes it handed in. In-place histories: every name x guise of every "
          "constant is converted in place in turn (convert_to_mks / _cgs / _base / _units into a sibling guise's unit / into 1000 x "
          "its own unit; 7 systems) and after each conversion ALL names and guises of the constant must still be the tabulated "
          "quantity, for all values, and every sibling must still carry the unit it had (only the converted object is relabelled); no two "
          "keys of a constants namespace (default namespace included) share memory or are one object. Forced "
          "warm histories: plain registry after an edited one of the same system and vice versa. (a) and (c) are GROUND: defining "
          "relations (hbar=h/2pi, eps0*mu0*c^2=1, Stefan-Boltzmann, radiation constant, Rydberg, Planck units, qe=-qp, mu0=4pi 1e-7) "
          "and value-vs-CODATA/IAU classes as exact-rational z3 facts over the current floats; names that are both unit and constant "
          "compared in SI; the default namespace (unyt.physical_constants) under every name x {X, X_mks, X_cgs} + hmks/hcgs, its exported "
          "name set, and object identity of every one of those keys at top level (constants win over units)."),
    design="DESIGN.md section 4 C15",
    technique="symbolic execution of the real Python code over z3 real terms; ground exact-rational SMT facts; counterexample replay")
EXPLANATION = (
    "The solver's share is part (b): the value of every constant is a z3 real (any sign), the unit systems, names, aliases and suffixes "
    "are enumerated exhaustively, and per unit system one path of the real add_constants yields ~290 quantities whose SI magnitudes are "
    "proved equal to v*scale(table unit) for all v (dimension vectors compared independently; the unit label of X must consist of symbols of the unit system the harness asked for, "
    "which also pins that the registry kept that system). The same obligations are decided for 6 other spellings of 'a registry of system S' "
    "(route/*: 7 systems x {UnitSystem object, assigned name, assigned object, copy, deepcopy, table copy}) and for 3 pre-filled namespaces "
    "(namespace/*: 7 systems x {unit symbols of the registry, constants of another system, preset keys}): constants win over whatever was "
    "there, objects handed out before are neither reused nor changed. Two further axes are walked with the "
    "same symbolic values. (1) The registry configuration (family registry/*): a custom registry of each built-in system whose rows "
    "were resized through the public modify() - every symbol that occurs in a unit of the system (kpc -> pc, Msun, Myr -> yr, AU, "
    "Mearth, ft, lb, l_geom, m_pl, erg, dyn ...) and every symbol a constant is tabulated in (m, g, s, K, mol, J, W, N), each new "
    "size a positive z3 real (the default size itself or more than 2e-3 away from it) - either before the registry is used or after "
    "constants were built from it once (edit-after-use); and a user-defined system on harness rows xl/xm/xt(/xtemp/xen) of symbolic "
    "size set as the registry's system (U1: three base units; U2: own temperature and energy units, no MKS current = Gaussian). "
    "Oracle: X = v x (size of the table unit as the harness computes it from the unit string and the sizes it handed to modify; "
    "symbols it did not touch at their table value); so a conversion factor, unit object or label taken from another registry (the "
    "default one, the one the unit system was built in) or from before the edit shows up as a term in the wrong size. Constants "
    "tabulated in untouched units are thereby proved equal to the default ones for every size of the system's units. (2) The "
    "history/aliasing axis (family inplace/*): one constant is up to 24 objects (spellings x {X, X_mks, X_cgs}, plus hmks/hcgs); "
    "each of them in turn is converted IN PLACE (5 conversions that keep the quantity; 7 systems) and after every single conversion "
    "the conjunction 'every spelling and guise of this constant still has SI magnitude v*scale (charges in Gaussian form: "
    "v*0.1c statC)' is decided for all v - a buffer, unit object or cached number shared between two names makes a sibling read the "
    "rescaled number under its old unit; after every conversion the unit labels of all siblings are compared with what they were "
    "(one object bound to two keys, e.g. X and X_mks where X cannot be reduced, would follow the conversion and leave the unit system "
    "its name promises). Independently, numpy's overlap test must find no two keys of a namespace (every built namespace and "
    "unyt.physical_constants) on the same memory or bound to one object. Warm variants (history axis of the engine) add: the "
    "plain registry of a system after an edited one and the other way round, in-place families after each other. "
    "Parts (a) and (c) are ground: the "
    "quantifier is the finite set of rows/relations; each float of the current tables is taken as an exact rational and the relation "
    "is asserted with a stated tolerance (float rounding 1e-13 for defining relations, CODATA 1e-6 / IAU 1e-3 classes for measured "
    "values). The independent value table is the trusted base of (a). The import-time default namespace is ground as well (it is built "
    "from the table floats before any harness runs): every name x guise of unyt.physical_constants against the table row (X_mks literally "
    "the table number in the table unit, X_cgs the same quantity / the Gaussian reading of charges / absent for mu_0, eps_0), the set of "
    "quantity-valued names the module exports = the documented set, and each of those keys bound to the very same object at top level."
)
BOUNDS = {
    "quick": "all 39 constants x all alias names x {X, X_mks, X_cgs} x 7 built-in unit systems (symbolic values) x 7 spellings of the "
             "registry's system x 4 namespace states (empty + 3 pre-fills; routes and pre-fills not crossed with each other); x registry "
             "configurations {plain, rows resized before use, rows resized after use} per built-in system (all symbols of the system's "
             "and the table's units resized at once, sizes symbolic; Gaussian/charge/offset rows not resized) + 2 user-defined systems "
             "(symbolic base sizes); in-place histories: 7 systems x 5 in-place conversions x every name x guise touched in turn "
             "(cumulatively within a constant), all names x guises of that constant read after each; no-shared-memory over all pairs of "
             "every namespace; forced warm pairs plain<->edited for 3 systems (thorough: 7) + the engine's sampled warm variants; "
             "18 defining relations, 39 values vs CODATA/IAU class, every name that is both a unit and a constant, default namespace x all "
             "names x 3 guises + legacy names + exported name set + top-level identity (ground)",
    "thorough": "same cases (the property's discrete space is finite and is covered in both tiers); forced warm pairs for all 7 systems and the "
                "larger warm sample",
}
OUTSIDE = ("routes x pre-fills x edited registries are not crossed with each other (each axis is walked against the plain configuration of "
           "the others); registry edits other than modify() of existing rows (remove/re-add, edits between the constants of one namespace: C12); resized "
           "Gaussian and charge/current rows (statC, G, C, A: the SI<->Gaussian charge route is a fixed documented factor) and offset rows; "
           "rows resized one at a time (all are resized together, each to an independent size); user-defined systems beyond the two "
           "variants (C10 walks that axis for in_base); in-place operations that change the quantity of the object they are applied to "
           "(*=, fill, item assignment - the buffer-independence obligation covers their effect on siblings); new sizes closer than 2e-3 "
           "(relative) to the default size but not equal to it; IEEE rounding of the conversions (A1); correctness of the independent "
           "CODATA/IAU table (trusted base of part a)")
CONFORM = {"quick": 8, "thorough": 8}

C_CM = 29979245800.0
EM_CHARGE_FACTOR = 0.1 * C_CM          # statC per C (documented Gaussian conversion)
IRREDUCIBLE_IN_CGS = {"mu_0", "eps_0"}  # SI-only electromagnetic constants: unyt documents no CGS form (X_cgs absent, X stays SI)
SYSTEMS = ["cgs", "mks", "imperial", "galactic", "solar", "geometrized", "planck"]


def si_of(q):
    return payload(q)[0] * q.units.base_value


# ------------------------------------------------------------------------------------------------ building blocks

GUISES = ("", "_mks", "_cgs")


def build_constants(ctx, reg, ns=None):
    """the real add_constants on `reg` (into `ns`, default a fresh dict), the table value of every constant replaced by a symbol
    -> (ns, V) or (None, V)"""
    US = ctx.mods["US"]
    from unyt._unit_lookup_table import physical_constants as table
    V = {}
    sym_table = OrderedDict()
    for name, (v0, unit, aliases) in table.items():
        V[name] = ctx.real("v:" + name)
        sym_table[name] = (V[name], unit, aliases)
    ns = {} if ns is None else ns
    saved = US.physical_constants
    US.physical_constants = sym_table
    try:
        r = call(US.add_constants, ns, reg)
    finally:
        US.physical_constants = saved
    if r[0] == "raise":
        ctx.require("add_constants runs", False, exc=type(r[1]).__name__, msg=str(r[1])[:200])
        return None, V
    return ns, V


def check_namespace(ctx, ns, V, reg, cgs_registry, scale_of_unit=None, pre="", observe=True, allowed_extra=frozenset(), system_name=None):
    """every obligation of part (b) for one namespace filled by add_constants.
    scale_of_unit(unit string) -> the harness' own figure for the SI size of the table unit in this registry (default: the
    registry's unit object for the table unit, as before)."""
    unyt = ctx.mods["unyt"]
    from unyt._unit_lookup_table import physical_constants as table
    import sympy
    S = reg.unit_system if hasattr(reg.unit_system, "units_map") else ctx.mods["US"].unit_system_registry[str(reg.unit_system)]
    if system_name is not None:
        # the system the harness asked for, not the one the registry says it has
        ctx.require(pre + "the registry has the unit system it was given", S is ctx.mods["US"].unit_system_registry[system_name], got=getattr(S, "name", None))
        S = ctx.mods["US"].unit_system_registry[system_name]
    for name, (v0, unit, aliases) in table.items():
        v = V[name]
        tu = unyt.Unit(unit, registry=reg)
        E = oracle_var(ctx, pre + "si:" + name, v * (tu.base_value if scale_of_unit is None else scale_of_unit(unit)))
        em = str(tu.expr) == "C"
        for nm in [name] + list(aliases):
            role = "name" if nm == name else "alias"
            # X_mks: the table value in the table unit
            q = ns.get(nm + "_mks")
            ok = q is not None and And(close(payload(q)[0], v, tol=0), str(q.units) == str(tu), close(si_of(q), E))
            ctx.require(f"{pre}{name}/{role}/_mks", ok, key=nm + "_mks", got=str(q.units) if q is not None else None)
            # X_cgs
            q = ns.get(nm + "_cgs")
            if name in IRREDUCIBLE_IN_CGS:
                ctx.require(f"{pre}{name}/{role}/_cgs", q is None, key=nm + "_cgs", why="documented as not representable in CGS")
            elif q is None:
                ctx.require(f"{pre}{name}/{role}/_cgs", False, key=nm + "_cgs", why="missing")
            elif em:
                ctx.require(f"{pre}{name}/{role}/_cgs", And(close(payload(q)[0], v * EM_CHARGE_FACTOR), str(q.units) == "statC"), key=nm + "_cgs", got=str(q.units))
            else:
                ctx.require(f"{pre}{name}/{role}/_cgs", And(close(si_of(q), E), dimvec(q.units.dimensions) == dimvec(tu.dimensions)), key=nm + "_cgs", got=str(q.units))
            # X in this registry's unit system
            q = ns.get(nm)
            if q is None:
                ctx.require(f"{pre}{name}/{role}/base", False, key=nm, why="missing")
            elif em and cgs_registry:
                ctx.require(f"{pre}{name}/{role}/base", And(close(payload(q)[0], v * EM_CHARGE_FACTOR), str(q.units) == "statC"), key=nm, got=str(q.units))
            else:
                ctx.require(f"{pre}{name}/{role}/base", And(close(si_of(q), E), dimvec(q.units.dimensions) == dimvec(tu.dimensions)), key=nm, got=str(q.units))
                # ... and is written in the units of the registry's system (structural: the symbols of its unit label are symbols the
                # system declares), unless it has no form there (MKS current in a system without one: stays as tabulated)
                sys_atoms = set()
                for uv in S.units_map.values():
                    if uv is not None:
                        sys_atoms |= {str(a) for a in sympy.sympify(uv).atoms(sympy.Symbol)}
                q_atoms = {str(a) for a in q.units.expr.atoms(sympy.Symbol)}
                stays = "(current_mks)" in dimvec(tu.dimensions) and S.units_map.get(unyt.dimensions.current_mks) is None
                ctx.require(f"{pre}{name}/{role}/base is in the registry's unit system", (str(q.units) == str(tu)) if stays else q_atoms <= sys_atoms,
                            key=nm, got=str(q.units), system=sorted(sys_atoms)[:12])
                if observe:
                    ctx.observe(f"{pre}{nm}", payload(q)[0])
    for old, new in (("hmks", "h_mks"), ("hcgs", "h_cgs")):
        a, b = ns.get(old), ns.get(new)
        ctx.require(f"{pre}h/legacy/{old}", a is not None and b is not None and And(close(payload(a)[0], payload(b)[0], tol=0), str(a.units) == str(b.units)))
    expected_keys = set()
    for name, (v0, unit, aliases) in table.items():
        for nm in [name] + list(aliases):
            expected_keys |= {nm, nm + "_mks"} | (set() if name in IRREDUCIBLE_IN_CGS else {nm + "_cgs"})
    ctx.require(pre + "namespace has exactly the documented names", set(ns) - set(allowed_extra) == expected_keys | {"hmks", "hcgs"},
                extra=sorted((set(ns) - set(allowed_extra)) ^ (expected_keys | {"hmks", "hcgs"}))[:8])
    no_shared_buffers(ctx, ns, pre + "every name has a buffer of its own")


def no_shared_buffers(ctx, ns, label):
    """two different quantity objects of a constants namespace never sit on the same memory (an in-place operation on one name
    would otherwise change the number under the other name's unit); numpy's own overlap test, no unyt code involved"""
    import numpy as np
    items = [(k, v) for k, v in ns.items() if isinstance(v, np.ndarray)]
    bad = []
    for i, (ka, a) in enumerate(items):
        for kb, b in items[i + 1:]:
            if a is b or np.shares_memory(a, b):     # one object under two keys is the extreme case of a shared buffer
                bad.append(f"{ka}~{kb}")
    ctx.require(label, not bad, count=len(bad), pairs=bad[:6])


def make_system_case(sysname):
    def h(ctx):
        reg = ctx.mods["UR"].UnitRegistry(unit_system=sysname)
        ns, V = build_constants(ctx, reg)
        if ns is None:
            return
        check_namespace(ctx, ns, V, reg, sysname == "cgs", system_name=sysname)
    return Case(f"C15/system/{sysname}", h, bounds="39 symbolic values, all names x 3 suffixes", budget_s=600, weight=5, max_paths=16)


# ------------------------------------------------------------------------------------------------ how the registry got its system
# system/* builds the registry with UnitRegistry(unit_system="<name>"). The same configuration can be reached by other spellings;
# the constants must not depend on which one was used.

ROUTES = ["object", "assigned-name", "assigned-object", "copy", "deepcopy", "lut-copy"]


def make_route_case(sysname, route):
    def h(ctx):
        import copy
        UR = ctx.mods["UR"].UnitRegistry
        S = ctx.mods["US"].unit_system_registry[sysname]
        if route == "object":
            reg = UR(unit_system=S)
        elif route == "assigned-name":
            reg = UR()
            reg.unit_system = sysname
        elif route == "assigned-object":
            reg = UR()
            reg.unit_system = S
        elif route == "copy":
            reg = copy.copy(UR(unit_system=sysname))
        elif route == "deepcopy":
            reg = copy.deepcopy(UR(unit_system=sysname))
        else:
            src = UR(unit_system=sysname)
            reg = UR(lut=src.lut, add_default_symbols=False, unit_system=sysname)
        ns, V = build_constants(ctx, reg)
        if ns is None:
            return
        check_namespace(ctx, ns, V, reg, sysname == "cgs", observe=False, system_name=sysname)
    return Case(f"C15/route/{sysname}/{route}", h, bounds="39 symbolic values, all names x 3 suffixes", budget_s=600, weight=5, max_paths=16)


# ------------------------------------------------------------------------------------------------ namespace state
# add_constants writes into a namespace the caller hands in (vars(self) in the documented example; globals() of
# unyt.physical_constants). What that namespace held before is a configuration axis: the unit symbols of the same registry
# (add_symbols first - ~20 names are both a unit and a constant), the constants of ANOTHER registry/unit system (a rebuild), or
# arbitrary values under the very keys. Afterwards every documented key must hold this registry's constant (constants win), and
# objects handed out by the earlier fill must not have been touched.

PREFILLS = ["symbols", "other-system", "sentinel"]


def make_prefilled_case(sysname, prefill):
    def h(ctx):
        import numpy as np
        US = ctx.mods["US"]
        UR = ctx.mods["UR"]
        from unyt._unit_lookup_table import physical_constants as table
        reg = UR.UnitRegistry(unit_system=sysname)
        ns = {}
        if prefill == "symbols":
            US.add_symbols(ns, reg)
        elif prefill == "other-system":
            US.add_constants(ns, UR.UnitRegistry(unit_system="mks" if sysname == "cgs" else "cgs"))
        else:
            ns.update({k: None for k in documented_keys(table)})
        old = dict(ns)
        snap = {k: (float(payload(q)[0]), str(q.units)) for k, q in old.items() if isinstance(q, np.ndarray)}
        ns2, V = build_constants(ctx, reg, ns=ns)
        if ns2 is None:
            return
        ctx.require("add_constants fills the namespace it was given", ns2 is ns)
        check_namespace(ctx, ns, V, reg, sysname == "cgs", observe=False, allowed_extra=set(old) - documented_keys(table), system_name=sysname)
        # what the earlier fill handed out is not what is in the namespace now, and was not touched
        reused = [k for k, q in old.items() if isinstance(q, np.ndarray) and any(q is v or np.shares_memory(q, v) for v in (ns.get(k), ns.get(k + "_mks"), ns.get(k + "_cgs")) if isinstance(v, np.ndarray))]
        ctx.require("objects of the earlier fill are not reused", not reused, keys=reused[:6])
        changed = [k for k, (x, u) in snap.items() if float(payload(old[k])[0]) != x or str(old[k].units) != u]
        ctx.require("objects of the earlier fill are untouched", not changed, keys=changed[:6])
        kept = [k for k in set(old) - documented_keys(table) if ns.get(k) is not old[k]]
        ctx.require("other keys of the namespace are left alone", not kept, keys=sorted(kept)[:6])
    return Case(f"C15/namespace/{sysname}/{prefill}", h, bounds="39 symbolic values, all names x 3 suffixes, namespace pre-filled", budget_s=600, weight=5, max_paths=16)


# ------------------------------------------------------------------------------------------------ registry configurations
# The registry a constants namespace is built for is a configuration axis of its own: the rows of a custom registry may have
# been given other sizes (UnitRegistry.modify), before or after the registry was first used, and its unit system may be one the
# user defined on rows of his own. What the constants are must not depend on any of that beyond the size of the unit each is
# tabulated in: X = v [table unit as this registry defines it], in every guise.

EM_FIXED = {"C", "A"}   # the SI<->Gaussian charge route is a fixed documented factor between the atomic units C and statC


def _canon(name):
    """(prefix factor, table symbol) of an atom spelling, by the independent reader of names_common"""
    T = tables()
    if name in T.rows:
        return (1.0, name)
    e = expected(name, T)
    if e is None:
        raise KeyError(f"unreadable unit atom {name!r}")
    return e


def _names_in(unit_str):
    return sorted({n.id for n in ast.walk(ast.parse(unit_str, mode="eval")) if isinstance(n, ast.Name)})


def own_scale(unit_str, scale_of_symbol):
    """SI size of a table unit expression ('m**3/kg/s**2') from the sizes of its symbols: the harness' own arithmetic"""
    def ipow(a, k):
        out = 1.0
        for _ in range(abs(k)):
            out = out * a
        return out if k >= 0 else 1.0 / out

    def ev(n):
        if isinstance(n, ast.Expression):
            return ev(n.body)
        if isinstance(n, ast.Name):
            pv, sym = _canon(n.id)
            s = scale_of_symbol(sym)
            return s if pv == 1.0 else pv * s
        if isinstance(n, ast.Constant) and isinstance(n.value, int):
            return n.value
        if isinstance(n, ast.UnaryOp) and isinstance(n.op, ast.USub):
            return -ev(n.operand)
        if isinstance(n, ast.BinOp) and isinstance(n.op, ast.Mult):
            return ev(n.left) * ev(n.right)
        if isinstance(n, ast.BinOp) and isinstance(n.op, ast.Div):
            return ev(n.left) / ev(n.right)
        if isinstance(n, ast.BinOp) and isinstance(n.op, ast.Pow):
            k = ev(n.right)
            if not isinstance(k, int):
                raise ValueError(f"non-integer power in table unit {unit_str!r}")
            return ipow(ev(n.left), k)
        raise ValueError(f"table unit {unit_str!r}: unexpected syntax")
    return ev(ast.parse(unit_str, mode="eval"))


def edit_symbols(mods, sysname):
    """the table symbols whose rows are given a new, symbolic size: every symbol that occurs in a unit the system declares or
    synthesises (its base units and overrides, SI prefix stripped) and every symbol a constant is tabulated in - except the
    atomic charge/current units of the fixed SI<->Gaussian route, Gaussian units (half-integer dimensions) and offset units."""
    import sympy
    from unyt._unit_lookup_table import physical_constants as table
    T = tables()
    S = mods["US"].unit_system_registry[sysname]
    names = set()
    for v in S.units_map.values():
        if v is not None:
            names |= {str(a) for a in sympy.sympify(v).atoms(sympy.Symbol)}
    for name, (v0, unit, aliases) in table.items():
        names |= set(_names_in(unit))
    out = []
    for sym in sorted({_canon(n)[1] for n in names}):
        val, dims, off, tex, pref = T.rows[sym]
        if sym in EM_FIXED or off or val <= 0 or any(Fraction(e).denominator != 1 for e in dimvec(dims).values()):
            continue
        out.append(sym)
    return out


def resized(ctx, s, default):
    """the new size of a row is the default size itself or clearly another one (more than 2e-3 away, relative). Inside the thin
    band left out, a defect that mixes up the two sizes is smaller than the 1e-6 rounding band of the obligations anyway. The
    replay checks the model against a band half as wide, so that a model on the edge (z3 likes edges) still replays."""
    r = 2e-3 if ctx.symbolic else 1e-3
    ctx.assume(Or(exact_eq(s, default), s > default * (1 + r), s < default * (1 - r)))


def make_registry_case(sysname, cfg):
    """cfg: 'edit'           fresh registry of the system, rows resized with modify(), then constants built
            'edit-after-use' constants built first (every conversion into the system done once), then the rows resized, then built again"""
    def h(ctx):
        reg = ctx.mods["UR"].UnitRegistry(unit_system=sysname)
        T = tables()
        if cfg == "edit-after-use":
            ns0, V0 = build_constants(ctx, reg)
            if ns0 is None:
                return
        Sc = {}
        for sym in edit_symbols(ctx.mods, sysname):
            s = ctx.real("s:" + sym, pos=True)
            resized(ctx, s, T.rows[sym][0])
            r = call(reg.modify, sym, s if ctx.symbolic else float(s))
            if r[0] == "raise":
                ctx.require("modify runs", False, symbol=sym, exc=type(r[1]).__name__)
                return
            Sc[sym] = s
        ns, V = build_constants(ctx, reg)
        if ns is None:
            return
        check_namespace(ctx, ns, V, reg, sysname == "cgs", scale_of_unit=lambda u: own_scale(u, lambda sym: Sc.get(sym, T.rows[sym][0])),
                        observe=False, system_name=sysname)
        # the sizes the registry reports for the resized rows are the new ones (the oracle above does not read them)
        unyt = ctx.mods["unyt"]
        for sym, s in Sc.items():
            ctx.require("resized row reads back", close(unyt.Unit(sym, registry=reg).base_value, s), symbol=sym)
    return Case(f"C15/registry/{sysname}/{cfg}", h, bounds="39 symbolic values x symbolic sizes of the rows the system and the table are written in",
                budget_s=900, weight=8, max_paths=64)


USER_NAMES = ["xl", "xm", "xt", "xtemp", "xen"]


def make_user_system_case(variant):
    """a unit system the user defines on rows of his own (symbolic sizes), made the registry's system
       U1: length/mass/time only (temperature K, current A by default); U2: own temperature unit, own energy unit, no MKS current (a Gaussian system)"""
    def h(ctx):
        unyt = ctx.mods["unyt"]
        US = ctx.mods["US"]
        D = unyt.dimensions
        rows = [dict(name="xl", dims=D.length, scale=ctx.real("s:xl", pos=True)), dict(name="xm", dims=D.mass, scale=ctx.real("s:xm", pos=True)),
                dict(name="xt", dims=D.time, scale=ctx.real("s:xt", pos=True))]
        if variant == "U2":
            rows += [dict(name="xtemp", dims=D.temperature, scale=ctx.real("s:xtemp", pos=True)),
                     dict(name="xen", dims=D.energy, scale=ctx.real("s:xen", pos=True))]
        reg = ctx.registry(rows)
        sname = "xsys_c15_" + variant
        try:
            if variant == "U1":
                S = US.UnitSystem(sname, "xl", "xm", "xt", registry=reg)
            else:
                S = US.UnitSystem(sname, "xl", "xm", "xt", temperature_unit="xtemp", current_mks_unit=None, registry=reg)
                S["energy"] = "xen"
            reg.unit_system = S
            ns, V = build_constants(ctx, reg)
            if ns is None:
                return
            # a system without an MKS current is a Gaussian one: charges take the documented C -> statC route, as in CGS
            check_namespace(ctx, ns, V, reg, variant == "U2", observe=False)
            if variant == "U2":
                # ... and the SI-only electromagnetic constants stay as tabulated
                for nm in ("mu_0", "eps_0"):
                    ctx.require(f"{nm}/stays SI without an MKS current", nm in ns and str(ns[nm].units) == str(ns[nm + "_mks"].units), got=str(ns.get(nm).units) if nm in ns else None)
        finally:
            US.unit_system_registry.pop(sname, None)
    return Case(f"C15/registry/user/{variant}", h, bounds="39 symbolic values x symbolic sizes of the user's base units", budget_s=900, weight=8, max_paths=64)


# ------------------------------------------------------------------------------------------------ in-place histories
# One constant is ~8 objects (every spelling x {X, X_mks, X_cgs}). A unit conversion IN PLACE keeps the quantity of the object
# it is applied to and must leave every other object alone: after it, all spellings and guises still denote v [table unit].

INPLACE_OPS = ["to_mks", "to_cgs", "to_base", "to_units", "to_scaled"]
#   to_units: into the unit another guise of the constant is written in (X -> table unit, X_mks -> unit of X_cgs, X_cgs -> unit of X)
#   to_scaled: into 1000 x the unit the object is in at that moment (never a factor of one, whatever the system)
GAUSSIAN_CHARGE = {"(mass)": Fraction(1, 2), "(length)": Fraction(3, 2), "(time)": Fraction(-1)}
STATC_SI = 1e-9 ** 0.5     # statC in kg**(1/2) m**(3/2) / s (g**(1/2) cm**(3/2) / s)
_DV = {}


def _dimvec(dims):
    k = str(dims)
    if k not in _DV:
        _DV[k] = dimvec(dims)
    return _DV[k]


def denotes(q, v, E, tdim, em):
    """q is the row's quantity: SI magnitude E in the row's dimensions, or (charge rows) the Gaussian reading v * 0.1 c statC"""
    if _dimvec(q.units.dimensions) == tdim:
        return close(si_of(q), E)
    if em and _dimvec(q.units.dimensions) == GAUSSIAN_CHARGE:
        return close(si_of(q), v * (EM_CHARGE_FACTOR * STATC_SI))
    return False


def make_inplace_case(sysname, op):
    def h(ctx):
        unyt = ctx.mods["unyt"]
        NR = unyt.exceptions.UnitsNotReducible
        from unyt._unit_lookup_table import physical_constants as table
        reg = ctx.mods["UR"].UnitRegistry(unit_system=sysname)
        ns, V = build_constants(ctx, reg)
        if ns is None:
            return
        for name, (v0, unit, aliases) in table.items():
            v = V[name]
            tu = unyt.Unit(unit, registry=reg)
            tdim = dimvec(tu.dimensions)
            E = oracle_var(ctx, "si:" + name, v * tu.base_value)
            em = str(tu.expr) == "C"
            has_current = "(current_mks)" in tdim
            entries = [(nm, g) for nm in [name] + list(aliases) for g in GUISES if nm + g in ns]
            if name == "h":
                entries += [(k, "") for k in ("hmks", "hcgs") if k in ns]       # the two legacy spellings
            unit_of = {g: str(ns[name + g].units) for g in GUISES if name + g in ns}   # read before anything is converted
            target = {"": unit, "_mks": unit_of.get("_cgs", unit_of.get("", unit)), "_cgs": unit_of.get("", unit)}
            memo = {}
            label = {e: str(ns[e[0] + e[1]].units) for e in entries}
            for nm, g in entries:
                q = ns[nm + g]
                if op == "to_mks":
                    r = call(q.convert_to_mks)
                elif op == "to_cgs":
                    r = call(q.convert_to_cgs)
                elif op == "to_base":
                    r = call(q.convert_to_base)
                elif op == "to_units":
                    r = call(q.convert_to_units, target.get(g, unit))
                else:
                    r = call(q.convert_to_units, unyt.Unit(f"1000*({q.units})", registry=reg))
                role = ("name" if nm == name else "alias") + g
                if r[0] == "raise":
                    # only a constant with an MKS current in it may refuse the way to CGS (no Gaussian form of A*s, N/A**2 ...)
                    legit = isinstance(r[1], NR) and has_current and (op == "to_cgs" or (op == "to_base" and sysname == "cgs"))
                    ctx.require(f"{name}/{op}/{role}/runs", legit, key=nm + g, exc=type(r[1]).__name__, msg=str(r[1])[:120])
                conds = []
                label[(nm, g)] = str(q.units)
                moved = [n2 + g2 for n2, g2 in entries if str(ns[n2 + g2].units) != label[(n2, g2)]]
                # the conversion relabels the object it was called on and no other: a sibling that is the same object under another
                # key (or shares its unit attribute) would silently leave the unit system its name promises (X_mks in CGS units)
                ctx.require(f"{name}/{op}/{role}/siblings keep their units", not moved, key=nm + g, moved=moved[:6])
                for n2, g2 in entries:
                    q2 = ns[n2 + g2]
                    x2 = payload(q2)[0]
                    k = (id(x2), str(q2.units))      # same stored number object under the same unit: the same formula as before
                    if k not in memo:
                        memo[k] = (x2, denotes(q2, v, E, tdim, em))
                    conds.append(memo[k][1])
                info = {}
                if not ctx.symbolic:
                    info["changed"] = [n2 + g2 for (n2, g2), c in zip(entries, conds) if not bool(c)][:8]
                ctx.require(f"{name}/{op}/{role}", And(*conds), key=nm + g, **info)
        no_shared_buffers(ctx, ns, "every name has a buffer of its own")
    return Case(f"C15/inplace/{sysname}/{op}", h, bounds="39 symbolic values; every name x guise converted in place in turn, all names x guises of the row read after each",
                budget_s=900, weight=8, max_paths=16)


# ------------------------------------------------------------------------------------------------ ground parts

def make_relations_case():
    def h(ctx):
        from unyt import _physical_ratios as R
        from unyt._unit_lookup_table import physical_constants as table
        q = float_q
        c, h_, kb, G = q(R.speed_of_light_m_per_s), q(R.planck_mks), q(R.boltzmann_constant_J_per_K), q(R.newton_mks)
        e, me = q(R.elementary_charge_C), q(R.mass_electron_kg)
        eps0, mu0 = q(R.eps_0), q(R.mu_0)
        hbar = q(table["hbar"][0])
        sig, arad, rinf = q(table["σ"][0]), q(table["a"][0]), q(table["R_inf"][0])
        mpl, lpl, tpl, Epl, Tpl, qpl = (q(table[k][0]) for k in ("m_pl", "l_pl", "t_pl", "E_pl", "T_pl", "q_pl"))
        rnd = Fraction(1, 10**13)            # float rounding of a handful of operations
        rel = [
            ("hbar = h/2pi", hbar * 2 * PI, h_), ("table h is the ratio h", q(table["h"][0]), h_), ("table G", q(table["G"][0]), G),
            ("table kb", q(table["kb"][0]), kb), ("table c", q(table["c"][0]), c),
            ("eps_0*mu_0*c^2 = 1", q(table["eps_0"][0]) * q(table["mu_0"][0]) * c * c, Fraction(1)),
            ("mu_0 = 4 pi 1e-7", mu0, 4 * PI * Fraction(1, 10**7)),
            ("sigma_SB = 2 pi^5 k^4/(15 c^2 h^3)", sig * 15 * c**2 * h_**3, 2 * PI**5 * kb**4),
            ("a = 4 sigma/c", arad * c, 4 * sig),
            ("R_inf = me e^4/(8 eps0^2 h^3 c)", rinf * 8 * eps0**2 * h_**3 * c, me * e**4),
            ("m_pl^2 G = hbar c", mpl**2 * G, hbar * c), ("l_pl^2 c^3 = hbar G", lpl**2 * c**3, hbar * G), ("t_pl c = l_pl", tpl * c, lpl),
            ("E_pl = m_pl c^2", Epl, mpl * c * c), ("T_pl kb = E_pl", Tpl * kb, Epl), ("q_pl^2 = 4 pi eps0 hbar c", qpl**2, 4 * PI * eps0 * hbar * c),
            ("qe = -qp", q(table["qe"][0]), -q(table["qp"][0])), ("qp = e", q(table["qp"][0]), e),
        ]
        for label, lhs, rhs in rel:
            ctx.require(f"relation/{label}", within(ctx, lhs, rhs, rnd), lhs=float(lhs), rhs=float(rhs))
        # measured-class relations between independently entered ratios
        ctx.require("relation/Na * amu[g] = 1 g/mol (CODATA class)", within(ctx, q(R.avogadros_number) * q(R.amu_grams), 1, TOL["codata"]))
        ctx.require("relation/J_per_eV = e * 1 V (CODATA class)", within(ctx, q(R.J_per_eV), e, TOL["codata"]))
        ctx.require("relation/mh = 1.00794 amu (atomic weight class)", within(ctx, q(R.mass_hydrogen_kg), Fraction("1.00794") * q(R.amu_kg), TOL["weight"]))
        for name, (v0, unit, aliases) in table.items():
            if name not in CONST_DEFS:
                ctx.require(f"value/{name}", False, why="no independent value written for this constant")
                continue
            d, cls, note = CONST_DEFS[name]
            ctx.require(f"value/{name}", within(ctx, q(v0), d, TOL[cls]), value=v0, published=float(d), cls=cls, note=note)
            ctx.observe(f"value/{name}", float(v0))
    return Case("C15/ground/relations", h, bounds="18 defining relations + 3 cross-ratio relations + 39 values (ground, exact rationals)")


def documented_keys(table):
    """every key add_constants is documented to write: names and aliases x {X, X_mks, X_cgs (where a CGS form exists)} + hmks/hcgs"""
    keys = {"hmks", "hcgs"}
    for name, (v0, unit, aliases) in table.items():
        for nm in [name] + list(aliases):
            keys |= {nm, nm + "_mks"} | (set() if name in IRREDUCIBLE_IN_CGS else {nm + "_cgs"})
    return keys


def make_default_case():
    """the default constants (unyt.physical_constants, top level) are the table values under EVERY name x guise (X, X_mks, X_cgs,
    hmks/hcgs); the module exports exactly the documented names; every one of them is the same object at top level (constants win
    over units of the same name); no two share memory. Ground: the default namespace is built at import from the table floats;
    the for-all-values statement about add_constants is system/mks."""
    def h(ctx):
        import numpy as np
        unyt = ctx.mods["unyt"]
        from unyt._unit_lookup_table import physical_constants as table
        pcm = vars(unyt.physical_constants)
        top_ns = vars(unyt)
        for name, (v0, unit, aliases) in table.items():
            tu = unyt.Unit(unit)
            tdim = dimvec(tu.dimensions)
            E = float(v0) * float(tu.base_value)
            em = str(tu.expr) == "C"
            for nm in [name] + list(aliases):
                role = "name" if nm == name else "alias"
                qd = pcm.get(nm)
                ok = qd is not None and And(close(si_of(qd), E), dimvec(qd.units.dimensions) == tdim)
                ctx.require(f"default/{name}/{role}", ok, key=nm)
                top = top_ns.get(nm)
                ctx.require(f"top-level/{name}/{role}", top is qd, key=nm, got=type(top).__name__)
                # X_mks: the table number in the table unit, literally
                qm = pcm.get(nm + "_mks")
                ok = qm is not None and And(close(payload(qm)[0], float(v0), tol=1e-12), str(qm.units) == str(tu), close(si_of(qm), E))
                ctx.require(f"default/{name}/{role}/_mks", ok, key=nm + "_mks", got=str(qm) if qm is not None else None)
                ctx.require(f"top-level/{name}/{role}/_mks", top_ns.get(nm + "_mks") is qm, key=nm + "_mks")
                # X_cgs: the same quantity (charges: the documented Gaussian reading), absent where no CGS form is documented
                qc = pcm.get(nm + "_cgs")
                if name in IRREDUCIBLE_IN_CGS:
                    ok = qc is None and nm + "_cgs" not in top_ns
                elif qc is None:
                    ok = False
                elif em:
                    ok = And(close(payload(qc)[0], float(v0) * EM_CHARGE_FACTOR), str(qc.units) == "statC")
                else:
                    ok = And(close(si_of(qc), E), dimvec(qc.units.dimensions) == tdim)
                ctx.require(f"default/{name}/{role}/_cgs", ok, key=nm + "_cgs", got=str(qc) if qc is not None else None)
                if qc is not None:
                    ctx.require(f"top-level/{name}/{role}/_cgs", top_ns.get(nm + "_cgs") is qc, key=nm + "_cgs")
        for old, new in (("hmks", "h_mks"), ("hcgs", "h_cgs")):
            a, b = pcm.get(old), pcm.get(new)
            ctx.require(f"default/h/legacy/{old}", a is not None and b is not None and And(close(payload(a)[0], payload(b)[0], tol=1e-12), str(a.units) == str(b.units))
                        and top_ns.get(old) is a, key=old)
        have = {k for k, v in pcm.items() if isinstance(v, (np.ndarray, unyt.Unit))}
        want = documented_keys(table)
        ctx.require("default/module exports exactly the documented names", have == want, extra=sorted(have ^ want)[:8])
        no_shared_buffers(ctx, pcm, "default/every name has a buffer of its own")
    return Case("C15/ground/default-namespace", h, bounds="39 constants x names x {X, X_mks, X_cgs} + legacy names, module and top level (ground)")


def both_names(mods):
    from unyt._unit_lookup_table import inv_name_alternatives, physical_constants as table
    out = []
    for name, (v0, unit, aliases) in table.items():
        for nm in [name] + list(aliases):
            if nm in inv_name_alternatives:
                out.append((name, nm))
    return out


def make_both_case(mods):
    """(c) a name that is both a unit and a constant denotes the same quantity either way (GROUND: two table floats)"""
    names = both_names(mods)

    def h(ctx):
        unyt = ctx.mods["unyt"]
        pcm = vars(unyt.physical_constants)
        for cname, nm in names:
            q = pcm[nm]
            u = unyt.Unit(nm)
            same_dim = dimvec(q.units.dimensions) == dimvec(u.dimensions)
            if not same_dim:
                ctx.require(f"same name, same kind of quantity/{nm}", False, constant=str(q), unit=f"{u.base_value} [{u.dimensions}]")
                continue
            ctx.require(f"unit and constant agree/{nm}", within(ctx, float_q(u.base_value), float_q(si_of(q)), Fraction(1, 10**9)),
                        constant_si=float(si_of(q)), unit_si=float(u.base_value))
            ctx.observe(f"both/{nm}", float(u.base_value))
    return Case("C15/ground/unit-and-constant", h, bounds=f"{len(names)} names that are both a unit spelling and a constant (ground)")


_TIER = {"tier": "quick"}


def WARM_PARTNERS(cases):
    """forced histories across registries of one unit system: the plain registry after an edited one and the other way round
    (whatever a conversion leaves behind under the system's name or a unit's spelling meets a registry with other sizes)"""
    systems = SYSTEMS if _TIER["tier"] == "thorough" else ["galactic", "cgs", "imperial"]
    out = {}
    for s in systems:
        out[f"C15/system/{s}"] = [f"C15/registry/{s}/edit"]
        out[f"C15/registry/{s}/edit"] = [f"C15/system/{s}"]
        out[f"C15/inplace/{s}/to_scaled"] = [f"C15/inplace/{s}/to_units"]
    return out


def cases(tier, mods):
    _TIER["tier"] = tier
    check_names(mods, USER_NAMES)
    out = [make_system_case(s) for s in SYSTEMS]
    pre_systems = SYSTEMS
    out += [make_prefilled_case(s, pf) for s in pre_systems for pf in PREFILLS]
    out += [make_route_case(s, r) for s in SYSTEMS for r in ROUTES]
    out += [make_registry_case(s, cfg) for s in SYSTEMS for cfg in ("edit", "edit-after-use")]
    out += [make_user_system_case(v) for v in ("U1", "U2")]
    out += [make_inplace_case(s, op) for s in SYSTEMS for op in INPLACE_OPS]
    out += [make_relations_case(), make_default_case(), make_both_case(mods)]
    return out


def coverage_extra(results, tier):
    by = {}
    for r in results:
        g = r["id"].split("/")[1]
        d = by.setdefault(g, dict(cases=0, obligations=0, ground=0))
        d["cases"] += 1
        d["obligations"] += r["stats"]["obligations"]
        d["ground"] += r["stats"]["ground_true"]
    return dict(parts=by, note="system/*, registry/* (resized rows, user-defined systems: sizes symbolic too) and inplace/* (in-place conversion histories) are decided by z3 for all values of every constant; ground/* are exact-rational facts about the current tables")

