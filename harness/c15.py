"""C15 - physical constants are coherent across unit systems and with the unit table."""
from collections import OrderedDict
from fractions import Fraction

from .common import And, Case, call, close, payload
from .names_common import CONST_DEFS, PI, TOL, dimvec, float_q, oracle_var, tables, within

LEVEL = "other"
MANIFEST = dict(
    category="other",
    text=("(b) Bounded symbolic execution of the real add_constants (unyt_quantity, in_base, in_cgs, _check_em_conversion, "
          "_em_conversion, get_base_equivalent, _get_conversion_factor) on a registry of each of the 7 built-in unit systems with the "
          "table value of every constant replaced by a z3 real: X, every alias, X_mks and X_cgs have the SI magnitude v*scale(unit) "
          "(charge constants in CGS: the documented factor 0.1*c statC/C) for ALL values v. (a) and (c) are GROUND: defining relations "
          "(hbar=h/2pi, eps0*mu0*c^2=1, Stefan-Boltzmann, radiation constant, Rydberg, Planck units, qe=-qp, mu0=4pi 1e-7) and "
          "value-vs-CODATA/IAU classes as exact-rational z3 facts over the current floats; names that are both unit and constant "
          "compared in SI."),
    design="DESIGN.md section 4 C15",
    technique="symbolic execution of the real Python code over z3 real terms; ground exact-rational SMT facts; counterexample replay")
EXPLANATION = (
    "The solver's share is part (b): the value of every constant is a z3 real (any sign), the unit systems, names, aliases and suffixes "
    "are enumerated exhaustively, and per unit system one path of the real add_constants yields ~290 quantities whose SI magnitudes are "
    "proved equal to v*scale(table unit) for all v (dimension vectors compared independently). Parts (a) and (c) are ground: the "
    "quantifier is the finite set of rows/relations; each float of the current tables is taken as an exact rational and the relation "
    "is asserted with a stated tolerance (float rounding 1e-13 for defining relations, CODATA 1e-6 / IAU 1e-3 classes for measured "
    "values). The independent value table is the trusted base of (a)."
)
BOUNDS = {
    "quick": "all 39 constants x all alias names x {X, X_mks, X_cgs} x 7 built-in unit systems (symbolic values); 18 defining relations, "
             "39 values vs CODATA/IAU class, every name that is both a unit and a constant (ground)",
    "thorough": "same (the property's space is finite and is covered exhaustively in both tiers)",
}
OUTSIDE = ("user-defined unit systems; constants in registries whose unit scales were modified (C12); IEEE rounding of the conversions (A1); "
           "correctness of the independent CODATA/IAU table (trusted base of part a)")
CONFORM = {"quick": 8, "thorough": 8}

C_CM = 29979245800.0
EM_CHARGE_FACTOR = 0.1 * C_CM          # statC per C (documented Gaussian conversion)
IRREDUCIBLE_IN_CGS = {"mu_0", "eps_0"}  # SI-only electromagnetic constants: unyt documents no CGS form (X_cgs absent, X stays SI)
SYSTEMS = ["cgs", "mks", "imperial", "galactic", "solar", "geometrized", "planck"]


def si_of(q):
    return payload(q)[0] * q.units.base_value


def make_system_case(sysname):
    def h(ctx):
        unyt = ctx.mods["unyt"]
        US = ctx.mods["US"]
        from unyt._unit_lookup_table import physical_constants as table
        reg = ctx.mods["UR"].UnitRegistry(unit_system=sysname)
        V = {}
        sym_table = OrderedDict()
        for name, (v0, unit, aliases) in table.items():
            V[name] = ctx.real("v:" + name)
            sym_table[name] = (V[name], unit, aliases)
        ns = {}
        saved = US.physical_constants
        US.physical_constants = sym_table
        try:
            r = call(US.add_constants, ns, reg)
        finally:
            US.physical_constants = saved
        if r[0] == "raise":
            ctx.require("add_constants runs", False, exc=type(r[1]).__name__, msg=str(r[1])[:200])
            return
        for name, (v0, unit, aliases) in table.items():
            v = V[name]
            tu = unyt.Unit(unit, registry=reg)
            E = oracle_var(ctx, "si:" + name, v * tu.base_value)
            em = str(tu.expr) == "C"
            for nm in [name] + list(aliases):
                role = "name" if nm == name else "alias"
                # X_mks: the table value in the table unit
                q = ns.get(nm + "_mks")
                ok = q is not None and And(close(payload(q)[0], v, tol=0), str(q.units) == str(tu), close(si_of(q), E))
                ctx.require(f"{name}/{role}/_mks", ok, key=nm + "_mks", got=str(q.units) if q is not None else None)
                # X_cgs
                q = ns.get(nm + "_cgs")
                if name in IRREDUCIBLE_IN_CGS:
                    ctx.require(f"{name}/{role}/_cgs", q is None, key=nm + "_cgs", why="documented as not representable in CGS")
                elif q is None:
                    ctx.require(f"{name}/{role}/_cgs", False, key=nm + "_cgs", why="missing")
                elif em:
                    ctx.require(f"{name}/{role}/_cgs", And(close(payload(q)[0], v * EM_CHARGE_FACTOR), str(q.units) == "statC"), key=nm + "_cgs", got=str(q.units))
                else:
                    ctx.require(f"{name}/{role}/_cgs", And(close(si_of(q), E), dimvec(q.units.dimensions) == dimvec(tu.dimensions)), key=nm + "_cgs", got=str(q.units))
                # X in this registry's unit system
                q = ns.get(nm)
                if q is None:
                    ctx.require(f"{name}/{role}/base", False, key=nm, why="missing")
                elif em and sysname == "cgs":
                    ctx.require(f"{name}/{role}/base", And(close(payload(q)[0], v * EM_CHARGE_FACTOR), str(q.units) == "statC"), key=nm, got=str(q.units))
                else:
                    ctx.require(f"{name}/{role}/base", And(close(si_of(q), E), dimvec(q.units.dimensions) == dimvec(tu.dimensions)), key=nm, got=str(q.units))
                    ctx.observe(f"{nm}", payload(q)[0])
        for old, new in (("hmks", "h_mks"), ("hcgs", "h_cgs")):
            a, b = ns.get(old), ns.get(new)
            ctx.require(f"h/legacy/{old}", a is not None and b is not None and And(close(payload(a)[0], payload(b)[0], tol=0), str(a.units) == str(b.units)))
        expected_keys = set()
        for name, (v0, unit, aliases) in table.items():
            for nm in [name] + list(aliases):
                expected_keys |= {nm, nm + "_mks"} | (set() if name in IRREDUCIBLE_IN_CGS else {nm + "_cgs"})
        ctx.require("namespace has exactly the documented names", set(ns) == expected_keys | {"hmks", "hcgs"}, extra=sorted(set(ns) ^ (expected_keys | {"hmks", "hcgs"}))[:8])
    return Case(f"C15/system/{sysname}", h, bounds="39 symbolic values, all names x 3 suffixes", budget_s=600, weight=5, max_paths=16)


# ------------------------------------------------------------------------------------------------ ground parts

def make_relations_case():
    def h(ctx):
        from unyt import _physical_ratios as R
        from unyt._unit_lookup_table import physical_constants as table
        q = float_q
        c, h_, kb, G = q(R.speed_of_light_m_per_s), q(R.planck_mks), q(R.boltzmann_constant_J_per_K), q(R.newton_mks)
        e, me = q(R.elementary_charge_C), q(R.mass_electron_kg)
        eps0, mu0 = q(R.eps_0), q(R.mu_0)
        hbar = q(table["hbar"][0])
        sig, arad, rinf = q(table["σ"][0]), q(table["a"][0]), q(table["R_inf"][0])
        mpl, lpl, tpl, Epl, Tpl, qpl = (q(table[k][0]) for k in ("m_pl", "l_pl", "t_pl", "E_pl", "T_pl", "q_pl"))
        rnd = Fraction(1, 10**13)            # float rounding of a handful of operations
        rel = [
            ("hbar = h/2pi", hbar * 2 * PI, h_), ("table h is the ratio h", q(table["h"][0]), h_), ("table G", q(table["G"][0]), G),
            ("table kb", q(table["kb"][0]), kb), ("table c", q(table["c"][0]), c),
            ("eps_0*mu_0*c^2 = 1", q(table["eps_0"][0]) * q(table["mu_0"][0]) * c * c, Fraction(1)),
            ("mu_0 = 4 pi 1e-7", mu0, 4 * PI * Fraction(1, 10**7)),
            ("sigma_SB = 2 pi^5 k^4/(15 c^2 h^3)", sig * 15 * c**2 * h_**3, 2 * PI**5 * kb**4),
            ("a = 4 sigma/c", arad * c, 4 * sig),
            ("R_inf = me e^4/(8 eps0^2 h^3 c)", rinf * 8 * eps0**2 * h_**3 * c, me * e**4),
            ("m_pl^2 G = hbar c", mpl**2 * G, hbar * c), ("l_pl^2 c^3 = hbar G", lpl**2 * c**3, hbar * G), ("t_pl c = l_pl", tpl * c, lpl),
            ("E_pl = m_pl c^2", Epl, mpl * c * c), ("T_pl kb = E_pl", Tpl * kb, Epl), ("q_pl^2 = 4 pi eps0 hbar c", qpl**2, 4 * PI * eps0 * hbar * c),
            ("qe = -qp", q(table["qe"][0]), -q(table["qp"][0])), ("qp = e", q(table["qp"][0]), e),
        ]
        for label, lhs, rhs in rel:
            ctx.require(f"relation/{label}", within(ctx, lhs, rhs, rnd), lhs=float(lhs), rhs=float(rhs))
        # measured-class relations between independently entered ratios
        ctx.require("relation/Na * amu[g] = 1 g/mol (CODATA class)", within(ctx, q(R.avogadros_number) * q(R.amu_grams), 1, TOL["codata"]))
        ctx.require("relation/J_per_eV = e * 1 V (CODATA class)", within(ctx, q(R.J_per_eV), e, TOL["codata"]))
        ctx.require("relation/mh = 1.00794 amu (atomic weight class)", within(ctx, q(R.mass_hydrogen_kg), Fraction("1.00794") * q(R.amu_kg), TOL["weight"]))
        for name, (v0, unit, aliases) in table.items():
            if name not in CONST_DEFS:
                ctx.require(f"value/{name}", False, why="no independent value written for this constant")
                continue
            d, cls, note = CONST_DEFS[name]
            ctx.require(f"value/{name}", within(ctx, q(v0), d, TOL[cls]), value=v0, published=float(d), cls=cls, note=note)
            ctx.observe(f"value/{name}", float(v0))
    return Case("C15/ground/relations", h, bounds="18 defining relations + 3 cross-ratio relations + 39 values (ground, exact rationals)")


def make_default_case():
    """the default constants (unyt.physical_constants, top level) are the table values; alias objects equal"""
    def h(ctx):
        unyt = ctx.mods["unyt"]
        from unyt._unit_lookup_table import physical_constants as table
        pcm = vars(unyt.physical_constants)
        for name, (v0, unit, aliases) in table.items():
            tu = unyt.Unit(unit)
            for nm in [name] + list(aliases):
                qd = pcm.get(nm)
                ok = qd is not None and And(close(si_of(qd), float(v0) * float(tu.base_value)), dimvec(qd.units.dimensions) == dimvec(tu.dimensions))
                ctx.require(f"default/{name}/{'name' if nm == name else 'alias'}", ok, key=nm)
                top = vars(unyt).get(nm)
                ctx.require(f"top-level/{name}/{'name' if nm == name else 'alias'}", top is qd, key=nm, got=type(top).__name__)
    return Case("C15/ground/default-namespace", h, bounds="39 constants x names (ground)")


def both_names(mods):
    from unyt._unit_lookup_table import inv_name_alternatives, physical_constants as table
    out = []
    for name, (v0, unit, aliases) in table.items():
        for nm in [name] + list(aliases):
            if nm in inv_name_alternatives:
                out.append((name, nm))
    return out


def make_both_case(mods):
    """(c) a name that is both a unit and a constant denotes the same quantity either way (GROUND: two table floats)"""
    names = both_names(mods)

    def h(ctx):
        unyt = ctx.mods["unyt"]
        pcm = vars(unyt.physical_constants)
        for cname, nm in names:
            q = pcm[nm]
            u = unyt.Unit(nm)
            same_dim = dimvec(q.units.dimensions) == dimvec(u.dimensions)
            if not same_dim:
                ctx.require(f"same name, same kind of quantity/{nm}", False, constant=str(q), unit=f"{u.base_value} [{u.dimensions}]")
                continue
            ctx.require(f"unit and constant agree/{nm}", within(ctx, float_q(u.base_value), float_q(si_of(q)), Fraction(1, 10**9)),
                        constant_si=float(si_of(q)), unit_si=float(u.base_value))
            ctx.observe(f"both/{nm}", float(u.base_value))
    return Case("C15/ground/unit-and-constant", h, bounds=f"{len(names)} names that are both a unit spelling and a constant (ground)")


def cases(tier, mods):
    out = [make_system_case(s) for s in SYSTEMS]
    out += [make_relations_case(), make_default_case(), make_both_case(mods)]
    return out


def coverage_extra(results, tier):
    by = {}
    for r in results:
        g = r["id"].split("/")[1]
        d = by.setdefault(g, dict(cases=0, obligations=0, ground=0))
        d["cases"] += 1
        d["obligations"] += r["stats"]["obligations"]
        d["ground"] += r["stats"]["ground_true"]
    return dict(parts=by, note="system/* are decided by z3 for all values of every constant; ground/* are exact-rational facts about the current tables")

