"""C10 - unit-system base conversion stays inside the system and preserves the quantity."""
from fractions import Fraction

from .common import PREFIX, And, Case, all_close, call, check_names, close, elements, payload, vabs

LEVEL = "other"
BATCH_REPLAY = True  # every case restores the global unit-system state it touches (reset_builtin, registry pop)
MANIFEST = dict(
    category="other",
    text=("Bounded symbolic execution of the real unit-system code (symx): for every built-in system x every atomic unit of the "
          "default table (plus prefixed and compound units), and for generated user-defined systems whose base-unit scales are "
          "z3 reals, z3 proves per path that in_base/convert_to_base/get_base_equivalent land on units the system declares, keep "
          "the dimension (or its CGS/SI counterpart), keep the SI magnitude for ALL values and scales, invert, agree with each "
          "other, are idempotent and memoise consistently; any model is replayed on plain unyt. Bounded: unit names and compound "
          "shapes are enumerated; rounding is outside."),
    design="DESIGN.md section 4 C10",
    technique="symbolic execution of the real Python code over z3 real terms; SMT (QF_NRA) obligations per path; counterexample replay")
EXPLANATION = (
    "The real UnitSystem.__init__/__getitem__/__setitem__, _get_system_unit_string, _sanitize_unit_system, "
    "Unit.get_base_equivalent/get_cgs_equivalent/get_mks_equivalent, unyt_array.in_base/in_cgs/in_mks, "
    "convert_to_base/cgs/mks, _check_em_conversion, _em_conversion and the unit-string parser are executed on quantities whose "
    "value (and, for harness-defined units and user-defined systems, every unit scale/offset) is a z3 real. Per path z3 decides "
    "pc & not(P) for: result atoms within the units the system declares; dimension kept (or the CGS/SI counterpart); SI "
    "magnitude kept (independent oracle: product of table rows; EM factor from an independent table); conversion back gives "
    "x; in_base == convert_to_base == to(get_base_equivalent) (== in_cgs/in_mks); first call (synthesis) == second call "
    "(memoised units_map entry); in_base(in_base(q)) == in_base(q); by name == by object == registry default == 'code'; "
    "raising is UnitsNotReducible and only for a system without MKS current; ill-defined systems are rejected and not registered."
)
BOUNDS = {
    "quick": ("systems: 7 built-in + 4 user-defined (U1: 3 base units; U2: all optional base units + energy override; U3: no MKS current, "
              "base units given as quantity with coefficient / SI-prefixed name / Unit object, velocity override; code: yt-style code "
              "system named by the registry id, 4 overrides), all user base-unit scales symbolic. Starting units: every symbol of the "
              "default table (value symbolic) x 7 built-in systems; 1 symbol per dimension x 4 user systems; 1 symbol per dimension "
              "with its row re-defined with a symbolic scale/offset x 7 built-in systems; 14 SI-prefixed table units; compound shapes "
              "of <= 3 factors (10 shapes, exponents +-1, +-2, +-3, 1/2) over a 16-symbol pool, 1 rotation; 22 harness-defined "
              "starting units (symbolic scale, symbolic offset, prefixed, compounds of 3 symbolic-scale symbols, mixed with table "
              "symbols, table units) x all 11 systems; system named by name / object / registry default / 'code'; 18 ill-defined "
              "constructions (table and registry, atomic/prefixed/coefficient/compound) followed by a valid one; scalar payloads"),
    "thorough": ("as quick, plus: every table symbol x 4 user systems and every table symbol with a symbolic-scale row x 7 built-in "
                 "systems (one case each); 2-element payloads for the table sweep; 24-symbol compound pool, 6 rotations; 32 prefixed "
                 "units; 57 harness-defined starting units x 11 systems"),
}
OUTSIDE = ("IEEE rounding/overflow (A1) - compounds whose factorisation into a system's base units leaves the double range in a partial "
           "product (t_pl**8 ...) are skipped; integer/complex payloads (C17); the numeric correctness of table rows themselves (C02: the "
           "oracle takes a symbol's scale and dimension from its registry row); compound units with more than 3 factors; quantities "
           "whose registry lacks the system's base units; re-registering a system under an existing name; concurrent use")

NAMES = ["xl", "xm", "xt", "xtemp", "xang", "xcur", "xen", "xv", "xa", "xb", "xc"]
CODE_NAMES = ["code_length", "code_mass", "code_time", "code_temperature", "code_velocity", "code_magnetic", "code_pressure", "code_density"]

BUILTIN = ["cgs", "mks", "imperial", "galactic", "solar", "geometrized", "planck"]

# ----------------------------------------------------------------------------- independent tables
C_CM = 29979245800.0
# dimension pairs (names in unyt.dimensions) with a documented SI <-> Gaussian counterpart, and K with
#   si_cgs(result) = K * si_mks(input),   si(.) = reading * scale in unyt's (kg, m, s, A) base:
# 1 C = 0.1 c statC and statC = g**0.5 cm**1.5 / s = 10**-4.5 base units; 1 T = 1e4 G, G = 10**-0.5; statA = statC/s;
# 1 V = 1e8/c statV (= 1 J/C), statV = 10**-2.5; 1 ohm = 1e9/c**2 statohm, statohm = s/cm = 100.
EM_DIMS = [
    ("charge_mks", "charge_cgs", 0.1 * C_CM * 10**-4.5),
    ("current_mks", "current_cgs", 0.1 * C_CM * 10**-4.5),
    ("magnetic_field_mks", "magnetic_field_cgs", 1.0e4 * 10**-0.5),
    ("electric_potential_mks", "electric_potential_cgs", 1.0e8 / C_CM * 10**-2.5),
    ("resistance_mks", "resistance_cgs", 1.0e9 / C_CM**2 * 100.0),
]
# atomic names (prefix stripped) that take unyt's SI <-> Gaussian route
EM_ATOMS = {"C", "T", "A", "V", "Ω", "ohm", "statC", "esu", "ESU", "G", "gauss", "statA", "statV", "statohm", "Fr"}

_PRISTINE = {}


def _prefix_sorted():
    return sorted(PREFIX, key=len, reverse=True)


def oracle_row(name, lut, base_keys):
    """(scale, dims) of one symbol from the registry rows as defined (not the prefixed rows unyt writes back);
    SI prefixes from the harness' own table"""
    if name in base_keys:
        return lut[name][0], lut[name][1]
    for p in _prefix_sorted():
        rest = name[len(p):]
        if name.startswith(p) and rest in base_keys and lut[rest][4]:
            return lut[rest][0] * PREFIX[p], lut[rest][1]
    raise KeyError(name)


def oracle_unit(expr, lut, base_keys):
    """scale and dimensions of a unit expression, recomputed from the rows (independent of _get_unit_data_from_expr)"""
    coeff, rest = expr.as_coeff_Mul()
    scale = float(coeff)
    dims = 1
    for base, exp in rest.as_powers_dict().items():
        if base.is_Number:
            scale = scale * float(base ** exp)
            continue
        s, d = oracle_row(str(base), lut, base_keys)
        e = Fraction(str(exp)).limit_denominator(1000)
        scale = scale * (s ** e if e != 1 else s)
        dims = dims * d ** exp
    return scale, dims


def atoms_of(expr):
    return {str(a) for a in expr.atoms() if not a.is_Number}


def declared_atoms(S):
    out = set()
    for k, v in S.units_map.items():
        if v is not None:
            out |= atoms_of(v)
    return out


def same_dims(a, b):
    return (a / b) == 1


def same_unit(u, v):
    """the same unit expression up to the representation of a numeric coefficient (2.0*xl vs 2*xl)"""
    r = u.expr / v.expr
    return bool(r.is_Number) and abs(float(r) - 1.0) <= 1e-9


def em_counterpart(mods, dims):
    """(counterpart dimension, K) or None"""
    D = mods["unyt"].dimensions
    for m, c, k in EM_DIMS:
        if same_dims(dims, getattr(D, m)):
            return getattr(D, c), k
        if same_dims(dims, getattr(D, c)):
            return getattr(D, m), 1.0 / k
    return None


def reset_builtin(mods):
    """the built-in systems are module globals whose units_map grows as derived dimensions are requested: every path (and
    every unit inside a path) starts from the maps as defined in unit_systems.py; the growth itself is exercised between the
    first and the later calls of one battery"""
    US = mods["US"]
    key = id(US)
    if key not in _PRISTINE:
        D = mods["unyt"].dimensions
        snap = {}
        for n, S in US.unit_system_registry.items():
            if n in BUILTIN:
                # the map as *declared* in unit_systems.py: base units + explicit overrides (S._dims), without the entries that
                # importing unyt already memoised (physical constants are converted at import time)
                um = type(S.units_map)((k, S.units_map[k]) for k in S.base_units)
                for dn in S._dims:
                    um[getattr(D, dn)] = S.units_map[getattr(D, dn)]
                snap[n] = (S, um, list(S._dims))
        _PRISTINE[key] = snap
    for n, (S, um, dl) in _PRISTINE[key].items():
        US.unit_system_registry[n] = S
        S.units_map = um.copy()
        S._dims = list(dl)


def si_of(v, scale, offset):
    if isinstance(offset, (int, float)) and offset == 0:
        return v * scale
    return (v - offset) * scale


def is_em_atom(ustr, lut):
    for p in [""] + _prefix_sorted():
        if ustr.startswith(p) and ustr[len(p):] in EM_ATOMS:
            return True
    return False


def battery(ctx, tag, q, xs, S, sysargs, reg, base_keys, src):
    """all C10 obligations for one quantity q (payload elements xs) and one system S.
    sysargs: list of (label, argument) ways of naming S to in_base; the first one is the reference.
    src = (scale, offset, dims) of q's unit from the harness' own knowledge."""
    mods = ctx.mods
    unyt = mods["unyt"]
    D = unyt.dimensions
    NR = unyt.exceptions.UnitsNotReducible
    s_q, o_q, d_q = src
    lut = reg.lut
    declared = declared_atoms(S)
    has_current = S.units_map[D.current_mks] is not None
    u_before = q.units
    ustr_before = str(q.units)
    arg0 = sysargs[0][1]
    res = call(q.in_base, arg0)
    if res[0] == "raise":
        e = res[1]
        ctx.require(f"{tag}|raises only UnitsNotReducible", isinstance(e, NR), exc=type(e).__name__, msg=str(e)[:120])
        ctx.require(f"{tag}|UnitsNotReducible only without MKS current", (not has_current) and D.current_mks in d_q.free_symbols)
        r2 = call(q.units.get_base_equivalent, arg0)
        ctx.require(f"{tag}|get_base_equivalent raises too", r2[0] == "raise" and isinstance(r2[1], NR))
        c = q.copy()
        r3 = call(c.convert_to_base, arg0)
        ctx.require(f"{tag}|convert_to_base raises too, operand intact",
                    And(r3[0] == "raise" and isinstance(r3[1], NR), str(c.units) == ustr_before, all_close(payload(c), xs, tol=0)))
        ctx.observe(f"{tag}|outcome", "UnitsNotReducible")
        return None
    r1 = res[1]
    v1 = payload(r1)
    ctx.observe(f"{tag}|in_base", v1)
    ctx.observe(f"{tag}|unit", str(r1.units))
    # (1) inside the system
    at = atoms_of(r1.units.expr)
    ctx.require(f"{tag}|stays/inside system", at <= declared, result=str(r1.units), stray=sorted(at - declared))
    # (2) dimension, from the rows
    s_r, d_r = oracle_unit(r1.units.expr, lut, base_keys)
    o_r = r1.units.base_offset
    if same_dims(d_r, d_q):
        K = 1.0
        ctx.require(f"{tag}|dimension kept", same_dims(r1.units.dimensions, d_q))
    else:
        em = em_counterpart(mods, d_q)
        okdim = em is not None and same_dims(d_r, em[0]) and same_dims(r1.units.dimensions, em[0])
        ctx.require(f"{tag}|dimension kept", okdim, got=str(d_r), want=str(d_q))
        K = em[1] if okdim else None
    ctx.require(f"{tag}|result unit scale from rows", close(r1.units.base_value, s_r))
    # (3) same physical quantity
    if K is not None:
        ex = 1e-6 * (vabs(s_q * o_q) * K + vabs(s_r * o_r))
        ctx.require(f"{tag}|si kept", And(*[close(si_of(v, s_r, o_r), si_of(x, s_q, o_q) * K, extra=ex) for v, x in zip(v1, xs)]),
                    result=str(r1.units))
    # (4) back
    back = call(r1.to, q.units)
    ctx.require(f"{tag}|converts back", back[0] == "ok" and all_close(payload(back[1]), xs, extra=1e-6 * (vabs(o_q) + vabs(o_r * s_r / s_q))),
                err=repr(back[1])[:120] if back[0] == "raise" else "")
    # (5) twins
    c = q.copy()
    c.convert_to_base(arg0)
    tgt = q.units.get_base_equivalent(arg0)
    r3 = q.to(tgt)
    twins = [("convert_to_base", c), ("to(get_base_equivalent)", r3)]
    for lab, arg in sysargs[1:]:
        twins.append((f"in_base({lab})", q.in_base(arg)))
    if S.name in ("cgs", "mks"):
        c2 = q.copy()
        {"cgs": c2.convert_to_cgs, "mks": c2.convert_to_mks}[S.name]()
        twins.append(("in_" + S.name, {"cgs": q.in_cgs, "mks": q.in_mks}[S.name]()))
        twins.append(("convert_to_" + S.name, c2))
        ge = {"cgs": q.units.get_cgs_equivalent, "mks": q.units.get_mks_equivalent}[S.name]()
        ctx.require(f"{tag}|get_{S.name}_equivalent", same_unit(ge, r1.units))
    ctx.require(f"{tag}|get_base_equivalent unit", same_unit(tgt, r1.units), got=str(tgt), want=str(r1.units))
    for nm, r in twins:
        ctx.require(f"{tag}|in_base == {nm}", And(same_unit(r1.units, r.units), all_close(v1, payload(r))), got=str(r.units), want=str(r1.units))
    # (6) memoised second call == first call (the first one synthesised and stored the units_map entry)
    rb = q.in_base(arg0)
    ctx.require(f"{tag}|second call (memoised) == first", And(same_unit(r1.units, rb.units), all_close(v1, payload(rb))))
    # (7) idempotent
    rr = call(r1.in_base, arg0)
    ctx.require(f"{tag}|stays/idempotent", rr[0] == "ok" and And(same_unit(r1.units, rr[1].units), all_close(v1, payload(rr[1]))),
                once=str(r1.units), twice=str(rr[1].units) if rr[0] == "ok" else repr(rr[1])[:120])
    cc = r1.copy()
    rc = call(cc.convert_to_base, arg0)
    ctx.require(f"{tag}|stays/idempotent in place", rc[0] == "ok" and And(same_unit(r1.units, cc.units), all_close(v1, payload(cc))))
    # (8) every entry of the (grown) units_map still has the dimension it is filed under
    bad = []
    for k, v in S.units_map.items():
        if v is not None and not same_dims(oracle_unit(v, lut, base_keys)[1], k):
            bad.append(str(k))
    ctx.require(f"{tag}|units_map entries match their dimension", not bad, bad=bad)
    # (9) input untouched
    ctx.require(f"{tag}|input untouched", And(all_close(payload(q), xs, tol=0), q.units is u_before, str(q.units) == ustr_before))
    return r1


def tag_of(ustr, lut):
    return ("em:" if is_em_atom(ustr, lut) else "") + ustr


def atomic_src(name, lut, base_keys):
    """harness-side (scale, offset, dims) of an atomic (possibly prefixed) table unit: reading x -> SI = s*(x - o)"""
    if name in base_keys:
        row = lut[name]
        return row[0], row[2], row[1]
    for p in _prefix_sorted():
        rest = name[len(p):]
        if name.startswith(p) and rest in base_keys and lut[rest][4]:
            row = lut[rest]
            return row[0] * PREFIX[p], row[2] / PREFIX[p], row[1]
    raise KeyError(name)


def default_keys():
    from unyt._unit_lookup_table import default_unit_symbol_lut
    return set(default_unit_symbol_lut)


# ----------------------------------------------------------------------------- built-in systems x table units

def make_builtin_case(system, group, ustrs, shape=(), naming="name", kind="builtin"):
    """value symbolic, scales from the table; ustrs: atomic symbols, prefixed symbols or compound expressions"""
    def h(ctx):
        mods = ctx.mods
        reset_builtin(mods)
        US = mods["US"]
        S = US.unit_system_registry[system]
        keys = default_keys()
        try:
            if naming == "default":
                reg = ctx.registry([], unit_system=system)
                sysargs = [("registry default", None), ("name", system)]
            else:
                reg = mods["UO"].default_unit_registry
                sysargs = [("name", system), ("object", S)]
            for n in ustrs:
                reset_builtin(mods)
                x = ctx.reals("x_" + str(ustrs.index(n)), shape)
                q = ctx.quantity(x, n, reg if naming == "default" else None)
                if q.units.is_atomic:
                    src = atomic_src(str(q.units.expr), reg.lut, keys)
                else:
                    s, d = oracle_unit(q.units.expr, reg.lut, keys)
                    src = (s, 0.0, d)
                battery(ctx, tag_of(n, reg.lut), q, elements(x), S, sysargs, reg, keys, src)
        finally:
            reset_builtin(mods)
    sh = "" if shape == () else "/shape" + "x".join(map(str, shape))
    return Case(f"C10/{kind}/{system}/{group}{sh}", h, bounds="symbolic: value; table scales", weight=len(ustrs))


def make_builtin_symscale_case(system, group, names):
    """the starting unit's row is re-defined with a symbolic scale (and offset where the table has one)"""
    def h(ctx):
        mods = ctx.mods
        reset_builtin(mods)
        S = mods["US"].unit_system_registry[system]
        try:
            for n in names:
                reset_builtin(mods)
                reg = ctx.registry([])
                keys = set(reg.lut)
                row = reg.lut[n]
                s = ctx.real(f"s_{names.index(n)}", pos=True) if row[0] > 0 else row[0]
                o = ctx.real(f"o_{names.index(n)}") if row[2] != 0 else 0.0
                ctx.add_row(reg, n, row[1], s, o, prefixable=row[4])
                x = ctx.reals(f"x_{names.index(n)}", ())
                q = ctx.quantity(x, n, reg)
                battery(ctx, n, q, elements(x), S, [("name", system), ("object", S)], reg, keys, (s, o, row[1]))
        finally:
            reset_builtin(mods)
    return Case(f"C10/builtinS/{system}/{group}", h, bounds="symbolic: value, scale (offset) of the starting unit", weight=3 * len(names))


def _dim_label(mods, d, cache={}):
    D = mods["unyt"].dimensions
    import sympy
    if not cache:
        for n in sorted(dir(D)):
            v = getattr(D, n)
            if isinstance(v, sympy.Basic) and not n.startswith("_") and len(n) > 2:
                cache.setdefault(str(v), n)
        cache["1"] = "dimensionless"
    return cache.get(str(d), "other")


def table_by_dim(mods):
    from unyt._unit_lookup_table import default_unit_symbol_lut as lut
    by = {}
    for n, row in lut.items():
        by.setdefault(_dim_label(mods, row[1]), []).append(n)
    return by


def table_groups(mods, chunk):
    by = table_by_dim(mods)
    out = []
    for lab in sorted(by):
        ns = by[lab]
        for i in range(0, len(ns), chunk):
            out.append((lab + (f"_{i // chunk}" if len(ns) > chunk else ""), ns[i:i + chunk]))
    return out


PREFIXED = ["km", "mg", "Myr", "keV", "MK", "mdegC", "kV", "mC", "kG", "uT", "mA", "kstatA", "kohm", "mrad"]
PREFIXED_MORE = ["nm", "Mpc", "ug", "ns", "GHz", "mJ", "kPa", "MW", "uN", "mSv", "kdegC", "daN", "hPa", "uF", "mH", "kWb", "mlm", "Gyr"]

POOL = ["cm", "km", "g", "Msun", "s", "yr", "K", "erg", "eV", "dyne", "Pa", "W", "rad", "A", "mile", "cd", "C", "G", "statC", "T", "V", "lbf",
        "Hz", "degC"]
SHAPES = ["{a}*{b}", "{a}/{b}", "{a}**2", "{a}**-1", "sqrt({a})", "{a}*{b}/{c}", "{a}**2*{b}/{c}**3", "{a}/({b}**2*{c})", "{a}*{b}*{c}",
          "{a}**-2*{b}**(1/2)"]


def _in_float_range(mods, system, ustr):
    """A1: skip a compound whose factorisation into the system's base units leaves the double range in some partial
    product (e.g. t_pl**8): sufficient condition sum |exp * log10(scale)| < 290 over source and target factors"""
    import math
    import sympy
    from unyt._unit_lookup_table import default_unit_symbol_lut as lut
    keys = set(lut)
    U = mods["unyt"].Unit(ustr)
    tot = 0.0
    dims = 1
    for base, exp in U.expr.as_powers_dict().items():
        if base.is_Number:
            continue
        s, d = oracle_row(str(base), lut, keys)
        tot += abs(float(exp) * math.log10(abs(s)))
        dims = dims * d ** exp
    S = _PRISTINE[id(mods["US"])][system][1]
    for base, exp in sympy.sympify(dims).expand().as_powers_dict().items():
        if base.is_Number:
            continue
        bu = S.get(base)
        if bu is None:
            continue
        s, _ = oracle_unit(bu, lut, keys)
        tot += abs(float(exp) * math.log10(abs(s)))
    return tot < 290.0


def compounds(pool, rotations):
    out = []
    n = len(pool)
    for (k1, k2) in rotations:
        for i in range(n):
            a, b, c = pool[i], pool[(i + k1) % n], pool[(i + k2) % n]
            sh = SHAPES[(i + k1) % len(SHAPES)]
            u = sh.format(a=a, b=b, c=c)
            if u not in out:
                out.append(u)
    return out


# ----------------------------------------------------------------------------- user-defined systems

def user_registry(ctx, variant):
    """registry with the rows of the system's base units; every scale is a symbol"""
    D = ctx.mods["unyt"].dimensions
    reg = ctx.registry([])

    def row(n, dim, prefixable=False):
        ctx.add_row(reg, n, getattr(D, dim), ctx.real(n + "_s", pos=True), 0.0, prefixable=prefixable)

    if variant == "code":
        for n, dim in zip(CODE_NAMES, ["length", "mass", "time", "temperature", "velocity", "magnetic_field_cgs", "pressure", "density"]):
            row(n, dim)
        return reg
    row("xl", "length")
    row("xm", "mass", prefixable=True)
    row("xt", "time")
    if variant == "U2":
        row("xtemp", "temperature")
        row("xang", "angle")
        row("xcur", "current_mks")
        row("xen", "energy")
    if variant == "U3":
        row("xv", "velocity")
    return reg


def user_system(ctx, variant, reg):
    """-> (S, name, sysargs): the system is defined after all rows exist (the 'code' name is the registry's id)"""
    unyt = ctx.mods["unyt"]
    US = ctx.mods["US"]
    if variant == "code":
        # as yt's create_code_unit_system
        name = reg.unit_system_id
        S = US.UnitSystem(name, "code_length", "code_mass", "code_time", "code_temperature", current_mks_unit=None, registry=reg)
        S["velocity"] = "code_velocity"
        S["magnetic_field_cgs"] = "code_magnetic"
        S["pressure"] = "code_pressure"
        S["density"] = "code_density"
        return S, name, [("name", name), ("object", S), ("code", "code")]
    name = "xsys_" + variant
    if variant == "U1":
        S = US.UnitSystem(name, "xl", "xm", "xt", registry=reg)
    elif variant == "U2":
        S = US.UnitSystem(name, "xl", "xm", "xt", temperature_unit="xtemp", angle_unit="xang", current_mks_unit="xcur", registry=reg)
        S["energy"] = "xen"
    elif variant == "U3":
        S = US.UnitSystem(name, unyt.unyt_quantity(2.0, "xl", registry=reg), "kxm", unyt.Unit("xt", registry=reg),
                          temperature_unit="R", current_mks_unit=None, registry=reg)
        S["velocity"] = unyt.Unit("xv", registry=reg)
    else:
        raise KeyError(variant)
    return S, name, [("name", name), ("object", S)]


def _sym_atom(dim, prefix="", offset=False):
    def build(ctx, reg):
        D = ctx.mods["unyt"].dimensions
        s = ctx.real("xa_s", pos=True)
        o = ctx.real("xa_o") if offset else 0.0
        d = getattr(D, dim)
        ctx.add_row(reg, "xa", d, s, o, prefixable=True)
        if prefix:
            return prefix + "xa", (s * PREFIX[prefix], o / PREFIX[prefix], d)
        return "xa", (s, o, d)
    return build


def _sym_compound(template, mixed=False):
    """template over xa (length), xb (mass), xc (time), all with symbolic scales, possibly mixed with table symbols"""
    def build(ctx, reg):
        D = ctx.mods["unyt"].dimensions
        for n, d in (("xa", D.length), ("xb", D.mass), ("xc", D.time)):
            if n in template:
                ctx.add_row(reg, n, d, ctx.real(n + "_s", pos=True), 0.0)
        return template, None
    return build


def _table(ustr):
    def build(ctx, reg):
        return ustr, None
    return build


START = {
    # quick subset first (see cases())
    "L": _sym_atom("length"), "kL": _sym_atom("length", "k"), "M": _sym_atom("mass"), "Taff": _sym_atom("temperature", offset=True),
    "Gaff": _sym_atom("angle", offset=True), "I": _sym_atom("current_mks"), "E": _sym_atom("energy"), "Vel": _sym_atom("velocity"),
    "Qm": _sym_atom("charge_mks"), "Bc": _sym_atom("magnetic_field_cgs"), "one": _sym_atom("dimensionless"),
    "c:a/c": _sym_compound("xa/xc"), "c:a**2*b/c**2": _sym_compound("xa**2*xb/xc**2"), "c:sqrt(a)": _sym_compound("sqrt(xa)"),
    "c:b/(a*c**2)": _sym_compound("xb/(xa*xc**2)"), "m:erg/a**3": _sym_compound("erg/xa**3"),
    "t:km": _table("km"), "t:erg": _table("erg"), "t:degC": _table("degC"), "t:G": _table("G"), "t:C": _table("C"), "t:mile/hr": _table("mile/hr"),
    # thorough only
    "T": _sym_atom("time"), "uM": _sym_atom("mass", "u"), "kTaff": _sym_atom("temperature", "k", offset=True), "P": _sym_atom("pressure"),
    "Qc": _sym_atom("charge_cgs"), "Bm": _sym_atom("magnetic_field_mks"), "Lum": _sym_atom("luminous_intensity"),
    "Log": _sym_atom("logarithmic"), "Dens": _sym_atom("density"), "Sr": _sym_atom("solid_angle"),
    "c:a*b": _sym_compound("xa*xb"), "c:a**-1": _sym_compound("xa**-1"), "c:a**3": _sym_compound("xa**3"), "c:b/a**3": _sym_compound("xb/xa**3"),
    "c:a*b*c": _sym_compound("xa*xb*xc"), "c:a**2*b/c**3": _sym_compound("xa**2*xb/xc**3"), "c:sqrt(b)/(sqrt(a)*c)": _sym_compound("sqrt(xb)/(sqrt(xa)*xc)"),
    "m:b*cm/s**2": _sym_compound("xb*cm/s**2"), "m:a*K": _sym_compound("xa*K"), "m:A*c": _sym_compound("A*xc"),
    "t:g": _table("g"), "t:yr": _table("yr"), "t:degF": _table("degF"), "t:deg": _table("deg"), "t:A": _table("A"), "t:statC": _table("statC"),
    "t:V": _table("V"), "t:W": _table("W"), "t:J/K": _table("J/K"), "t:T": _table("T"), "t:lat": _table("lat"), "t:statC*cm": _table("statC*cm"),
    "t:C/m**2": _table("C/m**2"), "t:kxm": _table("kxm"), "t:dimensionless": _table("dimensionless"),
}
QUICK_START = ["L", "kL", "M", "Taff", "Gaff", "I", "E", "Vel", "Qm", "Bc", "one", "c:a/c", "c:a**2*b/c**2", "c:sqrt(a)", "c:b/(a*c**2)",
               "m:erg/a**3", "t:km", "t:erg", "t:degC", "t:G", "t:C", "t:mile/hr"]


def make_user_case(variant, start, shape=()):
    build = START[start]

    def h(ctx):
        mods = ctx.mods
        US = mods["US"]
        reset_builtin(mods)
        name = None
        try:
            reg = user_registry(ctx, variant)
            ustr, src = build(ctx, reg)
            S, name, sysargs = user_system(ctx, variant, reg)
            keys = set(reg.lut)
            x = ctx.reals("x", shape)
            q = ctx.quantity(x, ustr, reg)
            if src is None:
                if q.units.is_atomic:
                    src = atomic_src(str(q.units.expr), reg.lut, keys)
                else:
                    s, d = oracle_unit(q.units.expr, reg.lut, keys)
                    src = (s, 0.0, d)
            # usable immediately: registered under its name, and the registered object is the one just built
            ctx.require("registered under its name", US.unit_system_registry.get(name) is S and str(S) == name)
            battery(ctx, tag_of(ustr, reg.lut), q, elements(x), S, sysargs, reg, keys, src)
        finally:
            if name is not None:
                US.unit_system_registry.pop(name, None)
            reset_builtin(mods)
    sh = "" if shape == () else "/shape" + "x".join(map(str, shape))
    return Case(f"C10/user/{variant}/{start}{sh}", h, bounds="symbolic: value, all base-unit scales, starting-unit scale/offset",
                budget_s=600, max_paths=3000, weight=20)


def make_user_table_case(variant, label, names):
    """user-defined system (symbolic base scales) x atomic units of the default table"""
    def h(ctx):
        mods = ctx.mods
        US = mods["US"]
        reset_builtin(mods)
        name = None
        try:
            for i, n in enumerate(names):
                reg = user_registry(ctx, variant)
                S, name, sysargs = user_system(ctx, variant, reg)
                keys = set(reg.lut)
                x = ctx.reals(f"x_{i}", ())
                q = ctx.quantity(x, n, reg)
                battery(ctx, tag_of(n, reg.lut), q, elements(x), S, sysargs, reg, keys, atomic_src(n, reg.lut, keys))
                US.unit_system_registry.pop(name, None)
        finally:
            if name is not None:
                US.unit_system_registry.pop(name, None)
            reset_builtin(mods)
    return Case(f"C10/usertab/{variant}/{label}", h, bounds="symbolic: value, all base-unit scales", budget_s=600, max_paths=3000,
                weight=4 * len(names))


def make_builtin_start_case(system, start):
    """built-in system x harness-defined starting unit (symbolic scale/offset, compound shapes)"""
    build = START[start]

    def h(ctx):
        mods = ctx.mods
        reset_builtin(mods)
        S = mods["US"].unit_system_registry[system]
        try:
            reg = ctx.registry([])
            ustr, src = build(ctx, reg)
            keys = set(reg.lut)
            x = ctx.reals("x", ())
            q = ctx.quantity(x, ustr, reg)
            if src is None:
                s, d = oracle_unit(q.units.expr, reg.lut, keys)
                src = (s, 0.0, d)
            battery(ctx, tag_of(ustr, reg.lut), q, elements(x), S, [("name", system), ("object", S)], reg, keys, src)
        finally:
            reset_builtin(mods)
    return Case(f"C10/builtinX/{system}/{start}", h, bounds="symbolic: value, scales/offset of the starting unit's symbols", weight=5)


# ----------------------------------------------------------------------------- ill-defined systems

# (label, registry?, kwargs-builder): every one has at least one base unit of the wrong dimension
def _bad_specs():
    return [
        ("tab/length=g", False, dict(length_unit="g", mass_unit="g", time_unit="s"), True),
        ("tab/mass=cm", False, dict(length_unit="cm", mass_unit="cm", time_unit="s"), True),
        ("tab/time=K", False, dict(length_unit="cm", mass_unit="g", time_unit="K"), True),
        ("tab/swap", False, dict(length_unit="s", mass_unit="g", time_unit="cm"), True),
        ("tab/temperature=erg", False, dict(length_unit="cm", mass_unit="g", time_unit="s", temperature_unit="erg"), True),
        ("tab/angle=s", False, dict(length_unit="cm", mass_unit="g", time_unit="s", angle_unit="s"), True),
        ("tab/current=C", False, dict(length_unit="m", mass_unit="kg", time_unit="s", current_mks_unit="C"), True),
        ("tab/current=statA", False, dict(length_unit="m", mass_unit="kg", time_unit="s", current_mks_unit="statA"), True),
        ("tab/luminous=lm", False, dict(length_unit="m", mass_unit="kg", time_unit="s", luminous_intensity_unit="lx"), True),
        ("tab/prefixed length=kg", False, dict(length_unit="kg", mass_unit="kg", time_unit="s"), True),
        ("tab/coefficient 2*g as length", False, dict(length_unit="2*g", mass_unit="g", time_unit="s"), True),
        ("reg/length=xm", True, dict(length_unit="xm", mass_unit="xm", time_unit="xt"), True),
        ("reg/time=xl", True, dict(length_unit="xl", mass_unit="xm", time_unit="xl"), True),
        ("reg/mass=kxl", True, dict(length_unit="xl", mass_unit="kxl", time_unit="xt"), True),
        ("reg/temperature=xt", True, dict(length_unit="xl", mass_unit="xm", time_unit="xt", temperature_unit="xt"), True),
        ("reg/energy unit as mass", True, dict(length_unit="xl", mass_unit="xen", time_unit="xt"), True),
        # compound base unit of the wrong dimension: must not be accepted (which exception is not prescribed)
        ("reg/length=xl/xt", True, dict(length_unit="xl/xt", mass_unit="xm", time_unit="xt"), False),
        ("tab/length=cm**2", False, dict(length_unit="cm**2", mass_unit="g", time_unit="s"), False),
    ]


def make_bad_case(label, with_reg, kw, strict):
    def h(ctx):
        mods = ctx.mods
        US = mods["US"]
        D = mods["unyt"].dimensions
        Ill = mods["unyt"].exceptions.IllDefinedUnitSystem
        reset_builtin(mods)
        name = "xsys_bad"
        US.unit_system_registry.pop(name, None)
        reg = None
        try:
            if with_reg:
                reg = ctx.registry([])
                for n, d, pf in (("xl", D.length, True), ("xm", D.mass, True), ("xt", D.time, False), ("xen", D.energy, False)):
                    ctx.add_row(reg, n, d, ctx.real(n + "_s", pos=True), 0.0, prefixable=pf)
            r = call(US.UnitSystem, name, registry=reg, **kw)
            ctx.require("ill-defined system rejected", r[0] == "raise", got=repr(r[1])[:100])
            if strict:
                ctx.require("rejected with IllDefinedUnitSystem", r[0] == "raise" and isinstance(r[1], Ill), exc=type(r[1]).__name__)
            ctx.require("rejected system is not registered", name not in US.unit_system_registry)
            # the failed construction must not disturb a following valid one, which is then usable at once
            if with_reg:
                good = call(US.UnitSystem, name, "xl", "xm", "xt", registry=reg)
                ctx.require("valid system accepted afterwards", good[0] == "ok" and US.unit_system_registry.get(name) is good[1])
                if good[0] == "ok":
                    x = ctx.real("x")
                    q = ctx.quantity(x, "xen", reg)
                    keys = set(reg.lut)
                    battery(ctx, "xen", q, [x], good[1], [("name", name), ("object", good[1])], reg, keys,
                            (ctx.real("xen_s", pos=True), 0.0, D.energy))
        finally:
            US.unit_system_registry.pop(name, None)
            reset_builtin(mods)
    return Case(f"C10/illdefined/{label}", h, bounds="discrete: which base unit has the wrong dimension; symbolic scales")


# ----------------------------------------------------------------------------- catalogue

def cases(tier, mods):
    check_names(mods, NAMES + CODE_NAMES)
    quick = tier == "quick"
    reset_builtin(mods)
    out = []
    by = table_by_dim(mods)
    for system in BUILTIN:
        # every atomic unit of the default table
        for group, names in table_groups(mods, 10):
            out.append(make_builtin_case(system, group, names))
            if not quick:
                out.append(make_builtin_case(system, group, names, shape=(2,)))
        out.append(make_builtin_case(system, "prefixed", PREFIXED, kind="prefixed"))
        if not quick:
            out.append(make_builtin_case(system, "more", PREFIXED_MORE, kind="prefixed"))
        # compound shapes
        rot = [(1, 2)] if quick else [(1, 2), (3, 7), (5, 11), (2, 9), (4, 13), (7, 10)]
        comp = [u for u in compounds(POOL[:16] if quick else POOL, rot) if _in_float_range(mods, system, u)]
        for i in range(0, len(comp), 8):
            out.append(make_builtin_case(system, f"c{i // 8}", comp[i:i + 8], kind="compound"))
        # naming by registry default
        out.append(make_builtin_case(system, "default", ["km", "erg", "degF", "G", "W/m**2", "A*s"], naming="default", kind="naming"))
        # symbolic scale of the starting unit
        for lab in sorted(by):
            names = [n for n in by[lab] if n not in EM_ATOMS]
            if not names:
                continue
            if quick:
                out.append(make_builtin_symscale_case(system, lab, names[:1]))
            else:
                for n in names:
                    out.append(make_builtin_symscale_case(system, f"{lab}/{n}", [n]))
        for st in (QUICK_START if quick else list(START)):
            if not st.startswith("t:"):
                out.append(make_builtin_start_case(system, st))
    for variant in ("U1", "U2", "U3", "code"):
        for st in (QUICK_START if quick else list(START)):
            if variant == "code" and st == "t:kxm":
                continue
            out.append(make_user_case(variant, st))
            if not quick and st in QUICK_START:
                out.append(make_user_case(variant, st, shape=(2,)))
        # every atomic unit of the default table against the user-defined systems
        for lab in sorted(by):
            if quick:
                out.append(make_user_table_case(variant, lab, by[lab][:1]))
            else:
                for n in by[lab]:
                    out.append(make_user_table_case(variant, f"{lab}/{n}", [n]))
    for label, with_reg, kw, strict in _bad_specs():
        out.append(make_bad_case(label, with_reg, kw, strict))
    return out


def coverage_extra(results, tier):
    fam = {}
    for r in results:
        k = r["id"].split("/")[1]
        f = fam.setdefault(k, dict(cases=0, paths=0, obligations=0))
        f["cases"] += 1
        f["paths"] += r["paths"]
        f["obligations"] += r["stats"]["obligations"]
    return dict(families=fam, systems=BUILTIN + ["user:U1", "user:U2", "user:U3", "user:code"])
