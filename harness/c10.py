"""C10 - unit-system base conversion stays inside the system and preserves the quantity."""
from fractions import Fraction

from .common import PREFIX, And, Case, all_close, call, check_names, close, elements, payload, vabs

LEVEL = "other"
BATCH_REPLAY = True  # every case restores the global unit-system state it touches (reset_builtin, registry pop)
MANIFEST = dict(
    category="other",
    text=("Bounded symbolic execution of the real unit-system code (symx): for every built-in system x every atomic unit of the "
          "default table (plus prefixed and compound units), and for generated user-defined systems whose base-unit scales are "
          "z3 reals (incl. base units and declared units that carry a numeric coefficient, given as quantity / string / Unit), "
          "z3 proves per path that in_base/convert_to_base/get_base_equivalent/S[dimension] land on the system's OWN unit for the "
          "dimension (the declared unit, else the product of powers of its base units as units, recomputed by the harness from "
          "what it passed to UnitSystem), keep the dimension (or its CGS/SI counterpart), keep the SI magnitude for ALL values "
          "and scales, invert, agree with each other, are idempotent and memoise consistently over every named dimension and over "
          "orders/histories of requests inside one path; the same for starting units that carry a number themselves (the number "
          "times the system's own unit / times another unit / the own unit stripped of its number; written as a string, built as "
          "a Unit object, left behind by simplify()), for what one system hands out converted on into another system (built-in "
          "pairs, user-defined pairs on one registry, mixed), and for quantities made after a row of the registry was edited "
          "(modify by number / by quantity, remove + add; the system's length / mass / time / override symbol or the starting "
          "unit's; new scale a z3 real; system bound to the registry or a built-in one used from an edited registry) with "
          "conversions of the same dimensions before the edit, and for one unit spelling that means two things (two registries "
          "whose rows of that symbol differ in dimension / size / offset, converted into a system they share - built-in, user-defined "
          "and bound to no registry, or bound to the first registry - first from one, then from the other, then from the first "
          "again; or one registry whose symbol was removed and added anew), and for every spelling of the constructor call of a user-defined system (first k documented arguments "
          "positionally, rest by keyword; all by keyword in three orders; units as strings / Unit objects / None) with the expected unit "
          "per dimension taken from the arguments the harness passed BY DOCUMENTED PARAMETER NAME, all sizes z3 reals; any model is "
          "replayed on plain unyt. "
          "Bounded: unit names, coefficients, compound shapes, request orders, system pairs, edit kinds and the pairs of meanings are "
          "enumerated; rounding is outside."),
    design="DESIGN.md section 4 C10",
    technique="symbolic execution of the real Python code over z3 real terms; SMT (QF_NRA) obligations per path; counterexample replay")
EXPLANATION = (
    "The real UnitSystem.__init__/__getitem__/__setitem__, _get_system_unit_string, _sanitize_unit_system, "
    "Unit.get_base_equivalent/get_cgs_equivalent/get_mks_equivalent, unyt_array.in_base/in_cgs/in_mks, "
    "convert_to_base/cgs/mks, _check_em_conversion, _em_conversion and the unit-string parser are executed on quantities whose "
    "value (and, for harness-defined units and user-defined systems, every unit scale/offset) is a z3 real. Per path z3 decides "
    "pc & not(P) for: result atoms within the units the system declares; the result unit IS the system's own unit for the "
    "dimension - the declared unit, else the product of powers of the base units taken as units, coefficient included "
    "((3*xl)**2, not 3*xl**2) - with its scale recomputed by the harness from its own record of the declarations and the "
    "registry rows (scale obligation decided by z3 over the symbolic base scales, expression compared structurally); the reading "
    "equals the SI magnitude divided by that independently computed scale (without looking at the returned unit); dimension "
    "kept (or the CGS/SI counterpart); SI magnitude kept (independent oracle: product of table rows; EM factor from an "
    "independent table); conversion back gives x; in_base == convert_to_base == to(get_base_equivalent) (== in_cgs/in_mks); "
    "first call (synthesis) == second call (memoised units_map entry); every entry of the grown units_map is the system's own "
    "unit; in_base(in_base(q)) == in_base(q); by name == by object == registry default == 'code'; S[name], S[dimension] and "
    "in_base agree for every named dimension of unyt.dimensions in three request orders inside ONE path, and again at the end "
    "of the path; sequences of conversions of different dimensions into one system in one path (each repeated at the end); "
    "raising is UnitsNotReducible / MissingMKSCurrent and only for a system without MKS current; ill-defined systems "
    "(incl. coefficient-carrying base units of the wrong dimension) are rejected and not registered. "
    "Starting units with a number in front (family coef): for every dimension a system declares a unit for and four "
    "synthesised ones the full battery runs on c*(own unit), c*(another unit of the dimension) and, where the own unit "
    "carries a number, its bare symbol part - the axis is the RELATION of the starting unit to the system's unit (equal / "
    "equal up to a number / unrelated), which every 'already in the system' shortcut in in_base, convert_to_base and "
    "get_base_equivalent decides on. From system to system (family chain): in_base(S1) then the battery into S2 with the "
    "harness' own figure for the size of S1's unit, and via-S1 == directly. Registry edits (family regedit): conversions and "
    "S[dimension] before, then modify / modify by quantity / remove+add of one row with a symbolic new scale, then the same "
    "obligations on quantities made after the edit, the oracle reading the harness' OWN copy of the rows (updated by the "
    "harness, not read back from the registry): a unit object, factor or units_map entry kept from before the edit shows up as "
    "a term in the old scale symbol. One spelling, two meanings (family tworeg): registries A and B both define 'xa' (and a time "
    "unit 'xc'), with different dimensions (length/mass, energy/velocity, pressure/energy, SI current/Gaussian field), or the same "
    "dimension and another symbolic size, or with/without a symbolic zero-point offset; the starting unit is spelled xa, kxa, "
    "xa/xc, xa**2 or 3*xa; one of in_base / convert_to_base / get_base_equivalent / S[dimension] is called first on side A "
    "(followed by the core obligations incl. the in-place and Unit-level twins), then the FULL battery runs on the quantity of "
    "side B against the harness' own rows of B, then side A is converted again; variant 'readd': one registry, the symbol removed "
    "and added with the other meaning between the calls. The system is one the registries share: the 7 built-in ones, a "
    "user-defined one bound to no registry (with an override), and one bound to registry A whose own symbols have other symbolic "
    "sizes in B. Anything a conversion leaves behind keyed by the spelling alone (on the system, a class, a module table, a unit "
    "object of the other registry handed out again) shows up as a term in the other side's scale symbols or as a wrong dimension. "
    "Spelling of the constructor call (family spell): UnitSystem(name, length_unit, mass_unit, time_unit, temperature_unit, angle_unit, "
    "current_mks_unit, luminous_intensity_unit, logarithmic_unit, registry) is called with the first k = 4..10 documented arguments "
    "positionally and the rest by keyword, and all by keyword in documented / reversed / rotated order, for four systems whose 8 base "
    "units all have symbolic sizes (all strings; all Unit objects incl. an SI-prefixed one; current_mks_unit None; table units R, "
    "degree, mA, Np mixed with symbolic ones, strings and Unit objects alternating). inspect.signature of the loaded constructor "
    "decides whether a positional spelling binds at all (if not: skipped; the all-keyword spellings are never skipped); a spelling that "
    "binds must construct, register, report has_current_mks and S[slot] as PASSED, and pass the full battery on quantities containing "
    "the SI current (A, T, C/m**3, V/m, A**2*s, ohm*m; for the current-less system A/m, kg/(A*s**2), A**2*s, A*s must raise "
    "UnitsNotReducible) and on lm*Np/K (luminous intensity, angle, logarithmic, temperature), J/K, rad/s, Np**2/s, km - the oracle "
    "(expected unit per dimension, whether an MKS current exists) is the harness' record of the value it handed over for each "
    "documented parameter NAME, never the system's own units_map (a mis-bound argument makes the map agree with the wrong result)."
)
BOUNDS = {
    "quick": ("systems: 7 built-in + 8 user-defined (U1: 3 base units; U2: all optional base units + energy override; U3: no MKS current, "
              "base units given as quantity with coefficient / SI-prefixed name / Unit object, velocity override; code: yt-style code "
              "system named by the registry id, 4 overrides; Q1: quantities 3*xl, 0.8*xm, 42*xt; Q2: strings with a coefficient in all 8 "
              "base slots; Q3: Unit objects with coefficient, quantities of SI-prefixed symbols, coefficient < 1; Q4: no MKS current, "
              "overrides with coefficient, a compound override and a base dimension re-declared before first use), all user base-unit "
              "scales symbolic, coefficients concrete. Starting units: every symbol of the "
              "default table (value symbolic) x 7 built-in systems; 1 symbol per dimension x 4 U-systems; 1 symbol per dimension "
              "with its row re-defined with a symbolic scale/offset x 7 built-in systems; 14 SI-prefixed table units; compound shapes "
              "of <= 3 factors (10 shapes, exponents +-1, +-2, +-3, 1/2) over a 16-symbol pool, 1 rotation; 27 harness-defined "
              "starting units (symbolic scale, symbolic offset, prefixed, compounds of 3 symbolic-scale symbols, mixed with table "
              "symbols, table units) x 7 built-in + 4 U-systems; 24 starting units x 4 Q-systems chosen so that every base slot "
              "(length, mass, time, temperature, angle, current, luminous intensity, logarithmic) occurs with an exponent other than +1 "
              "(-3 .. 3, 1/2); every named dimension of unyt.dimensions (44 with integer exponents in one path, 4 Gaussian ones with "
              "rational exponents in short paths) x 15 systems x S[name] / in_base / S[dimension] / S[name] again, 3 request orders "
              "for Q2 and 1 (rotating) for the others; 8 conversion histories of 2-3 dimensions (each repeated at the end of the path) "
              "x U3, Q1-Q4, cgs, imperial; system named by name / object / registry default / 'code'; 22 ill-defined "
              "constructions (table and registry, atomic/prefixed/coefficient as string, quantity, Unit/compound) followed by a valid one; "
              "scalar payloads. Numbers in front of the starting unit: 5 coefficients (100, 0.5, 3.0, 1e-3, 7; one per system and form, "
              "rotating) x 15 systems x every declared dimension + velocity, area, density, momentum x relation (c*own, c*other, own "
              "stripped of its number) x form (unit string: all systems; Unit object from the expression: built-in, U1, Q1; left behind by "
              "simplify() of own**2/other, other**2/own, own**3/other**2: built-in systems, atomic own units). System to system: all 42 "
              "ordered pairs of built-in systems, 9 pairs of user-defined systems (U1-U3, Q1-Q4 on one registry), 4 mixed pairs x 3 of "
              "12 starting units. Registry edits: 8 user-defined systems bound to the registry + cgs, imperial, galactic used from a "
              "registry of the caller's x edited symbol (the system's length / mass / time symbol, the symbol of a declared derived unit, "
              "the starting unit's symbol) x 1 of 6 (kind: modify by number, by quantity, remove+add; x whether all 6 or 3 of the 6 "
              "dimensions were converted before the edit), 6 starting units each, the full battery on one of them. One spelling, two "
              "meanings: 9 systems (7 built-in, T1 unbound user-defined, W1 bound to the first registry) x 6 pairs of meanings x "
              "1 of <= 5 spellings x 1 of 4 first calls x two registries or one registry edited (rotating; both for length/mass and "
              "length/length on cgs, mks, T1, W1): 62 cases. Spelling of the constructor call: 4 systems x 10 spellings (7 positional "
              "prefixes, 3 keyword orders), 2 of 6 (4) current-containing starting units (rotating) + lm*Np/K each: 40 cases"),
    "thorough": ("as quick, plus: every table symbol x 4 U-systems and every table symbol with a symbolic-scale row x 7 built-in "
                 "systems (one case each); 1 symbol per dimension x 4 Q-systems; 2-element payloads for the table sweep; 24-symbol "
                 "compound pool, 6 rotations; 32 prefixed units; 75 harness-defined starting units x all 15 systems (Q-systems without "
                 "the atomic SI<->Gaussian units); named-dimension sweep in all 3 orders x 15 systems; histories x all 15 systems; "
                 "numbers in front: 3 coefficients as string + 2 as Unit object x all 15 systems; system to system: all 42 ordered pairs "
                 "of U1-U3/Q1-Q4, 8 mixed pairs, 6 starting units; registry edits: all 7 built-in systems, every (edit kind x before-set) "
                 "combination for every edited symbol; one spelling, two meanings: every system x pair of "
                 "meanings x spelling x (two registries, one registry edited), the first call rotating: 450 cases; constructor spellings: "
                 "all 6 (4) current-containing starting units + lm*Np/K, J/K, rad/s, Np**2/s, km per case"),
}
OUTSIDE = ("IEEE rounding/overflow (A1) - compounds whose factorisation into a system's base units leaves the double range in a partial "
           "product (t_pl**8 ...) are skipped; integer/complex payloads (C17); the numeric correctness of table rows themselves (C02: the "
           "oracle takes a symbol's scale and dimension from its registry row); compound units with more than 3 factors; quantities "
           "whose registry lacks the system's base units; re-registering a system under an existing name; re-declaring a unit of a "
           "system (S[dim] = ...) AFTER derived dimensions were memoised; symbolic coefficients of base units (sympy expressions "
           "cannot hold z3 terms: coefficients are enumerated, the scales they multiply are symbolic); atomic SI<->Gaussian units "
           "against the coefficient-carrying Q-systems (that route ignores the system's units altogether: known finding, exercised "
           "on U1-U3/code and the built-in systems); base units with an offset (degC as temperature unit); concurrent use; "
           "a number in front of a unit that has an offset (7*degC: unyt itself treats it as 7 K steps without the offset); "
           "symbolic numbers in front of starting units (enumerated, see above); quantities made BEFORE a registry edit and "
           "converted after it (their unit objects are snapshots of the old rows - C12/C13); edits that change the dimension of "
           "a symbol a system uses, or remove it for good; simplify()-made numbers on user-defined systems (cancelling two units "
           "of one dimension needs concrete scales); chains between planck / geometrized and user-defined systems (the products of "
           "their 1e-35 .. 1e-44 table scales with symbolic scales were not decided by z3 inside the budget: 1 path > 25 min); "
           "chains and registry edits are walked for the listed pairs / symbols / 6 "
           "starting units, not for the whole unit table; two registries that give a symbol of the SYSTEM's own units (cm, g ...) "
           "different dimensions; offset-carrying spellings in compounds (unyt refuses them); more than two registries; constructor spellings the "
           "signature of the code under test does not bind (positional ones only); optional base units other than the current given as "
           "None (the constructor itself fails on them); arbitrary permutations of the keywords (3 orders walked)")

NAMES = ["xl", "xm", "xt", "xtemp", "xang", "xcur", "xen", "xv", "xa", "xb", "xc", "xlum", "xlog", "xpr"]
CODE_NAMES = ["code_length", "code_mass", "code_time", "code_temperature", "code_velocity", "code_magnetic", "code_pressure", "code_density"]

BUILTIN = ["cgs", "mks", "imperial", "galactic", "solar", "geometrized", "planck"]

# ----------------------------------------------------------------------------- independent tables
C_CM = 29979245800.0
# dimension pairs (names in unyt.dimensions) with a documented SI <-> Gaussian counterpart, and K with
#   si_cgs(result) = K * si_mks(input),   si(.) = reading * scale in unyt's (kg, m, s, A) base:
# 1 C = 0.1 c statC and statC = g**0.5 cm**1.5 / s = 10**-4.5 base units; 1 T = 1e4 G, G = 10**-0.5; statA = statC/s;
# 1 V = 1e8/c statV (= 1 J/C), statV = 10**-2.5; 1 ohm = 1e9/c**2 statohm, statohm = s/cm = 100.
EM_DIMS = [
    ("charge_mks", "charge_cgs", 0.1 * C_CM * 10**-4.5),
    ("current_mks", "current_cgs", 0.1 * C_CM * 10**-4.5),
    ("magnetic_field_mks", "magnetic_field_cgs", 1.0e4 * 10**-0.5),
    ("electric_potential_mks", "electric_potential_cgs", 1.0e8 / C_CM * 10**-2.5),
    ("resistance_mks", "resistance_cgs", 1.0e9 / C_CM**2 * 100.0),
]
# atomic names (prefix stripped) that take unyt's SI <-> Gaussian route
EM_ATOMS = {"C", "T", "A", "V", "Ω", "ohm", "statC", "esu", "ESU", "G", "gauss", "statA", "statV", "statohm", "Fr"}

_PRISTINE = {}
# per-obligation solver ceiling of the families with symbolic base-unit scales (products of several scale symbols): the quick
# tier's default of 10 s was hit by single queries of the chain family on a fully loaded machine (answered in < 1 s otherwise)
OBLIG_MS = 60000


def _prefix_sorted():
    return sorted(PREFIX, key=len, reverse=True)


def oracle_row(name, lut, base_keys):
    """(scale, dims) of one symbol from the registry rows as defined (not the prefixed rows unyt writes back);
    SI prefixes from the harness' own table"""
    if name in base_keys:
        return lut[name][0], lut[name][1]
    for p in _prefix_sorted():
        rest = name[len(p):]
        if name.startswith(p) and rest in base_keys and lut[rest][4]:
            return lut[rest][0] * PREFIX[p], lut[rest][1]
    raise KeyError(name)


def oracle_unit(expr, lut, base_keys):
    """scale and dimensions of a unit expression, recomputed from the rows (independent of _get_unit_data_from_expr)"""
    coeff, rest = expr.as_coeff_Mul()
    scale = float(coeff)
    dims = 1
    for base, exp in rest.as_powers_dict().items():
        if base.is_Number:
            scale = scale * float(base ** exp)
            continue
        s, d = oracle_row(str(base), lut, base_keys)
        e = Fraction(str(exp)).limit_denominator(1000)
        scale = scale * (s ** e if e != 1 else s)
        dims = dims * d ** exp
    return scale, dims


def atoms_of(expr):
    return {str(a) for a in expr.atoms() if not a.is_Number}


def declared_atoms(S):
    out = set()
    for k, v in S.units_map.items():
        if v is not None:
            out |= atoms_of(v)
    return out


def same_dims(a, b):
    return (a / b) == 1


def same_unit(u, v):
    """the same unit expression up to the representation of a numeric coefficient (2.0*xl vs 2*xl)"""
    r = u.expr / v.expr
    return bool(r.is_Number) and abs(float(r) - 1.0) <= 1e-9


def dim_exponents(dims):
    """{base dimension symbol: Fraction exponent} of a dimension expression (the harness' own factorisation)"""
    import sympy
    out = {}
    for base, exp in sympy.sympify(dims).expand().as_powers_dict().items():
        if base.is_Number:
            continue
        out[base] = Fraction(str(exp)).limit_denominator(1000)
    return out


def system_unit(decl, dims, lut, base_keys):
    """The unit a system with the declarations `decl` (dimension -> sympy expression: its base units and the units it
    declares for derived dimensions, as the harness knows them - NOT the system's grown units_map) has for `dims`:
    the declared unit if the whole dimension is declared, else the product of powers of the units declared for the base
    dimensions. -> (expression, scale, offset) with scale/offset recomputed from the registry rows, or None if a base
    dimension has no unit (no MKS current)."""
    import sympy
    dims = sympy.sympify(dims)
    fs = dims.free_symbols
    for k, v in decl.items():
        if v is not None and (k == dims or (k.free_symbols == fs and same_dims(k, dims))):
            s, _ = oracle_unit(v, lut, base_keys)
            o = 0.0
            if v.is_Symbol:
                o = atomic_src(str(v), lut, base_keys)[1]
            return v, s, o
    expr = 1
    scale = 1.0
    for base, e in dim_exponents(dims).items():
        bu = decl.get(base)
        if bu is None:
            return None
        s, _ = oracle_unit(bu, lut, base_keys)
        scale = scale * (s ** e if e != 1 else s)
        expr = expr * bu ** (int(e) if e.denominator == 1 else __import__("sympy").Rational(e.numerator, e.denominator))
    return expr, scale, 0.0


def same_expr(a, b):
    """two unit expressions are the same up to the representation of a numeric coefficient"""
    r = a / b
    return bool(r.is_number) and abs(float(r) - 1.0) <= 1e-9


def foreign_entries(S, decl, lut, base_keys):
    """entries of the (grown) units_map that are not the declared unit / the product of powers of the base units"""
    out = []
    for k, v in S.units_map.items():
        if v is None:
            continue
        w = system_unit(decl, k, lut, base_keys)
        if w is not None and not same_expr(v, w[0]):
            out.append(f"{k}: {v} (want {w[0]})")
    return out


def em_counterpart(mods, dims):
    """(counterpart dimension, K) or None"""
    D = mods["unyt"].dimensions
    for m, c, k in EM_DIMS:
        if same_dims(dims, getattr(D, m)):
            return getattr(D, c), k
        if same_dims(dims, getattr(D, c)):
            return getattr(D, m), 1.0 / k
    return None


def reset_builtin(mods):
    """the built-in systems are module globals whose units_map grows as derived dimensions are requested: every path (and
    every unit inside a path) starts from the maps as defined in unit_systems.py; the growth itself is exercised between the
    first and the later calls of one battery"""
    US = mods["US"]
    key = id(US)
    if key not in _PRISTINE:
        D = mods["unyt"].dimensions
        snap = {}
        for n, S in US.unit_system_registry.items():
            if n in BUILTIN:
                # the map as *declared* in unit_systems.py: base units + explicit overrides (S._dims), without the entries that
                # importing unyt already memoised (physical constants are converted at import time)
                um = type(S.units_map)((k, S.units_map[k]) for k in S.base_units)
                for dn in S._dims:
                    um[getattr(D, dn)] = S.units_map[getattr(D, dn)]
                snap[n] = (S, um, list(S._dims))
        _PRISTINE[key] = snap
    for n, (S, um, dl) in _PRISTINE[key].items():
        US.unit_system_registry[n] = S
        S.units_map = um.copy()
        S._dims = list(dl)


def si_of(v, scale, offset):
    if isinstance(offset, (int, float)) and offset == 0:
        return v * scale
    return (v - offset) * scale


def is_em_atom(ustr, lut):
    for p in [""] + _prefix_sorted():
        if ustr.startswith(p) and ustr[len(p):] in EM_ATOMS:
            return True
    return False


def battery(ctx, tag, q, xs, S, sysargs, reg, base_keys, src, decl=None, lut=None):
    """all C10 obligations for one quantity q (payload elements xs) and one system S.
    sysargs: list of (label, argument) ways of naming S to in_base; the first one is the reference.
    src = (scale, offset, dims) of q's unit from the harness' own knowledge.
    decl = the system's declarations (dimension -> expression: base units and overrides) as the harness knows them from
    what it passed to UnitSystem(...) / __setitem__; default: the system's units_map on entry (built-in systems: the map
    as declared in unit_systems.py, restored by reset_builtin).
    lut = the rows the oracle reads (default: the registry's table; the registry-edit family passes the harness' own copy of
    the rows, updated by the harness itself when it edits the registry)."""
    mods = ctx.mods
    unyt = mods["unyt"]
    D = unyt.dimensions
    NR = unyt.exceptions.UnitsNotReducible
    s_q, o_q, d_q = src
    if lut is None:
        lut = reg.lut
    declared = declared_atoms(S)
    if decl is None:
        decl = dict(S.units_map)
    has_current = decl[D.current_mks] is not None  # the harness' record (default: the system's own map on entry)
    u_before = q.units
    ustr_before = str(q.units)
    arg0 = sysargs[0][1]
    res = call(q.in_base, arg0)
    if res[0] == "raise":
        e = res[1]
        ctx.require(f"{tag}|raises only UnitsNotReducible", isinstance(e, NR), exc=type(e).__name__, msg=str(e)[:120])
        ctx.require(f"{tag}|UnitsNotReducible only without MKS current", (not has_current) and D.current_mks in d_q.free_symbols)
        r2 = call(q.units.get_base_equivalent, arg0)
        ctx.require(f"{tag}|get_base_equivalent raises too", r2[0] == "raise" and isinstance(r2[1], NR))
        c = q.copy()
        r3 = call(c.convert_to_base, arg0)
        ctx.require(f"{tag}|convert_to_base raises too, operand intact",
                    And(r3[0] == "raise" and isinstance(r3[1], NR), str(c.units) == ustr_before, all_close(payload(c), xs, tol=0)))
        ctx.observe(f"{tag}|outcome", "UnitsNotReducible")
        return None
    r1 = res[1]
    v1 = payload(r1)
    ctx.observe(f"{tag}|in_base", v1)
    ctx.observe(f"{tag}|unit", str(r1.units))
    # (1) inside the system
    at = atoms_of(r1.units.expr)
    ctx.require(f"{tag}|stays/inside system", at <= declared, result=str(r1.units), stray=sorted(at - declared))
    # (2) dimension, from the rows
    s_r, d_r = oracle_unit(r1.units.expr, lut, base_keys)
    o_r = r1.units.base_offset
    if same_dims(d_r, d_q):
        K = 1.0
        ctx.require(f"{tag}|dimension kept", same_dims(r1.units.dimensions, d_q))
    else:
        em = em_counterpart(mods, d_q)
        okdim = em is not None and same_dims(d_r, em[0]) and same_dims(r1.units.dimensions, em[0])
        ctx.require(f"{tag}|dimension kept", okdim, got=str(d_r), want=str(d_q))
        K = em[1] if okdim else None
    ctx.require(f"{tag}|result unit scale from rows", close(r1.units.base_value, s_r))
    # (2b) the result unit is the system's OWN unit for that dimension: the declared one, or the product of powers of the
    # system's base units *as units* (coefficient included: (3*xl)**2, not 3*xl**2), recomputed by the harness
    want = system_unit(decl, d_r, lut, base_keys) if K is not None else None
    if want is not None:
        w_expr, w_s, w_o = want
        ctx.require(f"{tag}|stays/unit is the system's own unit (scale)", close(r1.units.base_value, w_s),
                    result=str(r1.units), want=str(w_expr))
        ctx.require(f"{tag}|stays/unit is the system's own unit (expression)", same_expr(r1.units.expr, w_expr),
                    result=str(r1.units), want=str(w_expr))
        if K == 1.0:
            # the reading itself, without looking at the unit that was returned
            exw = 1e-6 * (vabs(s_q * o_q) + vabs(w_s * w_o))
            ctx.require(f"{tag}|value in the system's own units",
                        And(*[close(si_of(v, w_s, w_o), si_of(x, s_q, o_q), extra=exw) for v, x in zip(v1, xs)]),
                        result=str(r1.units), want=str(w_expr))
    # (3) same physical quantity
    if K is not None:
        ex = 1e-6 * (vabs(s_q * o_q) * K + vabs(s_r * o_r))
        ctx.require(f"{tag}|si kept", And(*[close(si_of(v, s_r, o_r), si_of(x, s_q, o_q) * K, extra=ex) for v, x in zip(v1, xs)]),
                    result=str(r1.units))
    # (4) back
    back = call(r1.to, q.units)
    ctx.require(f"{tag}|converts back", back[0] == "ok" and all_close(payload(back[1]), xs, extra=1e-6 * (vabs(o_q) + vabs(o_r * s_r / s_q))),
                err=repr(back[1])[:120] if back[0] == "raise" else "")
    # (5) twins
    c = q.copy()
    c.convert_to_base(arg0)
    tgt = q.units.get_base_equivalent(arg0)
    r3 = q.to(tgt)
    twins = [("convert_to_base", c), ("to(get_base_equivalent)", r3)]
    for lab, arg in sysargs[1:]:
        twins.append((f"in_base({lab})", q.in_base(arg)))
    if S.name in ("cgs", "mks"):
        c2 = q.copy()
        {"cgs": c2.convert_to_cgs, "mks": c2.convert_to_mks}[S.name]()
        twins.append(("in_" + S.name, {"cgs": q.in_cgs, "mks": q.in_mks}[S.name]()))
        twins.append(("convert_to_" + S.name, c2))
        ge = {"cgs": q.units.get_cgs_equivalent, "mks": q.units.get_mks_equivalent}[S.name]()
        ctx.require(f"{tag}|get_{S.name}_equivalent", same_unit(ge, r1.units))
    ctx.require(f"{tag}|get_base_equivalent unit", same_unit(tgt, r1.units), got=str(tgt), want=str(r1.units))
    for nm, r in twins:
        ctx.require(f"{tag}|in_base == {nm}", And(same_unit(r1.units, r.units), all_close(v1, payload(r))), got=str(r.units), want=str(r1.units))
    # (6) memoised second call == first call (the first one synthesised and stored the units_map entry)
    rb = q.in_base(arg0)
    ctx.require(f"{tag}|second call (memoised) == first", And(same_unit(r1.units, rb.units), all_close(v1, payload(rb))))
    # (7) idempotent
    rr = call(r1.in_base, arg0)
    ctx.require(f"{tag}|stays/idempotent", rr[0] == "ok" and And(same_unit(r1.units, rr[1].units), all_close(v1, payload(rr[1]))),
                once=str(r1.units), twice=str(rr[1].units) if rr[0] == "ok" else repr(rr[1])[:120])
    cc = r1.copy()
    rc = call(cc.convert_to_base, arg0)
    ctx.require(f"{tag}|stays/idempotent in place", rc[0] == "ok" and And(same_unit(r1.units, cc.units), all_close(v1, payload(cc))))
    # (8) every entry of the (grown) units_map still has the dimension it is filed under
    bad = []
    for k, v in S.units_map.items():
        if v is not None and not same_dims(oracle_unit(v, lut, base_keys)[1], k):
            bad.append(str(k))
    ctx.require(f"{tag}|units_map entries match their dimension", not bad, bad=bad)
    foreign = foreign_entries(S, decl, lut, base_keys)
    ctx.require(f"{tag}|units_map entries are the system's own units", not foreign, bad=foreign[:4])
    # (9) input untouched
    ctx.require(f"{tag}|input untouched", And(all_close(payload(q), xs, tol=0), q.units is u_before, str(q.units) == ustr_before))
    return r1


def tag_of(ustr, lut):
    return ("em:" if is_em_atom(ustr, lut) else "") + ustr


def atomic_src(name, lut, base_keys):
    """harness-side (scale, offset, dims) of an atomic (possibly prefixed) table unit: reading x -> SI = s*(x - o)"""
    if name in base_keys:
        row = lut[name]
        return row[0], row[2], row[1]
    for p in _prefix_sorted():
        rest = name[len(p):]
        if name.startswith(p) and rest in base_keys and lut[rest][4]:
            row = lut[rest]
            return row[0] * PREFIX[p], row[2] / PREFIX[p], row[1]
    raise KeyError(name)


def default_keys():
    from unyt._unit_lookup_table import default_unit_symbol_lut
    return set(default_unit_symbol_lut)


# ----------------------------------------------------------------------------- built-in systems x table units

def make_builtin_case(system, group, ustrs, shape=(), naming="name", kind="builtin"):
    """value symbolic, scales from the table; ustrs: atomic symbols, prefixed symbols or compound expressions"""
    def h(ctx):
        mods = ctx.mods
        reset_builtin(mods)
        US = mods["US"]
        S = US.unit_system_registry[system]
        keys = default_keys()
        try:
            if naming == "default":
                reg = ctx.registry([], unit_system=system)
                sysargs = [("registry default", None), ("name", system)]
            else:
                reg = mods["UO"].default_unit_registry
                sysargs = [("name", system), ("object", S)]
            for n in ustrs:
                reset_builtin(mods)
                x = ctx.reals("x_" + str(ustrs.index(n)), shape)
                q = ctx.quantity(x, n, reg if naming == "default" else None)
                if q.units.is_atomic:
                    src = atomic_src(str(q.units.expr), reg.lut, keys)
                else:
                    s, d = oracle_unit(q.units.expr, reg.lut, keys)
                    src = (s, 0.0, d)
                battery(ctx, tag_of(n, reg.lut), q, elements(x), S, sysargs, reg, keys, src)
        finally:
            reset_builtin(mods)
    sh = "" if shape == () else "/shape" + "x".join(map(str, shape))
    return Case(f"C10/{kind}/{system}/{group}{sh}", h, bounds="symbolic: value; table scales", weight=len(ustrs))


def make_builtin_symscale_case(system, group, names):
    """the starting unit's row is re-defined with a symbolic scale (and offset where the table has one)"""
    def h(ctx):
        mods = ctx.mods
        reset_builtin(mods)
        S = mods["US"].unit_system_registry[system]
        try:
            for n in names:
                reset_builtin(mods)
                reg = ctx.registry([])
                keys = set(reg.lut)
                row = reg.lut[n]
                s = ctx.real(f"s_{names.index(n)}", pos=True) if row[0] > 0 else row[0]
                o = ctx.real(f"o_{names.index(n)}") if row[2] != 0 else 0.0
                ctx.add_row(reg, n, row[1], s, o, prefixable=row[4])
                x = ctx.reals(f"x_{names.index(n)}", ())
                q = ctx.quantity(x, n, reg)
                battery(ctx, n, q, elements(x), S, [("name", system), ("object", S)], reg, keys, (s, o, row[1]))
        finally:
            reset_builtin(mods)
    return Case(f"C10/builtinS/{system}/{group}", h, bounds="symbolic: value, scale (offset) of the starting unit", weight=3 * len(names))


def _dim_label(mods, d, cache={}):
    D = mods["unyt"].dimensions
    import sympy
    if not cache:
        for n in sorted(dir(D)):
            v = getattr(D, n)
            if isinstance(v, sympy.Basic) and not n.startswith("_") and len(n) > 2:
                cache.setdefault(str(v), n)
        cache["1"] = "dimensionless"
    return cache.get(str(d), "other")


def table_by_dim(mods):
    from unyt._unit_lookup_table import default_unit_symbol_lut as lut
    by = {}
    for n, row in lut.items():
        by.setdefault(_dim_label(mods, row[1]), []).append(n)
    return by


def table_groups(mods, chunk):
    by = table_by_dim(mods)
    out = []
    for lab in sorted(by):
        ns = by[lab]
        for i in range(0, len(ns), chunk):
            out.append((lab + (f"_{i // chunk}" if len(ns) > chunk else ""), ns[i:i + chunk]))
    return out


PREFIXED = ["km", "mg", "Myr", "keV", "MK", "mdegC", "kV", "mC", "kG", "uT", "mA", "kstatA", "kohm", "mrad"]
PREFIXED_MORE = ["nm", "Mpc", "ug", "ns", "GHz", "mJ", "kPa", "MW", "uN", "mSv", "kdegC", "daN", "hPa", "uF", "mH", "kWb", "mlm", "Gyr"]

POOL = ["cm", "km", "g", "Msun", "s", "yr", "K", "erg", "eV", "dyne", "Pa", "W", "rad", "A", "mile", "cd", "C", "G", "statC", "T", "V", "lbf",
        "Hz", "degC"]
SHAPES = ["{a}*{b}", "{a}/{b}", "{a}**2", "{a}**-1", "sqrt({a})", "{a}*{b}/{c}", "{a}**2*{b}/{c}**3", "{a}/({b}**2*{c})", "{a}*{b}*{c}",
          "{a}**-2*{b}**(1/2)"]


def _in_float_range(mods, system, ustr):
    """A1: skip a compound whose factorisation into the system's base units leaves the double range in some partial
    product (e.g. t_pl**8): sufficient condition sum |exp * log10(scale)| < 290 over source and target factors"""
    import math
    import sympy
    from unyt._unit_lookup_table import default_unit_symbol_lut as lut
    keys = set(lut)
    U = mods["unyt"].Unit(ustr)
    tot = 0.0
    dims = 1
    for base, exp in U.expr.as_powers_dict().items():
        if base.is_Number:
            continue
        s, d = oracle_row(str(base), lut, keys)
        tot += abs(float(exp) * math.log10(abs(s)))
        dims = dims * d ** exp
    S = _PRISTINE[id(mods["US"])][system][1]
    for base, exp in sympy.sympify(dims).expand().as_powers_dict().items():
        if base.is_Number:
            continue
        bu = S.get(base)
        if bu is None:
            continue
        s, _ = oracle_unit(bu, lut, keys)
        tot += abs(float(exp) * math.log10(abs(s)))
    return tot < 290.0


def compounds(pool, rotations):
    out = []
    n = len(pool)
    for (k1, k2) in rotations:
        for i in range(n):
            a, b, c = pool[i], pool[(i + k1) % n], pool[(i + k2) % n]
            sh = SHAPES[(i + k1) % len(SHAPES)]
            u = sh.format(a=a, b=b, c=c)
            if u not in out:
                out.append(u)
    return out


# ----------------------------------------------------------------------------- user-defined systems

def user_registry(ctx, variant):
    """registry with the rows of the system's base units; every scale is a symbol"""
    D = ctx.mods["unyt"].dimensions
    reg = ctx.registry([])

    def row(n, dim, prefixable=False):
        ctx.add_row(reg, n, getattr(D, dim), ctx.real(n + "_s", pos=True), 0.0, prefixable=prefixable)

    if variant == "code":
        for n, dim in zip(CODE_NAMES, ["length", "mass", "time", "temperature", "velocity", "magnetic_field_cgs", "pressure", "density"]):
            row(n, dim)
        return reg
    row("xl", "length", prefixable=variant in QVARIANTS)
    row("xm", "mass", prefixable=True)
    row("xt", "time")
    if variant in QVARIANTS:
        for n, dim in (("xtemp", "temperature"), ("xang", "angle"), ("xcur", "current_mks"), ("xlum", "luminous_intensity"),
                       ("xlog", "logarithmic"), ("xv", "velocity"), ("xen", "energy"), ("xpr", "pressure")):
            row(n, dim)
    if variant == "U2":
        row("xtemp", "temperature")
        row("xang", "angle")
        row("xcur", "current_mks")
        row("xen", "energy")
    if variant == "U3":
        row("xv", "velocity")
    return reg


def _psym(n):
    import sympy
    return sympy.Symbol(n, positive=True)


def _decl(mods, **kw):
    """the harness' own record of what a system declares: dimension -> expression (the unyt defaults for the optional
    base units unless given; None = no unit)"""
    D = mods["unyt"].dimensions
    base = dict(temperature=_psym("K"), angle=_psym("rad"), current_mks=_psym("A"), luminous_intensity=_psym("cd"), logarithmic=_psym("Np"))
    base.update(kw)
    return {getattr(D, k): v for k, v in base.items()}


# user-defined systems whose base units carry a numeric coefficient. slot -> (form, coefficient, symbol):
#   "q" unyt_quantity(c, sym)   "s" the string "c*sym"   "u" Unit("c*sym")   "n" the bare name   "U" Unit(sym)
# "over": units declared after construction through __setitem__ (dimension name -> (coefficient, {symbol: exponent}));
# a base dimension may be re-declared there (before any derived dimension was requested)
QVARIANTS = {
    # docs/usage.rst 'quasmological': base units given as quantities
    "Q1": dict(base=dict(length=("q", 3.0, "xl"), mass=("q", 0.8, "xm"), time=("q", 42.0, "xt")), over={}),
    # strings with a coefficient in every slot
    "Q2": dict(base=dict(length=("s", 3, "xl"), mass=("s", 0.8, "xm"), time=("s", 42, "xt"), temperature=("s", 1.8, "xtemp"),
                         angle=("s", 0.5, "xang"), current_mks=("s", 10, "xcur"), luminous_intensity=("s", 2, "xlum"),
                         logarithmic=("s", 4, "xlog")), over={}),
    # Unit objects with a coefficient, quantities of SI-prefixed symbols, a fractional and an integer coefficient
    "Q3": dict(base=dict(length=("u", 0.25, "kxl"), mass=("q", 5.0, "kxm"), time=("u", 7, "xt"), temperature=("q", 1.8, "xtemp"),
                         angle=("U", 1, "xang"), current_mks=("q", 0.1, "xcur"), luminous_intensity=("q", 2.0, "xlum")), over={}),
    # coefficients on declared (override) units, a compound override, and a base dimension re-declared before first use
    "Q4": dict(base=dict(length=("n", 1, "xl"), mass=("q", 0.8, "xm"), time=("s", 42, "xt"), current_mks=None),
               over=dict(velocity=(3, {"xv": 1}), pressure=(0.5, {"xm": 1, "xl": -1, "xt": -2}), length=(5, {"kxl": 1}),
                         specific_energy=(2, {"xen": 1, "xm": -1}))),
}
QSLOT_KW = dict(length="length_unit", mass="mass_unit", time="time_unit", temperature="temperature_unit", angle="angle_unit",
                current_mks="current_mks_unit", luminous_intensity="luminous_intensity_unit", logarithmic="logarithmic_unit")


def _q_arg(unyt, reg, form, c, sym):
    if form == "q":
        return unyt.unyt_quantity(c, sym, registry=reg)
    if form == "s":
        return f"{c}*{sym}"
    if form == "u":
        return unyt.Unit(f"{c}*{sym}", registry=reg)
    if form == "U":
        return unyt.Unit(sym, registry=reg)
    return sym


def q_system(ctx, variant, reg):
    import sympy
    unyt = ctx.mods["unyt"]
    US = ctx.mods["US"]
    spec = QVARIANTS[variant]
    name = "xsys_" + variant
    kw = {}
    dk = {}
    for slot, v in spec["base"].items():
        if v is None:
            kw[QSLOT_KW[slot]] = None
            dk[slot] = None
            continue
        form, c, sym = v
        kw[QSLOT_KW[slot]] = _q_arg(unyt, reg, form, c, sym)
        dk[slot] = (sympy.Float(c) if form in "qsu" else 1) * _psym(sym)
    S = US.UnitSystem(name, registry=reg, **kw)
    for dn, (c, powers) in spec["over"].items():
        txt = "*".join(f"{n}**({e})" for n, e in powers.items())
        S[dn] = f"{c}*{txt}"
        e = sympy.Float(c)
        for n, ex in powers.items():
            e = e * _psym(n) ** ex
        dk[dn] = e
    return S, name, [("name", name), ("object", S)], _decl(ctx.mods, **dk)


def user_system(ctx, variant, reg):
    """-> (S, name, sysargs, decl): the system is defined after all rows exist (the 'code' name is the registry's id);
    decl is the harness' own record of the declarations (see battery)"""
    unyt = ctx.mods["unyt"]
    US = ctx.mods["US"]
    if variant in QVARIANTS:
        return q_system(ctx, variant, reg)
    if variant == "code":
        # as yt's create_code_unit_system
        name = reg.unit_system_id
        S = US.UnitSystem(name, "code_length", "code_mass", "code_time", "code_temperature", current_mks_unit=None, registry=reg)
        S["velocity"] = "code_velocity"
        S["magnetic_field_cgs"] = "code_magnetic"
        S["pressure"] = "code_pressure"
        S["density"] = "code_density"
        decl = _decl(ctx.mods, length=_psym("code_length"), mass=_psym("code_mass"), time=_psym("code_time"),
                     temperature=_psym("code_temperature"), current_mks=None, velocity=_psym("code_velocity"),
                     magnetic_field_cgs=_psym("code_magnetic"), pressure=_psym("code_pressure"), density=_psym("code_density"))
        return S, name, [("name", name), ("object", S), ("code", "code")], decl
    name = "xsys_" + variant
    if variant == "U1":
        S = US.UnitSystem(name, "xl", "xm", "xt", registry=reg)
        decl = _decl(ctx.mods, length=_psym("xl"), mass=_psym("xm"), time=_psym("xt"))
    elif variant == "U2":
        S = US.UnitSystem(name, "xl", "xm", "xt", temperature_unit="xtemp", angle_unit="xang", current_mks_unit="xcur", registry=reg)
        S["energy"] = "xen"
        decl = _decl(ctx.mods, length=_psym("xl"), mass=_psym("xm"), time=_psym("xt"), temperature=_psym("xtemp"), angle=_psym("xang"),
                     current_mks=_psym("xcur"), energy=_psym("xen"))
    elif variant == "U3":
        S = US.UnitSystem(name, unyt.unyt_quantity(2.0, "xl", registry=reg), "kxm", unyt.Unit("xt", registry=reg),
                          temperature_unit="R", current_mks_unit=None, registry=reg)
        S["velocity"] = unyt.Unit("xv", registry=reg)
        decl = _decl(ctx.mods, length=2.0 * _psym("xl"), mass=_psym("kxm"), time=_psym("xt"), temperature=_psym("R"), current_mks=None,
                     velocity=_psym("xv"))
    else:
        raise KeyError(variant)
    return S, name, [("name", name), ("object", S)], decl


# ----------------------------------------------------------------------------- spelling of the constructor call (family spell)
# the DOCUMENTED parameters of UnitSystem(...) in documented order; the harness keeps the value it passes per NAME and the
# oracle reads that record (never the system's own units_map: a mis-bound argument makes the map agree with the wrong result)
SPELL_DOC = ["name", "length_unit", "mass_unit", "time_unit", "temperature_unit", "angle_unit", "current_mks_unit",
             "luminous_intensity_unit", "logarithmic_unit", "registry"]
SPELL_SLOT = {v: k for k, v in QSLOT_KW.items()}
# spec: slot -> symbol (None: no unit); "form": how the optional units are handed over
SPELL_SPECS = {
    "str": dict(form="s", units=dict(length="xl", mass="xm", time="xt", temperature="xtemp", angle="xang", current_mks="xcur",
                                     luminous_intensity="xlum", logarithmic="xlog")),
    "unit": dict(form="U", units=dict(length="xl", mass="kxm", time="xt", temperature="xtemp", angle="xang", current_mks="xcur",
                                      luminous_intensity="xlum", logarithmic="xlog")),
    "nocur": dict(form="s", units=dict(length="xl", mass="xm", time="xt", temperature="xtemp", angle="xang", current_mks=None,
                                       luminous_intensity="xlum", logarithmic="xlog")),
    "mixed": dict(form="m", units=dict(length="kxl", mass="xm", time="xt", temperature="R", angle="degree", current_mks="mA",
                                       luminous_intensity="xlum", logarithmic="Np")),
}
SPELL_EM = ["A", "T", "C/m**3", "V/m", "A**2*s", "ohm*m"]
SPELL_EM_NOCUR = ["A/m", "kg/(A*s**2)", "A**2*s", "A*s"]
SPELL_REST = ["lm*Np/K", "J/K", "rad/s", "Np**2/s", "km"]


def spell_accepts(mods, args, kw):
    """does the real constructor's signature (read from the loaded code) bind this spelling at all?"""
    import inspect
    try:
        inspect.signature(mods["US"].UnitSystem.__init__).bind(None, *args, **kw)
    except TypeError as e:
        return str(e)
    return None


def spellings():
    """every spelling of the call: the first k documented arguments positionally (k = 4 .. all 10), the rest by keyword;
    everything by keyword in documented / reversed / rotated order"""
    return [f"pos{k}" for k in range(4, len(SPELL_DOC) + 1)] + ["kw", "kwrev", "kwrot"]


def make_spell_case(spec, spelling, ems, rest):
    sp = SPELL_SPECS[spec]

    def h(ctx):
        mods = ctx.mods
        unyt = mods["unyt"]
        US = mods["US"]
        reset_builtin(mods)
        name = "xsys_spell_" + spec
        try:
            reg = user_registry(ctx, "Q2")
            vals = {"name": name, "registry": reg}
            dk = {}
            for i, (slot, sym) in enumerate(sp["units"].items()):
                if sym is None:
                    vals[QSLOT_KW[slot]] = None
                    dk[slot] = None
                    continue
                form = sp["form"] if sp["form"] != "m" else "sU"[i % 2]
                vals[QSLOT_KW[slot]] = unyt.Unit(sym, registry=reg) if form == "U" else sym
                dk[slot] = _psym(sym)
            decl = _decl(mods, **dk)
            if spelling.startswith("pos"):
                k = int(spelling[3:])
                args = [vals[n] for n in SPELL_DOC[:k]]
                kw = {n: vals[n] for n in SPELL_DOC[k:]}
            else:
                order = list(SPELL_DOC)
                if spelling == "kwrev":
                    order.reverse()
                elif spelling == "kwrot":
                    order = order[6:] + order[:6]
                args = []
                kw = {n: vals[n] for n in order}
            refused = spell_accepts(mods, args, kw)
            if refused is not None and args:
                # a positional spelling the signature of this code does not bind at all: nothing to check (the documented
                # NAMES must bind: the all-keyword spellings are never skipped)
                ctx.observe("spelling", "not accepted: " + refused[:100])
                return
            res = call(US.UnitSystem, *args, **kw)
            ctx.require("consistent system accepted", res[0] == "ok", err=repr(res[1])[:160] if res[0] == "raise" else "")
            if res[0] != "ok":
                return
            S = res[1]
            keys = set(reg.lut)
            ctx.require("registered under its name", US.unit_system_registry.get(name) is S and str(S) == name)
            ctx.require("has_current_mks as passed", bool(S.has_current_mks) == (sp["units"]["current_mks"] is not None))
            D = unyt.dimensions
            for slot, sym in sp["units"].items():
                if sym is None:
                    continue
                got = call(S.__getitem__, slot)
                ctx.require(f"S[{slot}] is the unit passed for {QSLOT_KW[slot]}",
                            got[0] == "ok" and same_expr(got[1].expr, _psym(sym)), got=str(got[1])[:80], want=sym)
            for i, ustr in enumerate(list(ems) + list(rest)):
                x = ctx.reals(f"x_{i}", ())
                q = ctx.quantity(x, ustr, reg)
                if q.units.is_atomic:
                    src = atomic_src(str(q.units.expr), reg.lut, keys)
                else:
                    s, d = oracle_unit(q.units.expr, reg.lut, keys)
                    src = (s, 0.0, d)
                battery(ctx, ustr, q, elements(x), S, [("name", name), ("object", S)], reg, keys, src, decl=decl)
        finally:
            US.unit_system_registry.pop(name, None)
            reset_builtin(mods)
    return Case(f"C10/spell/{spec}/{spelling}", h, bounds="symbolic: values, all 8 base-unit scales; enumerated: spelling of the call",
                budget_s=600, max_paths=3000, oblig_timeout_ms=OBLIG_MS, weight=8 * (len(ems) + len(rest)))


def spell_cases(tier, mods):
    out = []
    n = 0
    for spec in SPELL_SPECS:
        em = SPELL_EM_NOCUR if SPELL_SPECS[spec]["units"]["current_mks"] is None else SPELL_EM
        for spelling in spellings():
            if tier == "quick":
                ems = [em[n % len(em)], em[(n + 1) % len(em)]]
                rest = SPELL_REST[:1]
            else:
                ems, rest = em, SPELL_REST
            out.append(make_spell_case(spec, spelling, ems, rest))
            n += 1
    return out


def _sym_atom(dim, prefix="", offset=False):
    def build(ctx, reg):
        D = ctx.mods["unyt"].dimensions
        s = ctx.real("xa_s", pos=True)
        o = ctx.real("xa_o") if offset else 0.0
        d = getattr(D, dim)
        ctx.add_row(reg, "xa", d, s, o, prefixable=True)
        if prefix:
            return prefix + "xa", (s * PREFIX[prefix], o / PREFIX[prefix], d)
        return "xa", (s, o, d)
    return build


def _sym_compound(template, mixed=False):
    """template over xa (length), xb (mass), xc (time), all with symbolic scales, possibly mixed with table symbols"""
    def build(ctx, reg):
        D = ctx.mods["unyt"].dimensions
        for n, d in (("xa", D.length), ("xb", D.mass), ("xc", D.time)):
            if n in template:
                ctx.add_row(reg, n, d, ctx.real(n + "_s", pos=True), 0.0)
        return template, None
    return build


def _table(ustr):
    def build(ctx, reg):
        return ustr, None
    return build


START = {
    # quick subset first (see cases())
    "L": _sym_atom("length"), "kL": _sym_atom("length", "k"), "M": _sym_atom("mass"), "Taff": _sym_atom("temperature", offset=True),
    "Gaff": _sym_atom("angle", offset=True), "I": _sym_atom("current_mks"), "E": _sym_atom("energy"), "Vel": _sym_atom("velocity"),
    "Qm": _sym_atom("charge_mks"), "Bc": _sym_atom("magnetic_field_cgs"), "one": _sym_atom("dimensionless"),
    "c:a/c": _sym_compound("xa/xc"), "c:a**2*b/c**2": _sym_compound("xa**2*xb/xc**2"), "c:sqrt(a)": _sym_compound("sqrt(xa)"),
    "c:b/(a*c**2)": _sym_compound("xb/(xa*xc**2)"), "m:erg/a**3": _sym_compound("erg/xa**3"),
    "t:km": _table("km"), "t:erg": _table("erg"), "t:degC": _table("degC"), "t:G": _table("G"), "t:C": _table("C"), "t:mile/hr": _table("mile/hr"),
    # thorough only
    "T": _sym_atom("time"), "uM": _sym_atom("mass", "u"), "kTaff": _sym_atom("temperature", "k", offset=True), "P": _sym_atom("pressure"),
    "Qc": _sym_atom("charge_cgs"), "Bm": _sym_atom("magnetic_field_mks"), "Lum": _sym_atom("luminous_intensity"),
    "Log": _sym_atom("logarithmic"), "Dens": _sym_atom("density"), "Sr": _sym_atom("solid_angle"),
    "c:a*b": _sym_compound("xa*xb"), "c:a**-1": _sym_compound("xa**-1"), "c:a**3": _sym_compound("xa**3"), "c:b/a**3": _sym_compound("xb/xa**3"),
    "c:a*b*c": _sym_compound("xa*xb*xc"), "c:a**2*b/c**3": _sym_compound("xa**2*xb/xc**3"), "c:sqrt(b)/(sqrt(a)*c)": _sym_compound("sqrt(xb)/(sqrt(xa)*xc)"),
    "m:b*cm/s**2": _sym_compound("xb*cm/s**2"), "m:a*K": _sym_compound("xa*K"), "m:A*c": _sym_compound("A*xc"),
    "t:g": _table("g"), "t:yr": _table("yr"), "t:degF": _table("degF"), "t:deg": _table("deg"), "t:A": _table("A"), "t:statC": _table("statC"),
    "t:V": _table("V"), "t:W": _table("W"), "t:J/K": _table("J/K"), "t:T": _table("T"), "t:lat": _table("lat"), "t:statC*cm": _table("statC*cm"),
    "t:C/m**2": _table("C/m**2"), "t:kxm": _table("kxm"), "t:dimensionless": _table("dimensionless"),
    # one exponent other than +1 on every base slot of a system (length, mass, time, temperature, angle, current, luminous
    # intensity, logarithmic): what a coefficient-carrying base unit needs to show (3*xl)**2 != 3*xl**2
    "t:Hz": _table("Hz"), "t:cm**2": _table("cm**2"), "t:kg**-1": _table("kg**-1"), "t:g/cm**3": _table("g/cm**3"), "t:N": _table("N"),
    "t:Pa": _table("Pa"), "t:km/s": _table("km/s"), "t:rad/s": _table("rad/s"), "t:sr": _table("sr"), "t:A*s": _table("A*s"),
    "t:kg/(A*s**2)": _table("kg/(A*s**2)"), "t:lx": _table("lx"), "t:lm": _table("lm"), "t:sqrt(cm)": _table("sqrt(cm)"),
    "t:m**3/K**2": _table("m**3/K**2"), "t:Np**2/s": _table("Np**2/s"), "t:cd**-1": _table("cd**-1"), "t:A**2*s": _table("A**2*s"),
}
# starting units for the systems with coefficient-carrying base units (Q variants)
QSTART = ["L", "kL", "Vel", "E", "Taff", "one", "c:a/c", "c:a**2*b/c**2", "c:sqrt(a)", "c:b/(a*c**2)", "m:erg/a**3",
          "t:Hz", "t:cm**2", "t:kg**-1", "t:g/cm**3", "t:J/K", "t:rad/s", "t:sr", "t:A*s", "t:kg/(A*s**2)", "t:lx", "t:Np**2/s",
          "t:mile/hr", "t:degC"]
QUICK_START = ["L", "kL", "M", "Taff", "Gaff", "I", "E", "Vel", "Qm", "Bc", "one", "c:a/c", "c:a**2*b/c**2", "c:sqrt(a)", "c:b/(a*c**2)",
               "m:erg/a**3", "t:km", "t:erg", "t:degC", "t:G", "t:C", "t:mile/hr", "t:Hz", "t:cm**2", "t:g/cm**3", "t:J/K", "t:rad/s"]


def make_user_case(variant, start, shape=()):
    build = START[start]

    def h(ctx):
        mods = ctx.mods
        US = mods["US"]
        reset_builtin(mods)
        name = None
        try:
            reg = user_registry(ctx, variant)
            ustr, src = build(ctx, reg)
            S, name, sysargs, decl = user_system(ctx, variant, reg)
            keys = set(reg.lut)
            x = ctx.reals("x", shape)
            q = ctx.quantity(x, ustr, reg)
            if src is None:
                if q.units.is_atomic:
                    src = atomic_src(str(q.units.expr), reg.lut, keys)
                else:
                    s, d = oracle_unit(q.units.expr, reg.lut, keys)
                    src = (s, 0.0, d)
            # usable immediately: registered under its name, and the registered object is the one just built
            ctx.require("registered under its name", US.unit_system_registry.get(name) is S and str(S) == name)
            battery(ctx, tag_of(ustr, reg.lut), q, elements(x), S, sysargs, reg, keys, src, decl=decl)
        finally:
            if name is not None:
                US.unit_system_registry.pop(name, None)
            reset_builtin(mods)
    sh = "" if shape == () else "/shape" + "x".join(map(str, shape))
    return Case(f"C10/user/{variant}/{start}{sh}", h, bounds="symbolic: value, all base-unit scales, starting-unit scale/offset",
                budget_s=600, max_paths=3000, oblig_timeout_ms=OBLIG_MS, weight=20)


def make_user_table_case(variant, label, names):
    """user-defined system (symbolic base scales) x atomic units of the default table"""
    def h(ctx):
        mods = ctx.mods
        US = mods["US"]
        reset_builtin(mods)
        name = None
        try:
            for i, n in enumerate(names):
                reg = user_registry(ctx, variant)
                S, name, sysargs, decl = user_system(ctx, variant, reg)
                keys = set(reg.lut)
                x = ctx.reals(f"x_{i}", ())
                q = ctx.quantity(x, n, reg)
                battery(ctx, tag_of(n, reg.lut), q, elements(x), S, sysargs, reg, keys, atomic_src(n, reg.lut, keys), decl=decl)
                US.unit_system_registry.pop(name, None)
        finally:
            if name is not None:
                US.unit_system_registry.pop(name, None)
            reset_builtin(mods)
    return Case(f"C10/usertab/{variant}/{label}", h, bounds="symbolic: value, all base-unit scales", budget_s=600, max_paths=3000, oblig_timeout_ms=OBLIG_MS,
                weight=4 * len(names))


def make_builtin_start_case(system, start):
    """built-in system x harness-defined starting unit (symbolic scale/offset, compound shapes)"""
    build = START[start]

    def h(ctx):
        mods = ctx.mods
        reset_builtin(mods)
        S = mods["US"].unit_system_registry[system]
        try:
            reg = ctx.registry([])
            ustr, src = build(ctx, reg)
            keys = set(reg.lut)
            x = ctx.reals("x", ())
            q = ctx.quantity(x, ustr, reg)
            if src is None:
                s, d = oracle_unit(q.units.expr, reg.lut, keys)
                src = (s, 0.0, d)
            battery(ctx, tag_of(ustr, reg.lut), q, elements(x), S, [("name", system), ("object", S)], reg, keys, src)
        finally:
            reset_builtin(mods)
    return Case(f"C10/builtinX/{system}/{start}", h, bounds="symbolic: value, scales/offset of the starting unit's symbols", weight=5)


# ----------------------------------------------------------------------------- every named dimension, histories

SWEEP_BASE = {"mass": "g", "length": "km", "time": "hr", "temperature": "R", "angle": "degree", "current_mks": "mA",
              "luminous_intensity": "cd", "logarithmic": "Np"}


def named_dimensions(mods):
    """every dimension unyt.dimensions has a name for (one name per distinct dimension)"""
    import sympy
    D = mods["unyt"].dimensions
    out, seen = [], []
    for n in sorted(dir(D)):
        v = getattr(D, n)
        if n.startswith("_") or len(n) < 4 or not isinstance(v, sympy.Basic) or not v.free_symbols:
            continue
        if any(same_dims(v, w) for w in seen):
            continue
        seen.append(v)
        out.append(n)
    return out


def sweep_unit(mods, dims):
    """a compound of table units (none of scale 1) with the dimension `dims`"""
    D = mods["unyt"].dimensions
    by = {getattr(D, k): v for k, v in SWEEP_BASE.items()}
    parts = []
    for base, e in dim_exponents(dims).items():
        parts.append(by[base] if e == 1 else f"{by[base]}**({e})")
    return "*".join(parts)


def _open_system(ctx, kind, system):
    """-> (S, arg, reg, keys, decl, name to pop)"""
    mods = ctx.mods
    if kind == "builtin":
        S = mods["US"].unit_system_registry[system]
        return S, system, mods["UO"].default_unit_registry, default_keys(), dict(S.units_map), None
    reg = user_registry(ctx, system)
    S, name, sysargs, decl = user_system(ctx, system, reg)
    return S, S, reg, set(reg.lut), decl, name


def make_dimension_case(kind, system, order, names):
    """ONE path: every named dimension is requested from the system three ways - S[name] (synthesis + memoisation),
    in_base of a quantity of that dimension, S[dimension object] (memoised) - in the given order, alternating which of
    the first two comes first; then everything is requested again. The map only grows inside the path."""
    def h(ctx):
        mods = ctx.mods
        US = mods["US"]
        unyt = mods["unyt"]
        D = unyt.dimensions
        NR = unyt.exceptions.UnitsNotReducible
        MC = unyt.exceptions.MissingMKSCurrent
        reset_builtin(mods)
        popname = None
        try:
            S, arg, reg, keys, decl, popname = _open_system(ctx, kind, system)
            lut = reg.lut

            def ask(dn, key, how):
                d = getattr(D, dn)
                want = system_unit(decl, d, lut, keys)
                r = call(S.__getitem__, key)
                if want is None:
                    ctx.require(f"{dn}|{how}: raises MissingMKSCurrent (no MKS current)", r[0] == "raise" and isinstance(r[1], MC))
                    return
                ctx.require(f"{dn}|{how}: returns a unit", r[0] == "ok", err=repr(r[1])[:120])
                if r[0] != "ok":
                    return
                u = r[1]
                ctx.require(f"{dn}|{how}: has the dimension asked for", same_dims(u.dimensions, d))
                ctx.require(f"{dn}|{how}: is the system's own unit (scale)", close(u.base_value, want[1]), got=str(u), want=str(want[0]))
                ctx.require(f"{dn}|{how}: is the system's own unit (expression)", same_expr(u.expr, want[0]), got=str(u), want=str(want[0]))

            def convert(dn):
                d = getattr(D, dn)
                want = system_unit(decl, d, lut, keys)
                ustr = sweep_unit(mods, d)
                x = ctx.real(f"x_{dn}")
                q = ctx.quantity(x, ustr, reg if kind != "builtin" else None)
                s_q, d_q = oracle_unit(q.units.expr, lut, keys)
                if want is None and q.units.is_atomic:
                    return  # a bare (prefixed) ampere in a system without MKS current takes the SI <-> Gaussian route: see battery
                r = call(q.in_base, arg)
                if want is None:
                    ctx.require(f"{dn}|in_base: raises UnitsNotReducible (no MKS current)", r[0] == "raise" and isinstance(r[1], NR))
                    return
                ctx.require(f"{dn}|in_base: returns", r[0] == "ok", err=repr(r[1])[:120])
                if r[0] != "ok":
                    return
                v = payload(r[1])[0]
                ctx.observe(f"{dn}|in_base", [v])
                ctx.require(f"{dn}|in_base: value in the system's own units", close(v * want[1], x * s_q), got=str(r[1].units), want=str(want[0]))
                ctx.require(f"{dn}|in_base: unit is the system's own unit (scale)", close(r[1].units.base_value, want[1]),
                            got=str(r[1].units), want=str(want[0]))
                ctx.require(f"{dn}|in_base: unit is the system's own unit (expression)", same_expr(r[1].units.expr, want[0]),
                            got=str(r[1].units), want=str(want[0]))
                e = call(q.units.get_base_equivalent, arg)
                ctx.require(f"{dn}|get_base_equivalent: the same unit", e[0] == "ok" and same_unit(e[1], r[1].units))

            for i, dn in enumerate(names):
                if i % 2 == 0:
                    ask(dn, dn, "S[name] first")
                    convert(dn)
                else:
                    convert(dn)
                    ask(dn, dn, "S[name] after in_base")
                ask(dn, getattr(D, dn), "S[dimension] memoised")
            for dn in names:
                ask(dn, dn, "S[name] at the end")
            foreign = foreign_entries(S, decl, lut, keys)
            ctx.require("units_map entries are the system's own units", not foreign, bad=foreign[:4])
        finally:
            if popname is not None:
                US.unit_system_registry.pop(popname, None)
            reset_builtin(mods)
    return Case(f"C10/dimensions/{system}/{order}", h, bounds="symbolic: values, base-unit scales of user-defined systems; "
                "discrete: every named dimension, order of the requests", budget_s=600, max_paths=3000, oblig_timeout_ms=OBLIG_MS, weight=4 * len(names))


# sequences of conversions into ONE system inside one path (the units_map grows from step to step)
HISTORIES = [("km/s", "cm**2", "erg"), ("erg", "km/s", "erg"), ("Hz", "hr", "Hz"), ("g/cm**3", "kg**-1", "N"), ("J/K", "degC", "rad/s"),
             ("Pa", "km/s", "g/cm**3"), ("cm**2", "cm"), ("cm**3", "cm**2", "cm**-1")]


def light_step(ctx, tag, q, x, S, arg, reg, keys, src, decl, lut=None):
    """the core obligations of one conversion (no twins): own unit, value, conversion back. -> the result (or None)"""
    NR = ctx.mods["unyt"].exceptions.UnitsNotReducible
    s_q, o_q, d_q = src
    if lut is None:
        lut = reg.lut
    want = system_unit(decl, d_q, lut, keys)
    r = call(q.in_base, arg)
    if want is None:
        ctx.require(f"{tag}|raises UnitsNotReducible (no MKS current)", r[0] == "raise" and isinstance(r[1], NR))
        return
    ctx.require(f"{tag}|returns", r[0] == "ok", err=repr(r[1])[:120])
    if r[0] != "ok":
        return
    w_expr, w_s, w_o = want
    v = payload(r[1])[0]
    ctx.observe(f"{tag}|in_base", [v])
    info = dict(got=str(r[1].units), want=str(w_expr))
    ex = 1e-6 * (vabs(s_q * o_q) + vabs(w_s * w_o))
    ctx.require(f"{tag}|value in the system's own units", close(si_of(v, w_s, w_o), si_of(x, s_q, o_q), extra=ex), **info)
    ctx.require(f"{tag}|unit is the system's own unit (scale)", close(r[1].units.base_value, w_s), **info)
    ctx.require(f"{tag}|unit is the system's own unit (expression)", same_expr(r[1].units.expr, w_expr), **info)
    ctx.require(f"{tag}|stays inside the system", atoms_of(r[1].units.expr) <= declared_atoms(S), **info)
    foreign = foreign_entries(S, decl, lut, keys)
    ctx.require(f"{tag}|units_map entries are the system's own units", not foreign, bad=foreign[:4])
    return r[1]


def make_history_case(kind, system, idx, seq):
    """conversions of quantities of different dimensions into ONE system inside one path; at the end every quantity is
    converted again (now from the memoised map, after the other dimensions were added)"""
    def h(ctx):
        mods = ctx.mods
        US = mods["US"]
        reset_builtin(mods)
        popname = None
        try:
            S, arg, reg, keys, decl, popname = _open_system(ctx, kind, system)
            done = []
            for i, ustr in enumerate(seq):
                x = ctx.real(f"x_{i}")
                q = ctx.quantity(x, ustr, reg if kind != "builtin" else None)
                if q.units.is_atomic:
                    src = atomic_src(str(q.units.expr), reg.lut, keys)
                else:
                    sc, d = oracle_unit(q.units.expr, reg.lut, keys)
                    src = (sc, 0.0, d)
                light_step(ctx, f"step{i}:{ustr}", q, x, S, arg if i % 2 == 0 else S.name, reg, keys, src, decl)
                done.append((i, ustr, q, x, src))
            for i, ustr, q, x, src in done:
                light_step(ctx, f"again{i}:{ustr}", q, x, S, arg, reg, keys, src, decl)
        finally:
            if popname is not None:
                US.unit_system_registry.pop(popname, None)
            reset_builtin(mods)
    return Case(f"C10/history/{system}/h{idx}", h, bounds="symbolic: values, base-unit scales; discrete: the sequence of conversions",
                budget_s=600, max_paths=3000, oblig_timeout_ms=OBLIG_MS, weight=10)


# ----------------------------------------------------------------------------- starting units that carry a number

# the coefficients put in front of a starting unit (sympy expressions cannot hold z3 terms: enumerated; what they multiply -
# the value, and for user-defined systems every scale - is symbolic). An integer, a float < 1, a float that prints like an
# integer, a power of ten as simplify() leaves it behind
COEFS = [("100", 100), ("0.5", 0.5), ("3.0", 3.0), ("1e-3", 0.001), ("7", 7)]
# dimensions no system declares a unit for (the unit is synthesised from the base units), next to every declared one
COEF_SYNTH = ["velocity", "area", "density", "momentum"]


def user_decl(mods, variant):
    """the harness' record of the declarations of a user-defined system, without a path (catalogue time: how many dimensions)"""
    from symx.ctx import ConcreteCtx
    ctx0 = ConcreteCtx(mods)
    reg = user_registry(ctx0, variant)
    S, name, _, decl = user_system(ctx0, variant, reg)
    mods["US"].unit_system_registry.pop(name, None)
    return decl


def coef_dimensions(mods, decl):
    """the dimensions walked by the coefficient family for one system: every dimension the system declares a unit for
    (base units and overrides, in the order of the harness' record) and four synthesised ones"""
    D = mods["unyt"].dimensions
    out = [k for k in decl]
    for n in COEF_SYNTH:
        d = getattr(D, n)
        if not any(same_dims(d, k) for k in out):
            out.append(d)
    return out


def coef_units(mods, d, own, coef, form, reg, symbolic_rows):
    """starting units of dimension d that carry the number `coef`, by their relation to the system's own unit `own`
    (expression or None): the number times the own unit; the number times another unit of the dimension; and, where the own
    unit carries a number itself (3*xl), the bare symbol part (the own unit exactly is what the idempotence obligations of
    every battery start from).
    form: 'parse' - the unit string "100*(m)" goes through the unit parser; 'expr' - a Unit object built from the sympy
    expression; 'simplify' - the number is left behind by Unit.simplify() of own**2/other (table units only: cancelling needs
    concrete scales)."""
    import sympy
    unyt = mods["unyt"]
    cs, cv = coef
    other = sweep_unit(mods, d)
    out = []
    if form == "simplify":
        if own is None or not own.is_Symbol or symbolic_rows:
            return out
        u = unyt.Unit(str(own), registry=reg)
        o = unyt.Unit(other, registry=reg)
        for lab, build in (("own**2/other", lambda: (u ** 2 / o).simplify()), ("other**2/own", lambda: (o ** 2 / u).simplify()),
                           ("own**3/other**2", lambda: (u ** 3 / o ** 2).simplify())):
            r = call(build)
            # (a logarithmic unit refuses powers; own == other leaves no number)
            if r[0] == "ok" and r[1].expr.as_coeff_Mul()[0] != 1:
                out.append((f"simplify({lab})", r[1]))
        return out

    def mk(expr_str):
        if form == "parse":
            return expr_str
        return unyt.Unit(sympy.sympify(parse_locals(mods, expr_str)), registry=reg)

    if own is not None:
        out.append((f"{cs}*own", mk(f"{cs}*({own})")))
        c0, rest = own.as_coeff_Mul()
        if c0 != 1:
            out.append(("own stripped of its number", mk(str(rest))))
    out.append((f"{cs}*other", mk(f"{cs}*({other})")))
    return out


def parse_locals(mods, expr_str):
    """the sympy expression of a unit string over positive symbols (the harness' own reading: names, numbers, * / ** only)"""
    import re
    import sympy
    names = set(re.findall(r"[A-Za-z_][A-Za-z0-9_]*", re.sub(r"\d[\d.]*e[-+]?\d+", "0", expr_str)))
    return sympy.sympify(expr_str, locals={n: _psym(n) for n in names})


def make_coef_case(kind, system, form, coef, k, n):
    """one system x the k-th of n slices of its dimensions x starting units with a number in front (see coef_units)"""
    def h(ctx):
        mods = ctx.mods
        US = mods["US"]
        reset_builtin(mods)
        popname = None
        try:
            if kind == "builtin":
                S = US.unit_system_registry[system]
                reg, keys, decl = mods["UO"].default_unit_registry, default_keys(), dict(S.units_map)
                sysargs = [("name", system), ("object", S)]
            else:
                reg = user_registry(ctx, system)
                S, popname, sysargs, decl = user_system(ctx, system, reg)
                keys = set(reg.lut)
            dims = coef_dimensions(mods, decl)[k::n]
            for d in dims:
                if kind == "builtin":
                    reset_builtin(mods)
                own = system_unit(decl, d, reg.lut, keys)
                for lab, unit in coef_units(mods, d, None if own is None else own[0], coef, form, reg if kind != "builtin" else None,
                                            kind != "builtin"):
                    dn = _dim_label(mods, d)
                    tag = f"{dn if dn != 'other' else str(d)}:{lab}"
                    x = ctx.real("x_" + tag)
                    q = ctx.quantity(x, unit, reg if kind != "builtin" else None)
                    s, dd = oracle_unit(q.units.expr, reg.lut, keys)
                    if not same_dims(dd, d):
                        raise AssertionError(f"harness: {unit} has dimensions {dd}, wanted {d}")
                    battery(ctx, tag, q, [x], S, sysargs, reg, keys, (s, 0.0, dd), decl=decl)
        finally:
            if popname is not None:
                US.unit_system_registry.pop(popname, None)
            reset_builtin(mods)
    return Case(f"C10/coef/{system}/{form}-{coef[0]}/{k}", h, bounds="symbolic: value, base-unit scales of user-defined systems; "
                "discrete: the number in front of the starting unit, its relation to the system's own unit, how it got there",
                budget_s=600, max_paths=3000, oblig_timeout_ms=OBLIG_MS, weight=12)


# ----------------------------------------------------------------------------- from one system into another

CHAIN_UNITS = ["km", "g/cm**3", "erg", "mile/hr", "Pa", "J/K", "N", "Hz", "hr", "lb", "cm**2", "rad/s"]
USER_CHAIN = ["U1", "U2", "U3", "Q1", "Q2", "Q3", "Q4"]


def make_chain_case(s1, s2, idx, ustrs):
    """q -> in_base(S1) -> in_base(S2): what one system hands out is a starting unit for the next (its unit may carry a number,
    be a declared unit of S1, share symbols with S2's units ...). Systems: built-in by name, user-defined ones on ONE registry
    that has the rows of all of them (symbolic scales)."""
    def h(ctx):
        mods = ctx.mods
        US = mods["US"]
        reset_builtin(mods)
        pops = []
        try:
            user = [s for s in (s1, s2) if s not in BUILTIN]
            reg = user_registry(ctx, "Q1") if user else mods["UO"].default_unit_registry
            opened = []
            for s in (s1, s2):
                if s in BUILTIN:
                    S = US.unit_system_registry[s]
                    opened.append((S, s, dict(S.units_map)))
                else:
                    S, name, _, decl = user_system(ctx, s, reg)
                    pops.append(name)
                    opened.append((S, S, decl))
            keys = set(reg.lut) if user else default_keys()
            (S1, a1, decl1), (S2, a2, decl2) = opened
            for i, ustr in enumerate(ustrs):
                if not user:
                    reset_builtin(mods)
                x = ctx.real(f"x_{i}")
                q = ctx.quantity(x, ustr, reg if user else None)
                if q.units.is_atomic:
                    src = atomic_src(str(q.units.expr), reg.lut, keys)
                else:
                    sc, d = oracle_unit(q.units.expr, reg.lut, keys)
                    src = (sc, 0.0, d)
                r1 = light_step(ctx, f"{ustr}>first", q, x, S1, a1, reg, keys, src, decl1)
                w1 = system_unit(decl1, src[2], reg.lut, keys)
                if r1 is None or w1 is None:
                    continue
                # the second leg starts from what the first handed out; its size is the harness' own figure for S1's unit
                v1 = payload(r1)[0]
                battery(ctx, f"{ustr}>second", r1, [v1], S2, [("arg", a2), ("name", S2.name)], reg, keys, (w1[1], w1[2], src[2]), decl=decl2)
                # and the direct route lands on the same reading
                rd = call(q.in_base, a2)
                r2 = call(r1.in_base, a2)
                ctx.require(f"{ustr}>via the first system == directly",
                            rd[0] == "ok" and r2[0] == "ok" and And(same_unit(rd[1].units, r2[1].units), all_close(payload(rd[1]), payload(r2[1]))))
        finally:
            for n in pops:
                US.unit_system_registry.pop(n, None)
            reset_builtin(mods)
    return Case(f"C10/chain/{s1}>{s2}/{idx}", h, bounds="symbolic: values, base-unit scales of user-defined systems; discrete: the pair of systems, "
                "the starting units", budget_s=600, max_paths=3000, oblig_timeout_ms=OBLIG_MS, weight=10 * len(ustrs))


# ----------------------------------------------------------------------------- registry edits between conversions

# which symbol is edited: the system's length / mass / time symbol, the symbol of a unit it declares for a derived dimension,
# or the symbol of the starting unit (not a unit of the system)
EDIT_TARGETS = ["length", "mass", "time", "override", "start"]
# how: modify(sym, number) / modify(sym, quantity of the same dimension) / remove + add
EDIT_KINDS = ["modify", "modify_q", "readd"]
EDIT_SEQ = ["km", "km/hr", "g/cm**3", "xa", "erg", "Pa*xa"]
OVERRIDE_OF = {"U2": "energy", "U3": "velocity", "code": "velocity", "Q4": "velocity",
               "cgs": "energy", "mks": "energy", "imperial": "force", "galactic": "energy", "planck": "energy"}
Q_UNIT = {"length": ("km", 1000.0), "mass": ("g", 1.0e-3), "time": ("hr", 3600.0)}


def _row_key(name, keys):
    if name in keys:
        return name
    for p in _prefix_sorted():
        if name.startswith(p) and name[len(p):] in keys:
            return name[len(p):]
    raise KeyError(name)


def make_regedit_case(variant, target, ekind, when):
    """a user-defined system bound to a registry (registry=reg), or a built-in system (bound to no registry) used from a
    registry of the caller's; conversions of several dimensions and S[dimension] requests; then a row of that registry is
    edited (new scale: a fresh symbol); then quantities made AFTER the edit are converted. The oracle reads the harness' own
    copy of the rows, which the harness updates itself.
    when: 'used' - every dimension was converted / requested before the edit; 'fresh' - half of them only afterwards."""
    def h(ctx):
        mods = ctx.mods
        US = mods["US"]
        unyt = mods["unyt"]
        D = unyt.dimensions
        reset_builtin(mods)
        popname = None
        try:
            reg = ctx.registry([]) if variant in BUILTIN else user_registry(ctx, variant)
            ctx.add_row(reg, "xa", D.length, ctx.real("xa_s", pos=True), 0.0)
            # the rows as the harness defined them (before unyt writes rows of prefixed symbols back into the table)
            keys = set(reg.lut)
            rows = dict(reg.lut)
            rows0 = dict(rows)
            if variant in BUILTIN:
                S, sysname = US.unit_system_registry[variant], variant
                decl = dict(S.units_map)
            else:
                S, popname, sysargs, decl = user_system(ctx, variant, reg)
                sysname = popname
            args = [S, sysname]

            def convert(stage, i, ustr, full):
                x = ctx.real(f"x_{stage}{i}")
                q = ctx.quantity(x, ustr, reg)
                if q.units.is_atomic:
                    src = atomic_src(str(q.units.expr), rows, keys)
                else:
                    sc, d = oracle_unit(q.units.expr, rows, keys)
                    src = (sc, 0.0, d)
                tag = f"{stage}:{ustr}"
                if full:
                    battery(ctx, tag, q, [x], S, [("object", S), ("name", sysname)], reg, keys, src, decl=decl, lut=rows)
                else:
                    light_step(ctx, tag, q, x, S, args[i % 2], reg, keys, src, decl, lut=rows)
                # the system's own answer for that dimension, by dimension object: in the registry the system is bound to (a
                # built-in system is bound to none: its answer is a unit of the default registry, which nobody edited)
                want = system_unit(decl, src[2], rows if variant not in BUILTIN else rows0, keys)
                if want is not None:
                    u = call(S.__getitem__, src[2])
                    ctx.require(f"{tag}|S[dimension]: the system's own unit (rows of the registry it is bound to, as they are now)",
                                u[0] == "ok" and And(close(u[1].base_value, want[1]), same_expr(u[1].expr, want[0])),
                                got=str(u[1])[:80], want=str(want[0]))

            seq = EDIT_SEQ
            for i, ustr in enumerate(seq):
                if when == "used" or i % 2 == 0:
                    convert("before", i, ustr, False)
            # ---- the edit
            if target == "start":
                sym = "xa"
            else:
                dname = OVERRIDE_OF[variant] if target == "override" else target
                e = decl[getattr(D, dname)]
                sym = _row_key(str(e.as_coeff_Mul()[1]), keys)
            old = rows[sym]
            v = ctx.real("v_new", pos=True)
            if ekind == "modify":
                r = call(reg.modify, sym, v)
                new_scale = v
            elif ekind == "modify_q":
                dn = "length" if target == "start" else target
                qu, qs = Q_UNIT[dn]
                r = call(reg.modify, sym, ctx.quantity(v, qu, reg))
                new_scale = v * qs
            else:
                r = call(reg.remove, sym)
                if r[0] == "ok":
                    r = call(reg.add, sym, v, old[1], prefixable=old[4])
                new_scale = v
            ctx.require("the registry accepts the edit", r[0] == "ok", err=repr(r[1])[:120])
            rows[sym] = (new_scale,) + tuple(old[1:])
            # ---- afterwards: quantities made now
            for i, ustr in enumerate(seq):
                convert("after", i, ustr, i == 1)
        finally:
            if popname is not None:
                US.unit_system_registry.pop(popname, None)
            reset_builtin(mods)
    return Case(f"C10/regedit/{variant}/{target}-{ekind}-{when}", h, bounds="symbolic: values, all scales, the new scale; discrete: which "
                "symbol is edited, how, which dimensions were converted before", budget_s=600, max_paths=3000, oblig_timeout_ms=OBLIG_MS, weight=30)


# ----------------------------------------------------------------------------- one spelling, two meanings

# The same unit spelling means something else in another registry (two datasets' code units), or in the same registry after
# the symbol was removed and defined anew. Systems that are bound to no registry (all built-in ones, user-defined ones made
# without registry=) are shared by every registry of the process; a system bound to one registry may be named from a quantity
# of another. Whatever a conversion leaves behind on the system, on the classes or in module tables must not be keyed by the
# spelling alone.
# relation: what 'xa' is on side A / on side B (dimension name, has an offset)
TWOREG_REL = {
    "LM": (("length", False), ("mass", False)),            # another base dimension
    "LL": (("length", False), ("length", False)),          # the same dimension, another size
    "TT": (("temperature", True), ("temperature", False)),  # the same dimension, with / without a zero-point offset
    "EV": (("energy", False), ("velocity", False)),        # declared (override) vs synthesised dimension
    "PE": (("pressure", False), ("energy", False)),
    "IB": (("current_mks", False), ("magnetic_field_cgs", False)),  # the SI <-> Gaussian route on one side
}
# how the starting unit is spelled (xc: a time unit on both sides, of another size on each)
TWOREG_FORMS = {"atom": "xa", "prefixed": "kxa", "ratio": "xa/xc", "square": "xa**2", "coef": "3*xa"}
# which call is made first on side A
TWOREG_FIRST = ["in_base", "convert_to_base", "get_base_equivalent", "S[dimension]"]
# 'two': two registries, A then B then A again; 'readd': one registry, the symbol removed and added anew between the calls
TWOREG_HOW = ["two", "readd"]
# systems: the built-in ones; T1 - user-defined, bound to no registry, with an override; W1 - user-defined, bound to registry A
# (its own symbols xl, xm, xt have another size in registry B)
TWOREG_SYSTEMS = BUILTIN + ["T1", "W1"]


def make_tworeg_case(system, rel, form, first, how):
    (dnA, offA), (dnB, offB) = TWOREG_REL[rel]
    ustr = TWOREG_FORMS[form]

    def h(ctx):
        mods = ctx.mods
        US = mods["US"]
        unyt = mods["unyt"]
        D = unyt.dimensions
        reset_builtin(mods)
        popname = None
        try:
            def new_registry(side):
                reg = ctx.registry([])
                ctx.add_row(reg, "xc", D.time, ctx.real(f"xc_s{side}", pos=True), 0.0)
                if system == "W1":
                    for n, dn in (("xl", "length"), ("xm", "mass"), ("xt", "time")):
                        ctx.add_row(reg, n, getattr(D, dn), ctx.real(f"{n}_s{side}", pos=True), 0.0)
                return reg

            def meaning(side, dn, off):
                return (ctx.real(f"xa_s{side}", pos=True), ctx.real(f"xa_o{side}") if off else 0.0, getattr(D, dn))

            regA = new_registry("A")
            mA = meaning("A", dnA, offA)
            ctx.add_row(regA, "xa", mA[2], mA[0], mA[1], prefixable=True)
            rowsA = dict(regA.lut)
            keys = set(rowsA)
            if how == "two":
                regB = new_registry("B")
                mB = meaning("B", dnB, offB)
                ctx.add_row(regB, "xa", mB[2], mB[0], mB[1], prefixable=True)
                rowsB = dict(regB.lut)
            if system in BUILTIN:
                S = US.unit_system_registry[system]
                decl = dict(S.units_map)
            elif system == "T1":
                popname = "xsys_T1"
                S = US.UnitSystem(popname, "km", "g", "hr", temperature_unit="R")
                S["energy"] = "eV"
                decl = _decl(mods, length=_psym("km"), mass=_psym("g"), time=_psym("hr"), temperature=_psym("R"), energy=_psym("eV"))
            else:
                popname = "xsys_W1"
                S = US.UnitSystem(popname, "xl", "xm", "xt", registry=regA)
                decl = _decl(mods, length=_psym("xl"), mass=_psym("xm"), time=_psym("xt"))
            args = [S, S.name]

            def src_of(q, m, rows):
                if form == "atom":
                    return m
                if form == "prefixed":
                    return (m[0] * PREFIX["k"], m[1] / PREFIX["k"], m[2])
                sc, dd = oracle_unit(q.units.expr, rows, keys)
                return (sc, 0.0, dd)

            def light(stage, reg, m, rows, k, lead=None):
                """one conversion with the core obligations and the in-place / Unit-level twins"""
                x = ctx.real(f"x_{stage}")
                q = ctx.quantity(x, ustr, reg)
                src = src_of(q, m, rows)
                arg = args[k % 2]
                if lead == "convert_to_base":
                    call(q.copy().convert_to_base, arg)
                elif lead == "get_base_equivalent":
                    call(q.units.get_base_equivalent, arg)
                elif lead == "S[dimension]":
                    call(S.__getitem__, src[2])
                tag = f"{stage}:{ustr}"
                if em_counterpart(mods, src[2]) is not None:
                    battery(ctx, tag, q, [x], S, [("object", S), ("name", S.name)], reg, keys, src, decl=decl, lut=rows)
                    return
                r = light_step(ctx, tag, q, x, S, arg, reg, keys, src, decl, lut=rows)
                want = system_unit(decl, src[2], rows, keys)
                if r is None or want is None:
                    return
                w_expr, w_s, w_o = want
                e = call(q.units.get_base_equivalent, args[(k + 1) % 2])
                ctx.require(f"{tag}|get_base_equivalent: the system's own unit",
                            e[0] == "ok" and And(same_expr(e[1].expr, w_expr), close(e[1].base_value, w_s), same_dims(e[1].dimensions, src[2])),
                            got=str(e[1])[:80], want=str(w_expr))
                c = q.copy()
                rc = call(c.convert_to_base, arg)
                ex = 1e-6 * (vabs(src[0] * src[1]) + vabs(w_s * w_o))
                ctx.require(f"{tag}|convert_to_base: value and unit in the system's own units",
                            rc[0] == "ok" and And(same_expr(c.units.expr, w_expr),
                                                  close(si_of(payload(c)[0], w_s, w_o), si_of(x, src[0], src[1]), extra=ex)),
                            got=str(c.units)[:80], want=str(w_expr))

            # ---- side A first
            light("A", regA, mA, rowsA, 0, lead=first)
            # ---- the same spelling with its other meaning: the full battery
            if how == "two":
                regQ, mQ, rowsQ = regB, mB, rowsB
            else:
                mB = meaning("B", dnB, offB)
                r = call(regA.remove, "xa")
                if r[0] == "ok":
                    kw = dict(prefixable=True)
                    if offB:
                        kw["offset"] = mB[1]
                    r = call(regA.add, "xa", mB[0], mB[2], **kw)
                ctx.require("the registry accepts remove + add", r[0] == "ok", err=repr(r[1])[:120])
                rowsB = dict(rowsA)
                rowsB["xa"] = (mB[0], mB[2], mB[1]) + tuple(rowsA["xa"][3:])
                regQ, mQ, rowsQ = regA, mB, rowsB
            xb = ctx.real("x_B")
            qb = ctx.quantity(xb, ustr, regQ)
            battery(ctx, f"B:{ustr}", qb, [xb], S, [("object", S), ("name", S.name)], regQ, keys, src_of(qb, mQ, rowsQ), decl=decl, lut=rowsQ)
            # ---- and the first meaning again (its registry is still there)
            if how == "two":
                light("A2", regA, mA, rowsA, 1)
        finally:
            if popname is not None:
                US.unit_system_registry.pop(popname, None)
            reset_builtin(mods)
    return Case(f"C10/tworeg/{system}/{rel}/{form}-{first}-{how}", h, bounds="symbolic: values, the scales (offset) of the spelling on "
                "both sides, the system's own scales (W1); discrete: what the spelling means on each side, how it is written, which call "
                "comes first, two registries or one edited", budget_s=600, max_paths=3000, oblig_timeout_ms=OBLIG_MS, weight=12)


def tworeg_forms(rel):
    if rel == "TT":
        return ["atom", "prefixed"]  # (a unit with an offset takes no exponent, factor or number)
    if rel == "IB":
        return ["atom", "prefixed", "ratio"]
    return list(TWOREG_FORMS)


# ----------------------------------------------------------------------------- ill-defined systems

# (label, registry?, kwargs-builder): every one has at least one base unit of the wrong dimension
def _bad_specs():
    return [
        ("tab/length=g", False, dict(length_unit="g", mass_unit="g", time_unit="s"), True),
        ("tab/mass=cm", False, dict(length_unit="cm", mass_unit="cm", time_unit="s"), True),
        ("tab/time=K", False, dict(length_unit="cm", mass_unit="g", time_unit="K"), True),
        ("tab/swap", False, dict(length_unit="s", mass_unit="g", time_unit="cm"), True),
        ("tab/temperature=erg", False, dict(length_unit="cm", mass_unit="g", time_unit="s", temperature_unit="erg"), True),
        ("tab/angle=s", False, dict(length_unit="cm", mass_unit="g", time_unit="s", angle_unit="s"), True),
        ("tab/current=C", False, dict(length_unit="m", mass_unit="kg", time_unit="s", current_mks_unit="C"), True),
        ("tab/current=statA", False, dict(length_unit="m", mass_unit="kg", time_unit="s", current_mks_unit="statA"), True),
        ("tab/luminous=lm", False, dict(length_unit="m", mass_unit="kg", time_unit="s", luminous_intensity_unit="lx"), True),
        ("tab/prefixed length=kg", False, dict(length_unit="kg", mass_unit="kg", time_unit="s"), True),
        ("tab/coefficient 2*g as length", False, dict(length_unit="2*g", mass_unit="g", time_unit="s"), True),
        ("reg/length=xm", True, dict(length_unit="xm", mass_unit="xm", time_unit="xt"), True),
        ("reg/time=xl", True, dict(length_unit="xl", mass_unit="xm", time_unit="xl"), True),
        ("reg/mass=kxl", True, dict(length_unit="xl", mass_unit="kxl", time_unit="xt"), True),
        ("reg/temperature=xt", True, dict(length_unit="xl", mass_unit="xm", time_unit="xt", temperature_unit="xt"), True),
        ("reg/energy unit as mass", True, dict(length_unit="xl", mass_unit="xen", time_unit="xt"), True),
        # base units given with a coefficient (quantity / Unit object / string) of the wrong dimension
        ("reg/length=quantity 2*xm", True, dict(length_unit=("q", 2.0, "xm"), mass_unit="xm", time_unit="xt"), True),
        ("reg/mass=Unit 3*xt", True, dict(length_unit="xl", mass_unit=("u", 3, "xt"), time_unit="xt"), True),
        ("reg/time=quantity 0.5*kxl", True, dict(length_unit="xl", mass_unit="xm", time_unit=("q", 0.5, "kxl")), True),
        ("reg/temperature=string 1.8*xen", True, dict(length_unit="xl", mass_unit="xm", time_unit="xt", temperature_unit="1.8*xen"), True),
        # compound base unit of the wrong dimension: must not be accepted (which exception is not prescribed)
        ("reg/length=xl/xt", True, dict(length_unit="xl/xt", mass_unit="xm", time_unit="xt"), False),
        ("tab/length=cm**2", False, dict(length_unit="cm**2", mass_unit="g", time_unit="s"), False),
    ]


def make_bad_case(label, with_reg, kw, strict):
    def h(ctx):
        mods = ctx.mods
        US = mods["US"]
        D = mods["unyt"].dimensions
        Ill = mods["unyt"].exceptions.IllDefinedUnitSystem
        reset_builtin(mods)
        name = "xsys_bad"
        US.unit_system_registry.pop(name, None)
        reg = None
        try:
            if with_reg:
                reg = ctx.registry([])
                for n, d, pf in (("xl", D.length, True), ("xm", D.mass, True), ("xt", D.time, False), ("xen", D.energy, False)):
                    ctx.add_row(reg, n, d, ctx.real(n + "_s", pos=True), 0.0, prefixable=pf)
            kw2 = {k: (_q_arg(mods["unyt"], reg, *v) if isinstance(v, tuple) else v) for k, v in kw.items()}
            r = call(US.UnitSystem, name, registry=reg, **kw2)
            ctx.require("ill-defined system rejected", r[0] == "raise", got=repr(r[1])[:100])
            if strict:
                ctx.require("rejected with IllDefinedUnitSystem", r[0] == "raise" and isinstance(r[1], Ill), exc=type(r[1]).__name__)
            ctx.require("rejected system is not registered", name not in US.unit_system_registry)
            # the failed construction must not disturb a following valid one, which is then usable at once
            if with_reg:
                good = call(US.UnitSystem, name, "xl", "xm", "xt", registry=reg)
                ctx.require("valid system accepted afterwards", good[0] == "ok" and US.unit_system_registry.get(name) is good[1])
                if good[0] == "ok":
                    x = ctx.real("x")
                    q = ctx.quantity(x, "xen", reg)
                    keys = set(reg.lut)
                    battery(ctx, "xen", q, [x], good[1], [("name", name), ("object", good[1])], reg, keys,
                            (ctx.real("xen_s", pos=True), 0.0, D.energy))
        finally:
            US.unit_system_registry.pop(name, None)
            reset_builtin(mods)
    return Case(f"C10/illdefined/{label}", h, bounds="discrete: which base unit has the wrong dimension; symbolic scales")


# ----------------------------------------------------------------------------- catalogue

def cases(tier, mods):
    check_names(mods, NAMES + CODE_NAMES)
    quick = tier == "quick"
    reset_builtin(mods)
    out = []
    by = table_by_dim(mods)
    for system in BUILTIN:
        # every atomic unit of the default table
        for group, names in table_groups(mods, 10):
            out.append(make_builtin_case(system, group, names))
            if not quick:
                out.append(make_builtin_case(system, group, names, shape=(2,)))
        out.append(make_builtin_case(system, "prefixed", PREFIXED, kind="prefixed"))
        if not quick:
            out.append(make_builtin_case(system, "more", PREFIXED_MORE, kind="prefixed"))
        # compound shapes
        rot = [(1, 2)] if quick else [(1, 2), (3, 7), (5, 11), (2, 9), (4, 13), (7, 10)]
        comp = [u for u in compounds(POOL[:16] if quick else POOL, rot) if _in_float_range(mods, system, u)]
        for i in range(0, len(comp), 8):
            out.append(make_builtin_case(system, f"c{i // 8}", comp[i:i + 8], kind="compound"))
        # naming by registry default
        out.append(make_builtin_case(system, "default", ["km", "erg", "degF", "G", "W/m**2", "A*s"], naming="default", kind="naming"))
        # symbolic scale of the starting unit
        for lab in sorted(by):
            names = [n for n in by[lab] if n not in EM_ATOMS]
            if not names:
                continue
            if quick:
                out.append(make_builtin_symscale_case(system, lab, names[:1]))
            else:
                for n in names:
                    out.append(make_builtin_symscale_case(system, f"{lab}/{n}", [n]))
        for st in (QUICK_START if quick else list(START)):
            if not st.startswith("t:"):
                out.append(make_builtin_start_case(system, st))
    for variant in ("U1", "U2", "U3", "code") + tuple(QVARIANTS):
        isq = variant in QVARIANTS
        for st in ((QSTART if isq else QUICK_START) if quick else list(START)):
            if variant == "code" and st == "t:kxm":
                continue
            if isq and st.startswith("t:") and st[2:] in EM_ATOMS:
                continue  # the SI <-> Gaussian route ignores the system's units altogether (known finding, see U1-U3/code)
            out.append(make_user_case(variant, st))
            if not quick and ((not isq and st in QUICK_START) or (variant == "Q2" and st in QSTART)):
                out.append(make_user_case(variant, st, shape=(2,)))
        if isq and quick:
            continue
        # every atomic unit of the default table against the user-defined systems
        for lab in sorted(by):
            if quick or isq:
                names = [n for n in by[lab] if not (isq and n in EM_ATOMS)][:1]
                if names:
                    out.append(make_user_table_case(variant, lab, names))
            else:
                for n in by[lab]:
                    out.append(make_user_table_case(variant, f"{lab}/{n}", [n]))
    # every named dimension x every system, three request routes, orders of the requests (one path each)
    # (dimensions with rational exponents - the Gaussian EM ones - put a root witness per scale into the path condition:
    # they go into short paths of their own)
    D = mods["unyt"].dimensions
    dn = named_dimensions(mods)
    dint = [n for n in dn if all(e.denominator == 1 for e in dim_exponents(getattr(D, n)).values())]
    drat = [n for n in dn if n not in dint]

    def orders(names, which):
        o = [("forward", names), ("reverse", names[::-1]), ("rotated", names[len(names) // 3:] + names[:len(names) // 3])]
        return [o[i] for i in which]

    def dimension_cases(kind, system, which):
        for lab, names in orders(dint, which):
            out.append(make_dimension_case(kind, system, "integer-" + lab, names))
        for i in range(0, len(drat), 3):
            for lab, names in orders(drat[i:i + 3], which[:2]):
                out.append(make_dimension_case(kind, system, f"rational{i // 3}-" + lab, names))

    # quick: all three orders for the system with a coefficient in every slot, one (rotating) order for the others
    allsys = [("builtin", n) for n in BUILTIN] + [("user", v) for v in ("U1", "U2", "U3", "code") + tuple(QVARIANTS)]
    for i, (kind, system) in enumerate(allsys):
        dimension_cases(kind, system, [0, 1, 2] if (not quick or system == "Q2") else [i % 3])
    # histories of conversions into one system
    for variant in ("U3",) + tuple(QVARIANTS) + (() if quick else ("U1", "U2", "code")):
        for i, seq in enumerate(HISTORIES):
            out.append(make_history_case("user", variant, i, seq))
    for system in (["cgs", "imperial"] if quick else BUILTIN):
        for i, seq in enumerate(HISTORIES):
            out.append(make_history_case("builtin", system, i, seq))
    for label, with_reg, kw, strict in _bad_specs():
        out.append(make_bad_case(label, with_reg, kw, strict))
    # starting units that carry a number (relation to the system's own unit x how the number got there x which number)
    # (built-in systems: two slices of the dimensions; user-defined ones, whose paths fork on the symbolic scales: one dimension a case)
    for i, (kind, system) in enumerate(allsys):
        nsl = 2 if kind == "builtin" else len(coef_dimensions(mods, user_decl(mods, system)))
        for j, form in enumerate(("parse", "expr")):
            if quick and form == "expr" and kind != "builtin" and system not in ("U1", "Q1"):
                continue
            cfs = [COEFS[(i + 2 * j) % len(COEFS)]] if quick else COEFS[:3] if form == "parse" else COEFS[3:]
            for cf in cfs:
                for k in range(nsl):
                    out.append(make_coef_case(kind, system, form, cf, k, nsl))
        if kind == "builtin":
            out.append(make_coef_case(kind, system, "simplify", ("", 1), 0, 1))
    # what one system hands out is converted into another
    nu = len(CHAIN_UNITS)
    pairs = [(a, b) for a in BUILTIN for b in BUILTIN if a != b]
    upairs = [(a, b) for a in USER_CHAIN for b in USER_CHAIN if a != b]
    mixed = [("Q1", "cgs"), ("mks", "Q2"), ("U3", "imperial"), ("galactic", "Q3"), ("Q4", "mks"), ("cgs", "U2"), ("imperial", "Q1"), ("U1", "solar")]
    if quick:
        upairs = [("Q1", "U1"), ("U1", "Q1"), ("Q2", "U2"), ("U2", "Q3"), ("Q3", "U3"), ("U3", "Q4"), ("Q4", "Q1"), ("Q1", "Q3"), ("Q2", "Q1")]
        mixed = mixed[:4]
    # (3 starting units a case: the paths of the user-defined systems fork on the symbolic scales, and forks multiply along a case)
    for i, (a, b) in enumerate(pairs + upairs + mixed):
        us = [CHAIN_UNITS[(i * 5 + j * 7) % nu] for j in range(3 if quick else 6)]
        for k in range(0, len(us), 3):
            out.append(make_chain_case(a, b, k // 3, us[k:k + 3]))
    # registry edits between conversions into a system bound to that registry
    n = 0
    for variant in ("U1", "U2", "U3", "code") + tuple(QVARIANTS) + (("cgs", "imperial", "galactic") if quick else tuple(BUILTIN)):
        for target in EDIT_TARGETS:
            if target == "override" and variant not in OVERRIDE_OF:
                continue
            combos = [(e, w) for e in EDIT_KINDS for w in ("used", "fresh") if not (e == "modify_q" and target == "override")]
            if quick:
                combos = [combos[n % len(combos)]]
                n += 1
            for e, w in combos:
                out.append(make_regedit_case(variant, target, e, w))
    # every spelling of the constructor call of a user-defined system
    out.extend(spell_cases(tier, mods))
    # one spelling, two meanings (two registries / one registry edited) x systems shared between registries
    n = 0
    for system in TWOREG_SYSTEMS:
        for rel in TWOREG_REL:
            forms = tworeg_forms(rel)
            pick = (n // len(TWOREG_REL) + n) % len(forms)
            for j, form in enumerate(forms):
                if quick and j != pick:
                    continue
                for hj, how in enumerate(TWOREG_HOW):
                    if quick and hj != (n // len(TWOREG_REL) + (n % len(TWOREG_REL)) // 2) % 2 and not (rel in ("LM", "LL") and system in ("cgs", "mks", "T1", "W1")):
                        continue
                    first = TWOREG_FIRST[(n + j + hj) % len(TWOREG_FIRST)]
                    out.append(make_tworeg_case(system, rel, form, first, how))
            n += 1
    return out


# families none of whose cases shows a recorded defect of unyt (no atomic SI<->Gaussian starting units): usable as warm-ups
WARM_CLEAN = ("coef", "chain", "history", "regedit", "compound")


def _system_of(case_id):
    parts = case_id.split("/")
    return parts[2].split(">")[0] if len(parts) > 2 else ""  # (a chain is filed under the system it starts in)


def WARM_PARTNERS(cases):
    """history axis across cases (symx/warm.py): the recorded SI<->Gaussian finding has a case pattern that spans the whole
    harness ('C10/*::em:*V|si kept'), which bars every case from the runner's default sample of warm-ups; the pairs are given here
    instead. Every k-th case of the catalogue (all families) runs after a case of a family that shows no recorded defect - the
    same system where there is one (another slice of its dimensions, a chain starting in it, a history, a registry edit), so that
    whatever an earlier conversion into that system leaves behind in the library (unit caches, memoised factors, rows written
    back into a table, registered systems) is there when the case runs. At most about 150 pairs (all in the thorough tier, a
    seeded sample of 45 in the quick tier)."""
    clean = [c.id for c in cases if c.id.split("/")[1] in WARM_CLEAN]
    by_sys = {}
    for cid in clean:
        by_sys.setdefault(_system_of(cid), []).append(cid)
    stride = max(7, len(cases) // 150)
    out = {}
    for i, c in enumerate(cases):
        if i % stride:
            continue
        pool = by_sys.get(_system_of(c.id)) or clean
        w = pool[(i // stride) % len(pool)]
        if w == c.id:
            w = pool[(i // stride + 1) % len(pool)]
        if w != c.id:
            out[c.id] = [w]
    return out


def coverage_extra(results, tier):
    fam = {}
    for r in results:
        k = r["id"].split("/")[1]
        f = fam.setdefault(k, dict(cases=0, paths=0, obligations=0))
        f["cases"] += 1
        f["paths"] += r["paths"]
        f["obligations"] += r["stats"]["obligations"]
    return dict(families=fam, systems=BUILTIN + ["user:U1", "user:U2", "user:U3", "user:code"] + ["user:" + v for v in QVARIANTS])
