"""C11 - persisted quantities and units come back meaning and behaving the same (PARTIAL).

The persistence step (pickle, copy, deepcopy, Unit.copy, registry JSON, savetxt/loadtxt, str -> Unit) cannot carry solver terms:
it runs concretely, per case, on UNITS and REGISTRIES with concrete scales. What the solver decides is the behaviour afterwards:
the same follow-up operation is run by the real unyt code on q(x, original_unit) and on q(x, restored_unit) with the SAME z3-real
payload x (and a z3-real partner payload y), and z3 must prove `outcome(restored) == outcome(original)` for all x, y: same
exception class, or equal value terms, equal units, equal result type.
"""
import copy
import os
import pickle
import tempfile

import numpy as np

from .common import And, Case, Iff, call, check_names, close, elements, exact_eq
from symx.core import SymBool, SymReal

LEVEL = "other"
MANIFEST = dict(
    category="other",
    text=("PARTIAL. Persistence itself (pickle protocols 2-5, copy.copy, copy.deepcopy, Unit.copy, UnitRegistry.to_json/from_json, "
          "savetxt/loadtxt, str(units)->Unit, nested containers) cannot carry solver terms and is executed CONCRETELY per case on units "
          "and registries with concrete scales (table units of every guarded dimension, compounds, custom registries with added, "
          "modified, prefixable, offset symbols and a non-default unit system). The solver-decided part is what happens AFTERWARDS: "
          "bounded symbolic execution of the real follow-up code (symx) on q(x, original unit) and q(x, restored unit) with the same "
          "z3-real payload x (partner payload y), original-first and restored-first (memoised unit rules live within the path, "
          "reference outcome from a fresh world); per path z3 proves for ALL real x, y that the restored object gives the same outcome "
          "as the original: same exception class, or equal value terms, equal unit (expression, dimensions, scale, offset) and equal "
          "result type. Two further enumerated axes: (a) ARGUMENT FORMS of the text-file round trip - 36 forms of savetxt/loadtxt (comment "
          "lines before and after the data: header= / footer= of one word, as many words as columns, unit names, several lines, a second "
          "'Units' block; delimiter; comment character; fmt; 1-3 columns, 1-3 rows, single array vs list, a bare ndarray column, usecols), every "
          "column checked, the subject's restored unit followed up symbolically; (b) RESTORATION HISTORIES - two- and three-step sequences "
          "inside ONE path in which the subject is restored before / after / in the same container as companions from registries with an "
          "EQUAL table and another unit system (mks / cgs / imperial) or with the same symbol names and other scales, incl. a second "
          "restoration of the same original, use / release / registry edits of an earlier restored object; every restored object is "
          "followed up against its own original; (c) WHICH SIDE MOVES ON AFTERWARDS - the registry of the ORIGINAL is edited after / between "
          "restorations (edit kinds: rescale a symbol, add a symbol, both, remove a symbol): what was restored before must go on giving the outcomes of "
          "the original as it was when persisted (reference from a fresh world), what is restored afterwards those of the edited original; followed up "
          "with one-step and TWO-step programs whose second step is a unit STRING resolved in the registry the first result is bound to "
          "(q.to(s).to(own), (q*q).to(own**2), q.in_base().to(own), conversion to a symbol only the other side's registry has: same refusal); "
          "histories also through the registry's JSON text (same text loaded several times), Unit.copy(deep=True), copy.deepcopy / copy.copy of the registry; "
          "(d) KINDS OF TABLE ROWS - a custom registry (world regspell, also as a cgs registry and as a cast of the JSON / pickle / deepcopy histories) whose user rows are spelled like an SI prefix in front of a "
          "prefixable symbol of the same table (user-defined: kxlp, Mxlp next to prefixable xlp, uxlp; built-in: cs, nm) with a scale / dimension of their own, "
          "next to the genuinely derived spellings (mxlp, kuxlp, km), a custom dimensionless symbol and a row with a tex_repr: every such symbol is a subject on every "
          "persistence mechanism; (e) PROVENANCE OF THE ORIGINAL'S UNIT - the subject's unit is not parsed from its string but left by arithmetic and bound to a custom registry "
          "(builders: Unit(registry=reg), u/u, units of q/q, (u*u)/u, (u**2)**0.5, sqrt(q*q), units of a conversion result, Unit.copy()) and then persisted; follow-ups "
          "resolve custom symbols of the original's registry (custom dimensionless xnd, prefix-spelled kxlp) in the registry the RESTORED object is bound to. Enumerated, not solved: subjects, routes, argument forms, histories, follow-up "
          "operations, partner units, order. NOT a solver statement: "
          "that the stored numbers survive pickle/savetxt (concrete byte-wise comparison on a fixed set of arrays, performed and "
          "reported as ground checks) and that registry tables survive (concrete row-by-row comparison). Copies that can carry terms "
          "(copy.copy, copy.deepcopy, q.copy() of a whole quantity) are additionally run with the symbolic payload inside."),
    design="DESIGN.md section 4 C11",
    technique="concrete persistence + symbolic execution of the real follow-up code over z3 real terms (differential: original vs restored); "
              "SMT obligations per path; counterexample replay on plain unyt")
EXPLANATION = (
    "Per case: a world (registry + subject unit + partner units, all with concrete scales) is built with the real registry API; the "
    "subject unit is sent through one persistence route concretely (real Unit/unyt_array __reduce__/__setstate__/__deepcopy__/copy, "
    "UnitRegistry.to_json/from_json/_correct_old_unit_registry/__deepcopy__, savetxt/loadtxt); then one follow-up operation of the battery "
    "(np.sin/cos/tan, + - * / and comparisons with same-dimension partners incl. K/degC/degF/delta guards and logarithmic guards, "
    "in_base/in_cgs/in_mks/in_base(system), to(string)/to(Unit)/to(custom unit), sqrt/powers, np.diff, Unit * / ** == hash, "
    "get_base_equivalent, list_same_dimensions, thermal equivalence) is executed by the real __array_ufunc__/_get_conversion_factor/"
    "unit-rule code on quantities whose payloads are z3 reals, once on the original and once on the restored unit. Obligation per "
    "path: pc & not(outcome_restored == outcome_original) is unsat. Order axis: 'OR' = original first then restored (lru caches of "
    "the unit rules are live in between); 'RO' = reference outcome of the original in a first world, caches cleared, second world, "
    "restored first, then the original again: restored == reference and original-after-restored == reference. "
    "Text-file argument forms (text:file[...]): savetxt(arrays, header/footer/delimiter/comments/fmt) -> loadtxt(delimiter/comments/usecols) "
    "of 1-3 columns in different units; the numbers and units of the neighbour columns are compared concretely (persist/other-columns), "
    "the subject's restored unit goes through a compact battery (unit-system conversion, guards, arithmetic and conversion with a "
    "partner, description). Restoration histories (history:<cast>/<route>/<history>): a cast S, C, D (the same unit string in registries with "
    "equal tables and different unit systems, or equal names and different scales) and T (S's original once more) is restored step by "
    "step or in one list / dict / tuple / nested container within one path - nothing is cleared between the steps and every restored "
    "object stays referenced until a `drop` step; `use` runs conversions on an earlier restored object, `edit` changes the registry of an "
    "earlier restored object (scale of a symbol x 3, a new symbol; or one of the two; or removal of the table symbol smoot), `editorig` makes the same "
    "edit in the registry of the ORIGINAL a member was restored from (members restored before it are then compared with the original of a fresh, "
    "unedited world; the units the user holds of the edited registry are made anew and members restored afterwards are compared with those), "
    "`useorig` runs conversions on the original before it is persisted; afterwards every restored member whose registry was not edited on "
    "purpose must give the same outcome as ITS original for all payloads (labels <member>:restored-vs-original/<family>/<aspect>), and its "
    "registry must still have the unit system and the rows (scale, dimensions, offset, prefixable of every symbol) that the original's registry had "
    "at the moment of the restoration - whatever was edited elsewhere since. Follow-ups of the histories include two-step programs (family chain): "
    "conversion to the partner / to base units / product, then a conversion to a unit given as a STRING, which the library resolves in the registry "
    "the intermediate result is bound to; and conversions to the symbol that only an edited registry has (must be refused alike). "
    "Row kinds and provenance (subjects <kind>:regspell.<symbol> and <kind>:<world>.<builder>(<symbol>)): the table of world regspell holds user rows whose names read as SI prefix + "
    "prefixable symbol but mean something else (an exact table key has precedence in unyt's lookup), so a route that re-derives, prunes or re-reads such rows changes scale or dimensions "
    "of the restored unit; subjects built by BUILDERS get their unit from arithmetic in a custom registry (the null unit of that registry in particular), so a route that writes the unit "
    "as text has to bring it back bound to an equal registry - the follow-ups to(str) / in_units / chains with a custom partner symbol are refused on the restored side otherwise; all "
    "of them run through the same differential battery with z3-real payloads and the registry-table comparison."
)
BOUNDS = {
    "quick": "17 subjects (table units: degree arcmin | K degC delta_degC | dB | dimensionless | C | m | km/s; custom registries: added xla, prefixed kxlp, "
             "offset xto, angle xga; modified xla and modified default pc; unit_system=cgs registry) x 9 routes (pickle 2/5 of quantity, pickle 5 of Unit, "
             "deepcopy/copy of the SYMBOLIC quantity itself, Unit.copy(deep), str, JSON, savetxt; + for one table subject per kind: 3-column text files read "
             "back with usecols=(2,0) and (1,)) x per-kind families of follow-ups (trig 3, exp 1, base 4, arith 7, unit 3, thermal equivalence; per partner unit: "
             "bin 6, conv 4) x order {original first, restored first with fresh-world reference} (three object-graph routes both orders, the others original-first); "
             "scalar and 2-element payloads; TEXT-FILE ARGUMENT FORMS: 22 of the 36 savetxt/loadtxt forms (header= 2 lines / 3 unit-name words / a 'Units' block; "
             "footer= 1 word / as many words as columns / unit names / 2 lines / a 'Units' block; header+footer; footer with 1 and 2 columns and with usecols; "
             "delimiter ',' and ' '; comments '%' and '# '; fmt %g and %10.5f; single array not in a list; bare ndarray column; 1 row x 1 and x 3 columns) for one table "
             "subject of the kinds angle, temp, nodim, compound, 2 forms for the other 6 table subjects, each with a compact battery of 13-15 follow-ups; "
             "RESTORATION HISTORIES: 4 casts (km in cgs / mks / imperial registries with the unchanged table, both ways round; kxlp in three custom registries "
             "with equal tables and cgs / mks / imperial; xla in registries with the same names and other scales) x routes {pickle 5 of quantity, deepcopy of "
             "quantity, pickle 5 of Unit; pickle 2 of quantity for the first cast} x 20 histories (C>S, S>C, [C,S], {C,S}, S>T, C>D>S, [C,D,S], C>use(C)>S, "
             "C>drop(C)>S, C>edit(C)>S, S>C>edit(C), S>T>edit(T); original edited afterwards: S>editorig(S), S>T>editorig(S), S>editorig(S)>T, C>S>editorig(C), "
             "[C,S]>editorig(S); edit kinds: S>rescale-orig(S)>T, S>T>rescale(T), S>shrink-orig(S)>T; edits of a restored registry not on the pickled-Unit route); "
             "+ deepcopy of the registry for the last cast; + 3 casts in mks registries (xla / kxlp / km; two members dump the SAME JSON text) x registry JSON x the 20 histories; "
             "x 13 follow-ups per restored member (in_base, in_cgs, get_base_equivalent, to(str), to(Unit), + partner, describe, the two-step chains "
             "to(str)>to(own), mul>to(own**2), in_base>to(own), to(str)>to(late symbol), reparse>in_base, and to(removed symbol)), restored-first order for 3 histories on pickle 5, "
             "fresh-world reference for every history that edits an original; "
             "ROW KINDS / PROVENANCE: 10 more subjects (regspell: kxlp, cs, nm, Mxlp, xnd; null unit of regspell, u/u in regadd and in the default registry, units of q/q in the cgs registry, (u*u)/u in regadd) "
             "x 6 routes (pickle 5 of quantity - both orders - and of Unit, deepcopy / copy of the symbolic quantity, str, JSON) x the per-kind families with partners that are custom symbols "
             "(xnd, kxlp, xlp, mxlp); + the JSON history cast kxlp@regspell | kxlp@regadd (derived) | nm@regspell x 20 histories; "
             "+ 320 registry-table cases (one per subject x route / form); + 150 concrete value round-trip cases",
    "thorough": "57 subjects (adds rad lat mas degF R delta_degF mK kdegC Np B percent statC T G A V ohm Msun erg s, 9 compounds, more "
                "units of the custom / modified / cgs registries) x 7 routes for every added subject (15 for the 17 subjects of the quick tier), all 32 routes (pickle 2,3,4,5 of Unit / quantity / array, nested "
                "containers, deepcopy of array / nested, copy.copy, q.copy(), repr, 5 usecols forms) for one subject per (kind, registry) x full families (trig 4, exp 2, "
                "base 10, arith 20, unit 9, equiv 2; per partner: bin 19, conv 14) x both orders on object-graph routes (by-reference/text routes: both orders for one subject per (kind, registry), else original-first); partner restored as well for "
                "angle/temperature/logarithmic subjects on 3 routes; TEXT-FILE ARGUMENT FORMS: all 36 forms for one table subject per kind (7), 5 comment-line / delimiter forms for "
                "every other table subject; RESTORATION HISTORIES: the 4 casts x {pickle 2, 5 of quantity, deepcopy of quantity, pickle 5 of Unit} x all 45 histories "
                "(adds (S,C), [S,C], [S,T], C>S>D, S>C>D, {S,C,D}, [C,S]>D, C>[D,S] nested, S>use(S)>C, C>S>drop(C), C>S>edit(C), [S,C]>edit(C), T>edit(T)>S, "
                "{S,T}>editorig(S), useorig(S)>S>editorig(S), S>use(S)>editorig(S), S>editorig(S)>use(S), S>editorig(S)>T>edit(T), S>C>editorig(S)>edit(C), "
                "T>rescale(T)>S, C>S>rescale-orig(C), S>extend-orig(S)>T, S>T>extend(T), S>T>shrink(T), T>shrink(T)>S) and x 10 more routes "
                "(pickle 3, 4 of quantity, pickle 2, 5 of array, pickle 2 of Unit, deepcopy of array / Unit, Unit.copy(deep=True), copy.deepcopy / copy.copy of the registry) "
                "x the 20 quick histories, 37 follow-ups per restored member (20 of the one-step battery, 15 of the chain family, 2 on the removed symbol); 6 more casts "
                "(xla cgs / mks twins, erg vs J, km/s, degC, C / statC, modified pc) x {pickle 5, deepcopy of quantity} x 45 histories x 13 follow-ups; the 3 mks casts x registry JSON "
                "x 45 histories x 37 follow-ups; restored-first order on {pickle 5, deepcopy of quantity, JSON} for the histories without registry edits, fresh-world reference for "
                "every history that edits an original; ROW KINDS / PROVENANCE: 26 subjects (adds derived spellings mxlp, kuxlp, compounds kxlp/cs, nm/kxlp, the cgs twin of regspell, "
                "builders root, qsqrt, conv, unitcopy, null / ratio / qratio in regadd, regcgs, regspell and the default registry, also for temperature and angle symbols) x 9 routes "
                "(adds pickle 2, Unit.copy(deep), repr) x full families, both orders on pickle 5 / deepcopy of the quantity; + the pickle / deepcopy history cast "
                "kxlp@regspell-cgs | regadd | regspell x 45 histories; + 1305 registry-table cases; + 224 concrete value round-trip cases",
}
OUTSIDE = ("PARTIAL. Not solver statements: (1) the persistence step itself is concrete - that stored NUMBERS survive pickle / savetxt / copies is a byte-wise "
           "comparison on 8 fixed arrays (float64 incl. inf/nan/denormal/strided/empty, float32, int64) x 10 routes (ground checks; the symbolic battery "
           "then ASSUMES restored payload == stored payload); (2) registry tables are compared row by row concretely; (3) scales and offsets of the "
           "persisted units are concrete (table values, fixed custom values), only the payloads x, y of the follow-up operations are symbols; subjects, "
           "routes, operations, partners and order are enumerated; "
           "(4) text-file argument forms and restoration histories are enumerated lists, not all programs: savetxt/loadtxt forms are the 36 listed ones (comment "
           "characters of ONE character as loadtxt documents, delimiters that numpy itself reads back, values that every fmt prints exactly, 1-3 columns, 1-3 rows); "
           "histories are the 45 listed two- to four-step ones over at most 3 registries, restored through the SAME route within a history; edits are the four "
           "listed kinds (x3 rescale of one symbol, one added length symbol, both, removal of smoot); histories through by-reference copies (copy.copy / "
           "q.copy() / Unit.copy() share the registry object BY DESIGN, an edit on either side is meant to show on the other), through text files (loadtxt reads in "
           "the default registry) and histories longer than four steps are outside; JSON histories are walked in mks registries only (the JSON text does not carry the "
           "unit system: known finding); what a registry edit does to the EDITED object itself, and to units made before the edit, is C12/C13; "
           "row kinds are the listed ones (prefix-spelled rows over two user-defined prefixable symbols and the built-in s, m; one custom dimensionless row; one tex_repr row), provenance is the 9 listed builders over "
           "single symbols - longer derivations, and provenance within the restoration histories, are outside. "
           "Outside altogether: pickle protocols 0 and 1 (sympy refuses them with "
           "NotImplementedError - checked that the refusal is loud); loadtxt(usecols=<bare int>) (documented as a sequence; refused with TypeError); savetxt/loadtxt of custom-registry units (loadtxt reads names in the default "
           "registry); HDF5 (h5py absent), dask arrays; the `name` attribute of arrays; raw hash values of units of different registries (they depend on "
           "the repr of the registry table by design); follow-up programs longer than two operations (the two-step chains are run in the restoration histories only, the main battery is one "
           "operation per cache epoch); trig follow-ups are decided for "
           "payloads in [0.5, 3] (sin/cos/tan are uninterpreted functions - on that interval every model of a linear-argument discrepancy replays); "
           "q**2 / q**0.5 operator forms (NumPy's scalar-power fast path differs for object arrays: np.square/np.sqrt/np.power are used); IEEE rounding (A1)")
ASSUMPTIONS = ["C11: the payload of the restored quantity is a separate symbol constrained equal to the stored payload (justified by the concrete byte-wise "
               "round-trip checks of the same run); each case first clears sympy's global expression cache, unyt's lru caches and puts the default "
               "registry's table/string cache back to the import state, so that outcomes do not depend on which cases ran before in the interpreter"]
CONFORM = {"quick": 40, "thorough": 120}
BATCH_REPLAY = True  # every case clears the lru caches itself and builds its own registries: replays are independent within one interpreter

NAMES = ["xla", "xlp", "xto", "xga", "xlg", "xtd", "xhn", "xnd"]
# (the rows of world `regspell` whose names DO read as SI prefix + prefixable symbol - kxlp, Mxlp, cs, nm - are that on purpose: see _world_spell)

# ---------------------------------------------------------------------------------------------------------------- worlds


def _world_default(ctx):
    return None


def _world_add(ctx, unit_system=None):
    """custom registry: added plain, prefixable, offset-temperature, delta-temperature, angle and logarithmic symbols"""
    UR, D = ctx.mods["UR"], ctx.mods["unyt"].dimensions
    reg = UR.UnitRegistry() if unit_system is None else UR.UnitRegistry(unit_system=unit_system)
    reg.add("xla", 2.5, D.length)
    reg.add("xlp", 0.25, D.length, prefixable=True)
    reg.add("xto", 0.5, D.temperature, offset=12.5)
    reg.add("xtd", 0.5, D.temperature)
    reg.add("xga", 0.125, D.angle)
    reg.add("xlg", 1.0, D.logarithmic)
    reg.add("xnd", 0.01, D.dimensionless)
    return reg


def _world_mod(ctx):
    """custom registry with a modified user symbol and a modified default symbol"""
    reg = _world_add(ctx)
    reg.modify("xla", 4.0)
    reg.modify("pc", 5.0)
    return reg


def _world_cgs(ctx, unit_system="cgs"):
    """custom registry whose unit system is cgs"""
    UR, D = ctx.mods["UR"], ctx.mods["unyt"].dimensions
    reg = UR.UnitRegistry(unit_system=unit_system) if unit_system else UR.UnitRegistry()
    reg.add("xla", 2.5, D.length)
    reg.add("xnd", 0.01, D.dimensionless)
    return reg


def _world_spell(ctx, unit_system=None):
    """custom registry whose table holds the KINDS OF ROWS a user can make, in particular rows whose names SPELL like an SI prefix in
    front of a prefixable symbol of the same table (user-defined or built-in). An exact table key has precedence over the prefix
    reading (UnitRegistry.__getitem__ / _lookup_unit_symbol), so these are symbols of their own with their own scale / dimensions
    and must come back as such; the genuinely derived spellings (mxlp, km) must keep agreeing too"""
    UR, D = ctx.mods["UR"], ctx.mods["unyt"].dimensions
    reg = UR.UnitRegistry() if unit_system is None else UR.UnitRegistry(unit_system=unit_system)
    reg.add("xlp", 0.25, D.length, prefixable=True)
    reg.add("kxlp", 7.0, D.length)                        # the prefix reading would be 250 m
    reg.add("Mxlp", 3.0, D.mass)                          # ... a length of 250 km
    reg.add("cs", 340.0, D.length / D.time)               # a sound speed; the prefix reading is the centisecond
    reg.add("nm", 1852.0, D.length)                       # a nautical mile; the prefix reading is the nanometre
    reg.add("uxlp", 0.5, D.length, prefixable=True)       # own prefixable row spelled micro-xlp: kuxlp is derived from IT
    reg.add("xnd", 0.01, D.dimensionless)
    reg.add("xla", 2.5, D.length, tex_repr=r"\ell_{a}")
    return reg


def _world_bare(unit_system):
    """custom registry with the unchanged default table and another unit system (table EQUAL to the default registry's)"""
    return lambda ctx: ctx.mods["UR"].UnitRegistry(unit_system=unit_system)


WORLDS = {"default": _world_default, "regadd": _world_add, "regmod": _world_mod, "regcgs": _world_cgs,
          # twins for the restoration histories: equal tables, different unit systems
          "cgs0": _world_bare("cgs"), "imp0": _world_bare("imperial"), "mks0": _world_bare("mks"),
          "regaddcgs": lambda ctx: _world_add(ctx, "cgs"), "regaddimp": lambda ctx: _world_add(ctx, "imperial"),
          "regxla": lambda ctx: _world_cgs(ctx, None),
          "regspell": _world_spell, "regspellcgs": lambda ctx: _world_spell(ctx, "cgs")}


class Subject:
    def __init__(self, kind, ustr, world="default", partners=(), targets=(), tag=None, build="str"):
        self.kind, self.ustr, self.world = kind, ustr, world
        self.partners, self.targets = list(partners), list(targets)
        self.build = build     # PROVENANCE of the original's unit: parsed from the string, or the result of unit / quantity arithmetic
        self.tag = tag or ustr.replace("/", "_per_").replace("*", ".")
        if build != "str":
            self.tag = f"{build}({self.tag})"

    @property
    def id(self):
        w = "" if self.world == "default" else self.world + "."
        return f"{self.kind}:{w}{self.tag}"


# ---------------------------------------------------------------------------------------------------------------- routes

HI = pickle.HIGHEST_PROTOCOL


def _mk_unit(ctx, ustr, reg):
    Unit = ctx.mods["unyt"].Unit
    return Unit(ustr, registry=reg) if reg is not None else Unit(ustr)


def _null(ctx, s, reg):
    Unit = ctx.mods["unyt"].Unit
    return Unit(registry=reg) if reg is not None else Unit()


def _q1(ctx, s, reg, v=1.0):
    return ctx.mods["unyt"].unyt_quantity(v, _mk_unit(ctx, s, reg))


# PROVENANCE of the subject's unit: how the ORIGINAL got it. A unit that was never parsed from its own string (the null unit of a
# custom registry left by a ratio, a unit left by products / roots / conversions) is still bound to the registry of its operands;
# whatever route writes the unit as text and parses it again has to bring it back bound to an equal registry
BUILDERS = {
    "str": _mk_unit,
    "null": _null,                                                                   # Unit(registry=reg)
    "ratio": lambda ctx, s, reg: _mk_unit(ctx, s, reg) / _mk_unit(ctx, s, reg),      # u / u   (null unit for an atomic u)
    "qratio": lambda ctx, s, reg: (_q1(ctx, s, reg, 3.0) / _q1(ctx, s, reg, 2.0)).units,   # units of q / q
    "muldiv": lambda ctx, s, reg: (_mk_unit(ctx, s, reg) * _mk_unit(ctx, s, reg)) / _mk_unit(ctx, s, reg),
    "root": lambda ctx, s, reg: (_mk_unit(ctx, s, reg) ** 2) ** 0.5,
    "qsqrt": lambda ctx, s, reg: np.sqrt(_q1(ctx, s, reg, 4.0) * _q1(ctx, s, reg, 9.0)).units,
    "conv": lambda ctx, s, reg: _q1(ctx, s, reg).in_base().to(s).units,              # units of a conversion result
    "unitcopy": lambda ctx, s, reg: _mk_unit(ctx, s, reg).copy(),
}


def _build_unit(ctx, subj, reg):
    return BUILDERS[subj.build](ctx, subj.ustr, reg)


def _qty(ctx, u, arr=False):
    unyt = ctx.mods["unyt"]
    if arr:
        return unyt.unyt_array(np.array([1.0, 2.0]), u)
    return unyt.unyt_quantity(1.0, u)


def r_pickle_unit(proto):
    def f(ctx, u, reg):
        return pickle.loads(pickle.dumps(u, protocol=proto))
    return f


def r_pickle_qty(proto, arr=False):
    def f(ctx, u, reg):
        return pickle.loads(pickle.dumps(_qty(ctx, u, arr), protocol=proto)).units
    return f


def r_pickle_nested(ctx, u, reg):
    box = {"a": [_qty(ctx, u, True), u], "b": (_qty(ctx, u), "text"), "u": u}
    back = pickle.loads(pickle.dumps(box, protocol=HI))
    return back["a"][0].units


def r_pickle_nested_unit(ctx, u, reg):
    box = {"a": [_qty(ctx, u, True), u], "b": (_qty(ctx, u), "text"), "u": u}
    back = pickle.loads(pickle.dumps(box, protocol=HI))
    return back["u"]


def r_deepcopy_nested(ctx, u, reg):
    box = {"a": [_qty(ctx, u, True), u], "b": (_qty(ctx, u), "text")}
    return copy.deepcopy(box)["b"][0].units


def r_json(ctx, u, reg):
    UR = ctx.mods["UR"]
    src = reg if reg is not None else u.registry
    r2 = UR.UnitRegistry.from_json(src.to_json())
    return ctx.mods["unyt"].Unit(str(u.expr), registry=r2)   # the symbol names, not the pretty string (that is route text:str)


def r_savetxt(ctx, u, reg):
    unyt = ctx.mods["unyt"]
    a = unyt.unyt_array(np.array([1.0, 2.0, 3.0]), u)
    b = unyt.unyt_array(np.array([4.0, 5.0, 6.0]), "dimensionless")
    fd, fn = tempfile.mkstemp(suffix=".txt", prefix="c11_")
    os.close(fd)
    try:
        unyt.savetxt(fn, [a, b])
        ra, rb = unyt.loadtxt(fn)
    finally:
        os.unlink(fn)
    return ra.units


def r_savetxt_cols(usecols, pos, delimiter=",", header=False):
    """a file of three columns in different units, the subject in file column `pos`; read back with loadtxt(usecols=...):
    the array that holds the subject's column must carry the subject's unit (and its numbers)"""
    def f(ctx, u, reg):
        unyt = ctx.mods["unyt"]
        cols = [unyt.unyt_array(np.array([4.0, 5.0, 6.0]), "km"), unyt.unyt_array(np.array([7.0, 8.0, 9.0]), "s"),
                unyt.unyt_array(np.array([0.5, 0.25, 0.125]), "g")]
        mine = np.array([1.0, 2.0, 3.0])
        cols[pos] = unyt.unyt_array(mine, u)
        fd, fn = tempfile.mkstemp(suffix=".txt", prefix="c11_")
        os.close(fd)
        try:
            kw = dict(header="two lines\nof free text") if header else {}
            unyt.savetxt(fn, cols, delimiter=delimiter, **kw)
            ret = unyt.loadtxt(fn, delimiter=delimiter, usecols=usecols)
        finally:
            os.unlink(fn)
        order = list(usecols) if isinstance(usecols, (tuple, list)) else [usecols]
        back = ret if not isinstance(ret, tuple) else ret[order.index(pos)]
        if not np.array_equal(np.asarray(back.d), mine):
            raise AssertionError(f"column {pos} read with usecols={usecols}: numbers {np.asarray(back.d)!r} are not the stored {mine!r}")
        return back.units
    return f


class FileForm:
    """one argument form of the savetxt -> loadtxt round trip: which columns, how many rows, the keyword arguments of savetxt
    (header / footer / delimiter / comments / fmt) and of loadtxt (delimiter / comments / usecols), how `arrays` is handed over"""

    def __init__(self, ncols=3, pos=0, nrows=3, save=None, load=None, single=False, bare=None):
        self.ncols, self.pos, self.nrows = ncols, pos, nrows
        self.save, self.load = dict(save or {}), dict(load or {})
        self.single = single      # savetxt(fname, array) instead of savetxt(fname, [array])
        self.bare = bare          # index of a column handed over as a plain ndarray (documented to come back dimensionless)


# the columns next to the subject's: units whose names are NOT the words used in the footers/headers below
_FILE_OTHERS = [("km", [4.0, 5.0, 6.0]), ("s", [7.0, 8.0, 9.0]), ("g", [0.5, 0.25, 0.125])]
_FILE_MINE = [1.0, 2.0, 3.0]


def r_textfile(form):
    """savetxt(arrays, **form.save) then loadtxt(**form.load): EVERY column must come back with its own numbers and its own unit.
    The subject's restored unit is returned for the symbolic follow-ups (the verdict on the subject's column is theirs); damaged
    neighbour columns are noted in ctx._c11_side (obligation persist/other-columns); a result of the wrong shape or the subject's
    numbers changed is a failed round trip (AssertionError -> persist/completes)"""
    def f(ctx, u, reg):
        unyt = ctx.mods["unyt"]
        n = form.nrows
        cols, want = [], []
        for k in range(form.ncols):
            un, vals = (u, _FILE_MINE) if k == form.pos else _FILE_OTHERS[k]
            vals = np.array(vals[:n])
            if form.bare == k:
                cols.append(vals)
                want.append((vals, "dimensionless"))
            else:
                a = unyt.unyt_array(vals, un)
                cols.append(a)
                want.append((vals, str(a.units.expr)))
        fd, fn = tempfile.mkstemp(suffix=".txt", prefix="c11_")
        os.close(fd)
        try:
            unyt.savetxt(fn, cols[0] if form.single else cols, **form.save)
            ret = unyt.loadtxt(fn, **form.load)
        finally:
            os.unlink(fn)
        usecols = form.load.get("usecols")
        order = list(range(form.ncols)) if usecols is None else (list(usecols) if isinstance(usecols, (tuple, list)) else [usecols])
        got = list(ret) if isinstance(ret, tuple) else [ret]
        if len(got) != len(order):
            raise AssertionError(f"{len(order)} columns requested, {len(got)} arrays returned: {ret!r}"[:300])
        mine, side = None, []
        for k, back in zip(order, got):
            vals, ustr = want[k]
            if not hasattr(back, "units"):
                raise AssertionError(f"column {k} came back without units: {back!r}"[:300])
            # a one-row one-column file comes back 0-d: same number, the dimensionality of a single number is not compared
            same_numbers = np.array_equal(np.atleast_1d(np.asarray(back.d)), vals)
            if k == form.pos:
                if not same_numbers:
                    raise AssertionError(f"column {k}: numbers {np.asarray(back.d)!r} are not the stored {vals!r}")
                mine = back.units
            else:
                if not same_numbers:
                    side.append(f"column {k}: numbers {np.asarray(back.d)!r} are not the stored {vals!r}")
                if str(back.units.expr) != ustr:
                    side.append(f"column {k}: unit {ustr} came back as {back.units.expr}")
        if mine is None:
            raise AssertionError("subject column not read")
        ctx._c11_side = side
        return mine
    return f


_H1, _H2 = "halo catalogue", "two lines\nof free text"
FILE_FORMS = {
    # ---- comment lines BEFORE the data (header=) ...
    "header=1line": FileForm(save=dict(header=_H1)),
    "header=2lines": FileForm(pos=1, save=dict(header=_H2)),
    "header=blank-line": FileForm(save=dict(header="first\n\nthird\n")),
    "header=3words": FileForm(save=dict(header="pc yr kg")),                       # as many words as columns, all unit names
    "header=Units-block": FileForm(save=dict(header=" Units\n pc\tyr\tkg")),          # looks like a unit header of its own
    "header=numbers": FileForm(save=dict(header="1.0 2.0 3.0")),
    # ---- ... and AFTER the data (footer=)
    "footer=1word": FileForm(save=dict(footer="checked")),
    "footer=3words": FileForm(pos=2, save=dict(footer="3 rows written")),           # as many words as columns
    "footer=unit-names": FileForm(save=dict(footer="pc yr kg")),                   # ... all of them unit names
    "footer=2lines": FileForm(pos=1, save=dict(footer="written by the pipeline\npc yr kg")),
    "footer=Units-block": FileForm(save=dict(footer=" Units\n pc\tyr\tkg")),
    "footer=blank-line": FileForm(save=dict(footer="\nend")),
    "header+footer": FileForm(save=dict(header=_H1, footer="end of catalogue")),
    "header2+footer-units": FileForm(pos=2, save=dict(header=_H2, footer="pc yr kg")),
    "footer,cols=1": FileForm(ncols=1, save=dict(footer="checked")),
    "footer,cols=1,single": FileForm(ncols=1, single=True, save=dict(footer="pc")),
    "footer,cols=2": FileForm(ncols=2, pos=1, save=dict(footer="3 rows")),
    "footer,usecols(2,0)": FileForm(save=dict(footer="3 rows written"), load=dict(usecols=(2, 0))),
    "footer,usecols(1,)": FileForm(pos=1, save=dict(footer="checked"), load=dict(usecols=(1,))),
    # ---- delimiter / comment character / number format
    "delimiter=comma": FileForm(save=dict(delimiter=","), load=dict(delimiter=",")),
    "delimiter=space": FileForm(pos=1, save=dict(delimiter=" "), load=dict(delimiter=" ")),
    "delimiter=semicolon,footer": FileForm(save=dict(delimiter=";", footer="a;b;c"), load=dict(delimiter=";")),
    "comments=%": FileForm(save=dict(comments="%", header=_H1, footer="checked"), load=dict(comments="%")),
    "comments=!": FileForm(pos=2, save=dict(comments="!"), load=dict(comments="!")),
    "comments=hash-space": FileForm(save=dict(comments="# ", header=_H1, footer="pc yr kg")),   # numpy's own default for savetxt
    "fmt=%.6f": FileForm(save=dict(fmt="%.6f")),
    "fmt=%g,footer": FileForm(pos=1, save=dict(fmt="%g", footer="checked")),
    "fmt=%10.5f": FileForm(save=dict(fmt="%10.5f")),                               # the docstring's example format (padded)
    "fmt=list": FileForm(pos=2, save=dict(fmt=["%.18e", "%.3f", "%g"])),
    # ---- how the arrays are handed over
    "cols=1": FileForm(ncols=1), "cols=1,single": FileForm(ncols=1, single=True, save=dict(header=_H1)),
    "cols=2": FileForm(ncols=2, pos=1),
    "bare-column": FileForm(bare=1, save=dict(footer="checked")),
    "rows=1,cols=1": FileForm(ncols=1, nrows=1, save=dict(footer="checked")),
    "rows=1,cols=3": FileForm(nrows=1),
    "rows=2,cols=3": FileForm(nrows=2, pos=1, save=dict(footer="2 rows")),
}
FILE_ROUTES = {f"text:file[{k}]": r_textfile(v) for k, v in FILE_FORMS.items()}
FILE_ROUTES_QUICK = [f"text:file[{k}]" for k in (
    "header=2lines", "header=3words", "header=Units-block", "footer=1word", "footer=3words", "footer=unit-names", "footer=2lines",
    "footer=Units-block", "header+footer", "footer,cols=1,single", "footer,cols=2", "footer,usecols(2,0)", "delimiter=comma",
    "delimiter=space", "comments=%", "comments=hash-space", "fmt=%g,footer", "fmt=%10.5f", "cols=1,single", "bare-column",
    "rows=1,cols=1", "rows=1,cols=3")]


ROUTES = {
    **FILE_ROUTES,
    "text:savetxt.cols(2,0)": r_savetxt_cols((2, 0), 2), "text:savetxt.cols(2,0)b": r_savetxt_cols((2, 0), 0),
    "text:savetxt.cols(1,)": r_savetxt_cols((1,), 1), "text:savetxt.cols(0,2)": r_savetxt_cols((0, 2), 2, delimiter="\t", header=True),
    "text:savetxt.cols(1,2,0)": r_savetxt_cols((1, 2, 0), 0),
    # (usecols=1, a bare int, is not a route: loadtxt documents `usecols : sequence` and refuses an int with TypeError)
    # object-graph serialisers: the sympy dimension expressions and the registry table are re-created
    "graph:pickle2.unit": r_pickle_unit(2), "graph:pickle3.unit": r_pickle_unit(3), "graph:pickle4.unit": r_pickle_unit(4),
    "graph:pickle5.unit": r_pickle_unit(5),
    "graph:pickle2.qty": r_pickle_qty(2), "graph:pickle3.qty": r_pickle_qty(3), "graph:pickle4.qty": r_pickle_qty(4),
    "graph:pickle5.qty": r_pickle_qty(5), "graph:pickle5.arr": r_pickle_qty(5, True),
    "graph:pickle.nested": r_pickle_nested, "graph:pickle.nested-unit": r_pickle_nested_unit,
    "graph:deepcopy.unit": lambda ctx, u, reg: copy.deepcopy(u),
    "graph:deepcopy.qty": lambda ctx, u, reg: copy.deepcopy(_qty(ctx, u)).units,
    "graph:deepcopy.arr": lambda ctx, u, reg: copy.deepcopy(_qty(ctx, u, True)).units,
    "graph:deepcopy.nested": r_deepcopy_nested,
    "graph:unitcopy.deep": lambda ctx, u, reg: u.copy(deep=True),
    "graph:deepcopy.symq": lambda ctx, u, reg: copy.deepcopy(_qty(ctx, u)).units,   # + QROUTES: the symbolic quantity itself is copied
    # by reference
    "ref:copy.unit": lambda ctx, u, reg: copy.copy(u),
    "ref:copy.qty": lambda ctx, u, reg: copy.copy(_qty(ctx, u)).units,
    "ref:qtycopy": lambda ctx, u, reg: _qty(ctx, u, True).copy().units,
    "ref:unitcopy": lambda ctx, u, reg: u.copy(),
    "ref:copy.symq": lambda ctx, u, reg: copy.copy(_qty(ctx, u)).units,
    "ref:qtycopy.symq": lambda ctx, u, reg: _qty(ctx, u).copy().units,
    # through text
    "text:str": lambda ctx, u, reg: _mk_unit(ctx, str(u), reg),
    "text:repr": lambda ctx, u, reg: _mk_unit(ctx, repr(u) if repr(u) != "(dimensionless)" else "dimensionless", reg),
    "text:json": r_json,
    "text:savetxt": r_savetxt,
}
# routes whose copy can carry solver terms: the follow-up runs on copy(q(x, original unit)) itself, payload included
QROUTES = {"graph:deepcopy.symq": copy.deepcopy, "ref:copy.symq": copy.copy, "ref:qtycopy.symq": lambda q: q.copy()}
PARTNER_RESTORED_ROUTES = {f"graph:pickle{HI}.qty", "graph:deepcopy.qty", f"graph:pickle{HI}.unit"}
DEFAULT_ONLY_ROUTES = {"text:savetxt"} | {r for r in ROUTES if r.startswith("text:savetxt.cols")} | set(FILE_ROUTES)  # loadtxt reads unit names in the default registry: custom symbols are outside

# ---------------------------------------------------------------------------------------------------------------- follow-ups


class Env:
    """what a follow-up operation sees: the unit under test (original or restored), fresh quantities around the shared payloads"""

    def __init__(self, ctx, u, world_reg, partner_units, x, y, x2, qroute=None, utest=None):
        self.ctx, self.reg, self.PU, self.x, self.y, self.x2 = ctx, world_reg, partner_units, x, y, x2
        self.unyt = ctx.mods["unyt"]
        self.qroute = qroute
        self._u0 = u                                   # unit the quantities are built around
        self.u = utest if utest is not None else u     # unit handed to unit-level follow-ups

    def _wrap(self, q):
        return q if self.qroute is None else self.qroute(q)

    @property
    def q(self):
        return self._wrap(self.ctx.quantity(self.x, self._u0))

    @property
    def arr(self):
        return self._wrap(self.ctx.quantity(self.x2, self._u0))

    def P(self, name):
        return self.PU[name]

    def p(self, name):
        return self.ctx.quantity(self.y, self.PU[name])


def _inplace(q, f):
    c = q.copy()
    r = f(c)
    return c if r is None else r


def _iadd(a, b):
    a += b
    return a


def _isub(a, b):
    a -= b
    return a


# name -> (function(E[, partner name]), payload domain flags)
UNARY = {
    "trig:sin": (lambda E: np.sin(E.q), "trig"), "trig:cos": (lambda E: np.cos(E.q), "trig"), "trig:tan": (lambda E: np.tan(E.q), "trig"),
    "trig:sin-arr": (lambda E: np.sin(E.arr), "trig"),
    "exp:exp": (lambda E: np.exp(E.q), ""), "exp:log10": (lambda E: np.log10(E.q), "pos"),
    "base:in_base": (lambda E: E.q.in_base(), ""), "base:in_cgs": (lambda E: E.q.in_cgs(), ""), "base:in_mks": (lambda E: E.q.in_mks(), ""),
    "base:in_base(cgs)": (lambda E: E.q.in_base("cgs"), ""), "base:in_base(imperial)": (lambda E: E.q.in_base("imperial"), ""),
    "base:in_base(galactic)": (lambda E: E.q.in_base("galactic"), ""),
    "base:convert_to_base": (lambda E: _inplace(E.q, lambda c: c.convert_to_base()), ""),
    "base:convert_to_cgs": (lambda E: _inplace(E.q, lambda c: c.convert_to_cgs()), ""),
    "base:get_base_equivalent": (lambda E: E.ctx.quantity(E.x, E.u.get_base_equivalent()), ""),
    "base:get_cgs_equivalent": (lambda E: E.ctx.quantity(E.x, E.u.get_cgs_equivalent()), ""),
    "self:add": (lambda E: E.q + E.q, ""), "self:sub": (lambda E: E.q - E.q, ""), "self:mul": (lambda E: E.q * E.q, ""),
    "self:div": (lambda E: E.q / E.q, "nonzero"), "self:lt": (lambda E: E.q < E.q, ""), "self:eq": (lambda E: E.q == E.q, ""),
    "arith:sqrt": (lambda E: np.sqrt(E.q), "pos"), "arith:square": (lambda E: np.square(E.q), ""), "arith:power1.5": (lambda E: np.power(E.q, 1.5), "pos"),
    "arith:power3": (lambda E: np.power(E.q, 3), ""), "arith:recip": (lambda E: 1.0 / E.q, "nonzero"), "arith:neg": (lambda E: -E.q, ""),
    "arith:abs": (lambda E: abs(E.q), ""), "arith:scale": (lambda E: 2.5 * E.q, ""), "arith:mul-bare": (lambda E: E.q * E.y, ""),
    "arith:add-bare": (lambda E: E.q + E.y, ""), "arith:sum-arr": (lambda E: E.arr.sum(), ""), "arith:prod-arr": (lambda E: E.arr.prod(), ""),
    "arith:diff": (lambda E: np.diff(E.arr), ""), "arith:ediff1d": (lambda E: np.ediff1d(E.arr), ""),
    "unit:pow2": (lambda E: E.ctx.quantity(E.x, E.u ** 2), ""), "unit:sqrt": (lambda E: E.ctx.quantity(E.x, E.u ** 0.5), ""),
    "unit:inv": (lambda E: E.ctx.quantity(E.x, E.u ** -1), ""), "unit:rmul-number": (lambda E: E.x * E.u, ""),
    "unit:simplify": (lambda E: E.ctx.quantity(E.x, (E.u * E.u / E.u).simplify()), ""),
    "unit:describe": (lambda E: (str(E.u), repr(E.u), E.u.latex_repr, bool(E.u.is_dimensionless), bool(E.u.is_atomic), bool(E.u.is_code_unit),
                                 E.u.dimensions, E.u.base_value, E.u.base_offset), ""),
    "unit:hash-consistent": (lambda E: _hash_consistent(E), ""),
    "unit:has_equivalent(thermal)": (lambda E: bool(E.u.has_equivalent("thermal")), ""),
    "unit:list_equivalencies": (lambda E: _captured(E.u.list_equivalencies), ""),
    "equiv:thermal": (lambda E: E.q.to_equivalent("eV", "thermal"), ""),
    "equiv:spectral": (lambda E: E.q.to_equivalent("Hz", "spectral"), "pos"),
    # two-step follow-ups: the second step is a STRING looked up in the registry that the result of the first step is bound to
    "chain:in_base>to(own)": (lambda E: E.q.in_base().to(_own(E)), ""),
    "chain:in_cgs>to(own)": (lambda E: E.q.in_cgs().to(_own(E)), ""),
    "chain:mul>to(own**2)": (lambda E: (E.q * E.q).to(f"({_own(E)})**2"), ""),
    "chain:scale>in_units(own)": (lambda E: (2.5 * E.q).in_units(_own(E)), ""),
    "chain:reparse>in_base": (lambda E: E.ctx.quantity(E.x, E.unyt.Unit(_own(E), registry=E.u.registry)).in_base(), ""),
    "chain:reparse(own**2)>in_mks": (lambda E: E.ctx.quantity(E.x, E.unyt.Unit(f"({_own(E)})**2", registry=E.u.registry)).in_mks(), ""),
    "chain:to(late)": (lambda E: E.q.to(LATE), ""),          # a symbol that only a registry edited later knows: refusal
    "chain:registry-has(late)": (lambda E: LATE in E.u.registry, ""),
    # a table symbol that a `remove` edit takes out of one registry (family `spare`)
    "spare:to(spare)": (lambda E: E.q.to(SPARE), ""), "spare:registry-has(spare)": (lambda E: SPARE in E.u.registry, ""),
}
LATE = "xhn"   # the symbol that `edit` / `editorig` steps add to ONE registry
SPARE = "smoot"  # the table symbol that a `remove` edit takes out of ONE registry (none of the subjects / partners is built on it)


def _own(E):
    """the spelling of the unit under test (symbol names, as pickle / savetxt / JSON users write it)"""
    return str(E.u.expr)



def _hash_consistent(E):
    """a unit finds itself and an equal unit of its own registry in dicts and sets (raw hash values are not compared: in unyt they
    depend on the repr of the registry table, so equal units of two registries hash differently with or without persistence)"""
    twin = E.unyt.Unit(str(E.u.expr), registry=E.u.registry)
    d = {E.u: "found"}
    return (d.get(E.u), d.get(twin), len({E.u, twin}), hash(E.u) == hash(twin), bool(E.u == twin))


def _captured(f):
    import contextlib
    import io
    buf = io.StringIO()
    with contextlib.redirect_stdout(buf):
        f()
    return buf.getvalue()


BINARY = {
    "bin:add": (lambda E, n: E.q + E.p(n), ""), "bin:radd": (lambda E, n: E.p(n) + E.q, ""),
    "bin:sub": (lambda E, n: E.q - E.p(n), ""), "bin:rsub": (lambda E, n: E.p(n) - E.q, ""),
    "bin:mul": (lambda E, n: E.q * E.p(n), ""), "bin:rmul": (lambda E, n: E.p(n) * E.q, ""),
    "bin:div": (lambda E, n: E.q / E.p(n), "nonzero"), "bin:rdiv": (lambda E, n: E.p(n) / E.q, "nonzero"),
    "bin:lt": (lambda E, n: E.q < E.p(n), ""), "bin:ge": (lambda E, n: E.p(n) >= E.q, ""), "bin:eq": (lambda E, n: E.q == E.p(n), ""),
    "bin:ne": (lambda E, n: E.q != E.p(n), ""),
    "bin:maximum": (lambda E, n: np.maximum(E.q, E.p(n)), ""), "bin:np.add": (lambda E, n: np.add(E.q, E.p(n)), ""),
    "bin:np.subtract": (lambda E, n: np.subtract(E.p(n), E.q), ""),
    "bin:iadd": (lambda E, n: _iadd(E.q, E.p(n)), ""), "bin:isub": (lambda E, n: _isub(E.q, E.p(n)), ""),
    "bin:riadd": (lambda E, n: _iadd(E.p(n), E.q), ""),
    "bin:arr-add": (lambda E, n: E.arr + E.p(n), ""),
    "conv:to(Unit)": (lambda E, n: E.q.to(E.P(n)), ""), "conv:to(str)": (lambda E, n: E.q.to(n), ""),
    "conv:from(Unit)": (lambda E, n: E.p(n).to(E.u), ""), "conv:in_units": (lambda E, n: E.q.in_units(n), ""),
    "conv:to_value": (lambda E, n: E.q.to_value(n), ""), "conv:convert_to_units": (lambda E, n: _inplace(E.q, lambda c: c.convert_to_units(n)), ""),
    "conv:factor": (lambda E, n: _factor(E, n), ""),
    "unit:mul": (lambda E, n: E.ctx.quantity(E.x, E.u * E.P(n)), ""), "unit:rmul": (lambda E, n: E.ctx.quantity(E.x, E.P(n) * E.u), ""),
    "unit:div": (lambda E, n: E.ctx.quantity(E.x, E.u / E.P(n)), ""), "unit:rdiv": (lambda E, n: E.ctx.quantity(E.x, E.P(n) / E.u), ""),
    "unit:eq": (lambda E, n: (bool(E.u == E.P(n)), bool(E.P(n) == E.u), bool(E.u != E.P(n)),
                             bool(E.u.same_dimensions_as(E.P(n))), bool(E.P(n).same_dimensions_as(E.u))), ""),
    "unit:qty-times-unit": (lambda E, n: E.p(n) * E.u, ""), "unit:qty-over-unit": (lambda E, n: E.p(n) / E.u, "nonzero"),
    "chain:to(str)>to(own)": (lambda E, n: E.q.to(n).to(_own(E)), ""),
    "chain:to(str)>to(str)": (lambda E, n: E.q.to(n).to(n), ""),
    "chain:to(str)>in_base": (lambda E, n: E.q.to(n).in_base(), ""),
    "chain:to(str)>to(late)": (lambda E, n: E.q.to(n).to(LATE), ""),
    "chain:to(Unit)>to(own)": (lambda E, n: E.q.to(E.P(n)).to(_own(E)), ""),
    "chain:add>to(own)": (lambda E, n: (E.q + E.p(n)).to(_own(E)), ""),
    "chain:partner>to(own)": (lambda E, n: E.p(n).to(_own(E)).to(n), ""),
}


def _factor(E, n):
    f, off = E.u.get_conversion_factor(E.P(n))
    return (E.x * f, 0.0 if off is None else off)


# ---------------------------------------------------------------------------------------------------------------- outcome comparison

def _unit_key(u):
    return (str(u.expr), u.dimensions, u.base_value, u.base_offset)


def norm(r):
    """a result of the library as a comparable structure"""
    if isinstance(r, tuple) and r and r[0] == "raise":
        return r
    if hasattr(r, "units") and hasattr(r, "d") and not getattr(r, "is_Unit", False):
        return ("qty", type(r).__name__, tuple(np.shape(r)), elements(r.d), _unit_key(r.units))
    if getattr(r, "is_Unit", False):
        return ("unit", _unit_key(r))
    if isinstance(r, (tuple, list)):
        return ("seq", type(r).__name__, [norm(e) for e in r])
    if isinstance(r, (SymReal, SymBool, bool, int, float, np.generic)):
        return ("val", (), [r if isinstance(r, (SymReal, SymBool)) else (r.item() if isinstance(r, np.generic) else r)])
    if isinstance(r, np.ndarray):
        return ("val", tuple(r.shape), elements(r))
    if isinstance(r, str) or r is None:
        return ("str", r)
    import sympy
    if isinstance(r, sympy.Basic):
        return ("sym", r)
    return ("str", repr(r))


def _eqv(a, b):
    if isinstance(a, SymBool) or isinstance(b, SymBool) or isinstance(a, (bool, np.bool_)) or isinstance(b, (bool, np.bool_)):
        return Iff(a, b)
    return close(a, b)


def _same_unit(ka, kb):
    return And(ka[0] == kb[0], bool(ka[1] == kb[1]), close(ka[2], kb[2], tol=0), close(ka[3], kb[3], tol=0))


def same(a, b):
    """list of (aspect, condition) that together say: normalised outcomes a and b are the same"""
    if a[0] != b[0]:
        return [("kind", False)]
    k = a[0]
    if k == "raise":
        return [("exception", a[1] == b[1])]
    if k == "qty":
        out = [("type", a[1] == b[1] and a[2] == b[2])]
        if len(a[3]) == len(b[3]):
            out.append(("value", And(*[_eqv(x, y) for x, y in zip(a[3], b[3])]) if a[3] else True))
        out.append(("unit", _same_unit(a[4], b[4])))
        return out
    if k == "unit":
        return [("unit", _same_unit(a[1], b[1]))]
    if k == "val":
        if a[1] != b[1] or len(a[2]) != len(b[2]):
            return [("type", False)]
        return [("value", And(*[_eqv(x, y) for x, y in zip(a[2], b[2])]) if a[2] else True)]
    if k == "seq":
        if a[1] != b[1] or len(a[2]) != len(b[2]):
            return [("type", False)]
        out = {}
        for x, y in zip(a[2], b[2]):
            for asp, c in same(x, y):
                out[asp] = And(out[asp], c) if asp in out else c
        return list(out.items())
    if k == "sym":
        return [("value", bool(a[1] == b[1]))]
    return [("value", a[1] == b[1])]


def show(n):
    s = repr(n)
    return s if len(s) < 260 else s[:257] + "..."


def outcome(f):
    r = call(f)
    if r[0] == "raise":
        return ("raise", type(r[1]).__name__)
    return norm(r[1])


class Ledger:
    """collects `same outcome` conditions of the follow-ups of one family; one obligation per (comparison, family, aspect) - the
    operations concerned are named in the info of the obligation, not in its label"""

    def __init__(self, family):
        self.family, self.items = family, {}

    def add(self, tag, op, a, b):
        for asp, cond in same(a, b):
            self.items.setdefault((tag, asp), []).append((op, cond, a, b))

    def discharge(self, ctx):
        for (tag, asp), lst in self.items.items():
            doubt = [(op, a, b) for op, c, a, b in lst if not (c is True)]
            info = {}
            if doubt:
                bad = [(op, a, b) for op, c, a, b in lst if c is False] or doubt
                info = dict(operations=",".join(op for op, _, _ in doubt)[:200], first=bad[0][0], original=show(bad[0][1]), under_test=show(bad[0][2]))
            ctx.require(f"{tag}/{self.family}/{asp}", And(*[c for _, c, _, _ in lst]), **info)


# ---------------------------------------------------------------------------------------------------------------- the case body

DOM_KW = {"": {}, "trig": dict(lo=0.5, hi=3), "pos": dict(pos=True), "nonzero": dict(nonzero=True)}
DOM_SFX = {"": "", "trig": "t", "pos": "p", "nonzero": "n"}


def _payloads(ctx, dom):
    """x, x1, y: the stored numbers. The restored quantity holds separate symbols xr, xr1 constrained EQUAL to the stored ones
    (that the numbers themselves survive persistence is established concretely, see make_values_case), so `same outcome` is
    decided by the solver under xr == x and not by syntactic identity of two terms."""
    kw, s = DOM_KW[dom], DOM_SFX[dom]
    x, x1, y = ctx.real("x" + s, **kw), ctx.real("x" + s + "1", **kw), ctx.real("y" + s, **kw)
    if ctx.symbolic and not ctx.pinned:
        xr, xr1 = ctx.real("xr" + s, **kw), ctx.real("xr" + s + "1", **kw)
        ctx.assume(exact_eq(xr, x))
        ctx.assume(exact_eq(xr1, x1))
    else:
        xr, xr1 = x, x1
    dt = object if ctx.symbolic else float
    a, ar = np.empty((2,), dtype=dt), np.empty((2,), dtype=dt)
    a[0], a[1], ar[0], ar[1] = x, x1, xr, xr1
    return dict(x=x, y=y, x2=a), dict(x=xr, y=y, x2=ar)


class World:
    """registry, subject unit, partner unit built with the real API, and the subject (and optionally the partner) persisted"""

    def __init__(self, ctx, subj, route, partner, pmode, persist=True):
        self.reg = WORLDS[subj.world](ctx)
        self.u = _build_unit(ctx, subj, self.reg)
        self.PU = {}
        if partner is not None:
            self.PU[partner] = _mk_unit(ctx, partner, self.reg)
        self.PR = dict(self.PU)
        self.qroute = QROUTES.get(route)
        if not persist:
            self.persist = None
            return
        ctx._c11_side = None
        self.persist = call(ROUTES[route], ctx, self.u, self.reg)
        self.side = ctx._c11_side     # text-file routes: what happened to the columns next to the subject's (None: not such a route)
        self.partner_persist = None
        if partner is not None and pmode == "pr" and self.persist[0] == "ok":
            self.partner_persist = call(ROUTES[route], ctx, self.PU[partner], self.reg)
            if self.partner_persist[0] == "ok":
                self.PR[partner] = self.partner_persist[1]

    def env_original(self, ctx, pay):
        return Env(ctx, self.u, self.reg, self.PU, pay["x"], pay["y"], pay["x2"])

    def env_restored(self, ctx, pay):
        if self.qroute is not None:
            # the whole symbolic quantity goes through the copy; partners as for the unit route
            return Env(ctx, self.u, self.reg, self.PR, pay["x"], pay["y"], pay["x2"], qroute=self.qroute, utest=self.persist[1])
        return Env(ctx, self.persist[1], self.reg, self.PR, pay["x"], pay["y"], pay["x2"])


def _clear(ctx):
    """the lru caches of unyt's unit rules (A7)"""
    from symx import shims
    shims.clear_caches(ctx.mods)


_SNAP = {}


def _reset(ctx):
    """start of a case: make the outcome independent of what ran before in this interpreter. Equal-but-not-identical dimension
    symbols created by an earlier unpickle stay in sympy's global expression cache (Pow(singleton, 1) may then hand back the
    non-singleton), and Unit.copy() can park units in the default registry's string cache: clear sympy's cache, the lru caches,
    and put the default registry's table and string cache back to their state at import."""
    from sympy.core.cache import clear_cache
    clear_cache()
    _clear(ctx)
    dr = ctx.mods["UR"].default_unit_registry
    if id(dr) not in _SNAP:
        _SNAP[id(dr)] = (dict(dr._unit_object_cache), dict(dr.lut))
    else:
        c, l = _SNAP[id(dr)]
        dr._unit_object_cache.clear()
        dr._unit_object_cache.update(c)
        dr.lut.clear()
        dr.lut.update(l)
        dr._unit_system_id = None


def _pn(partner):
    return "" if partner is None else "@" + partner.replace("/", "_per_").replace("*", ".")


def _op(op, partner):
    if op in UNARY:
        fn0, dom = UNARY[op]
        return (lambda E: fn0(E)), dom
    fb, dom = BINARY[op]
    return (lambda E: fb(E, partner)), dom


def make_case(subj, route, family, ops, partner, order, pmode="po"):
    """one case = one subject x one route x one order x a family of follow-up operations (run one after the other on the same
    world; the lru caches of the unit rules are cleared before each operation, registry-level state accumulates as in real use)"""
    prog = [(op,) + _op(op, partner) for op in ops]

    def h(ctx):
        _reset(ctx)
        pays = {}
        for _, _, dom in prog:
            if dom not in pays:
                pays[dom] = _payloads(ctx, dom)
        refs = None
        if order == "RO":
            # reference outcomes: the original in a world in which nothing has been persisted yet
            w0 = World(ctx, subj, route, partner, pmode, persist=False)
            refs = []
            for op, fn, dom in prog:
                _clear(ctx)
                refs.append(outcome(lambda: fn(w0.env_original(ctx, pays[dom][0]))))
            _clear(ctx)
        w = World(ctx, subj, route, partner, pmode)
        ctx.require("persist/completes", w.persist[0] == "ok", error=repr(w.persist[1])[:200])
        if w.persist[0] != "ok":
            return
        if w.side is not None:
            ctx.require("persist/other-columns", not w.side, problems="; ".join(w.side)[:240])
        if w.partner_persist is not None:
            ctx.require("persist/partner-completes", w.partner_persist[0] == "ok", error=repr(w.partner_persist[1])[:200])
            if w.partner_persist[0] != "ok":
                return
        led = Ledger(family)
        for i, (op, fn, dom) in enumerate(prog):
            po, pr = pays[dom]
            _clear(ctx)
            if order == "OR":
                a = outcome(lambda: fn(w.env_original(ctx, po)))
                b = outcome(lambda: fn(w.env_restored(ctx, pr)))
                led.add("restored-vs-original", op, a, b)
            else:
                b = outcome(lambda: fn(w.env_restored(ctx, pr)))
                a = outcome(lambda: fn(w.env_original(ctx, po)))
                led.add("restored-vs-original", op, refs[i], b)
                led.add("original-after-restored", op, refs[i], a)
            _observe(ctx, op, b)
        led.discharge(ctx)

    pm = "" if pmode == "po" else "+pr"
    return Case(f"C11/{subj.id}/{route}/{family}{_pn(partner)}{pm}/{order}", h, bounds="symbolic: payloads; concrete: scales, persistence",
                budget_s=300, max_paths=600, group=route.split(":")[0], weight=len(ops) * (3 if route.startswith("graph") else 1))


def _observe(ctx, op, b):
    if b[0] == "qty" and all(isinstance(v, (SymReal, float, int)) and not isinstance(v, bool) for v in b[3]):
        ctx.observe(op, list(b[3]))
    elif b[0] == "raise":
        ctx.observe(op, b[1])


# ---------------------------------------------------------------------------------------------------------------- restoration histories

class Cast:
    """who is restored in one process: S (the subject), companions C and D (the same or another unit string in OTHER registries:
    equal table + other unit system, same names + other scales, ...) and T, a second restoration of S's own original.
    members: role -> (world, unit string); partner: unit string for the binary follow-ups (built in each member's own registry);
    edit: symbol whose scale an `edit` step changes in the registry of a RESTORED member"""

    def __init__(self, tag, S, C, D, partner, edit, kind="plain"):
        self.tag, self.members, self.partner, self.edit, self.kind = tag, {"S": S, "C": C, "D": D, "T": S}, partner, edit, kind


def _ser(name, ctx=None):
    if name == "deepcopy":
        return copy.deepcopy
    if name == "unitcopy":
        return lambda u: u.copy(deep=True)
    if name in ("deepcopy.registry", "copy.registry"):
        # the REGISTRY is copied as an object of its own (copy.copy promises a table of its own too), the unit is spelled out in the copy
        cp = copy.deepcopy if name == "deepcopy.registry" else copy.copy
        return lambda u: ctx.mods["unyt"].Unit(str(u.expr), registry=cp(u.registry))
    if name == "json":
        # the registry goes through its JSON text (dumped anew for every restoration: an unchanged registry dumps the same text),
        # the unit is rebuilt from its symbol names in the reloaded registry
        def via_json(u):
            r2 = ctx.mods["UR"].UnitRegistry.from_json(u.registry.to_json())
            return ctx.mods["unyt"].Unit(str(u.expr), registry=r2)
        return via_json
    proto = int(name[len("pickle"):])
    return lambda obj: pickle.loads(pickle.dumps(obj, protocol=proto))


def _item(ctx, u, what):
    return u if what == "unit" else _qty(ctx, u, what == "arr")


def _units_of(x):
    return x if getattr(x, "is_Unit", False) else x.units


# route name -> (serialiser, what is serialised); solo and container restorations use the same pair
HROUTES = {
    "graph:pickle2.qty": ("pickle2", "qty"), "graph:pickle3.qty": ("pickle3", "qty"), "graph:pickle4.qty": ("pickle4", "qty"),
    "graph:pickle5.qty": ("pickle5", "qty"), "graph:pickle5.arr": ("pickle5", "arr"), "graph:pickle2.arr": ("pickle2", "arr"),
    "graph:pickle5.unit": ("pickle5", "unit"), "graph:pickle2.unit": ("pickle2", "unit"),
    "graph:deepcopy.qty": ("deepcopy", "qty"), "graph:deepcopy.arr": ("deepcopy", "arr"), "graph:deepcopy.unit": ("deepcopy", "unit"),
    "text:json": ("json", "unit"),   # containers: the members are dumped and reloaded one after the other
    "graph:unitcopy.deep": ("unitcopy", "unit"), "graph:deepcopy.registry": ("deepcopy.registry", "unit"), "graph:copy.registry": ("copy.registry", "unit"),
}
# routes that restore member by member (a container is restored element by element) and give every restored member a registry of its own
ELEMENTWISE = {"json", "unitcopy", "deepcopy.registry", "copy.registry"}
# histories: steps ("R", role) restore alone | ("T", roles, container) restore together in one container | ("drop", role) release the
# restored object and collect garbage | ("use", role) run conversions on the restored object (fills its registry's caches) |
# ("edit", role) change the registry of the RESTORED object (scale of cast.edit x 3, a new symbol xhn) |
# ("editorig", role) the same edit on the registry of the ORIGINAL the role was restored from - what was restored BEFORE must go on
# behaving as the original did when it was persisted (reference: the original in a fresh world), what is restored AFTERWARDS (from
# units made anew in the edited registry) must behave like the edited original | ("useorig", role) conversions on the original
HISTORIES = {
    # two steps
    "C>S": [("R", "C"), ("R", "S")], "S>C": [("R", "S"), ("R", "C")],
    "[C,S]": [("T", "CS", "list")], "[S,C]": [("T", "SC", "list")], "{C,S}": [("T", "CS", "dict")], "(S,C)": [("T", "SC", "tuple")],
    "S>T": [("R", "S"), ("R", "T")], "[S,T]": [("T", "ST", "list")],
    # three steps
    "C>D>S": [("R", "C"), ("R", "D"), ("R", "S")], "C>S>D": [("R", "C"), ("R", "S"), ("R", "D")], "S>C>D": [("R", "S"), ("R", "C"), ("R", "D")],
    "[C,D,S]": [("T", "CDS", "list")], "{S,C,D}": [("T", "SCD", "dict")], "[C,S]>D": [("T", "CS", "list"), ("R", "D")],
    "C>[D,S]": [("R", "C"), ("T", "DS", "nested")],
    "C>use(C)>S": [("R", "C"), ("use", "C"), ("R", "S")], "S>use(S)>C": [("R", "S"), ("use", "S"), ("R", "C")],
    "C>drop(C)>S": [("R", "C"), ("drop", "C"), ("R", "S")], "C>S>drop(C)": [("R", "C"), ("R", "S"), ("drop", "C")],
    "C>edit(C)>S": [("R", "C"), ("edit", "C"), ("R", "S")], "S>C>edit(C)": [("R", "S"), ("R", "C"), ("edit", "C")],
    "C>S>edit(C)": [("R", "C"), ("R", "S"), ("edit", "C")], "[S,C]>edit(C)": [("T", "SC", "list"), ("edit", "C")],
    "S>T>edit(T)": [("R", "S"), ("R", "T"), ("edit", "T")], "T>edit(T)>S": [("R", "T"), ("edit", "T"), ("R", "S")],
    # the SOURCE is edited after (between) restorations
    "S>editorig(S)": [("R", "S"), ("editorig", "S")], "S>T>editorig(S)": [("R", "S"), ("R", "T"), ("editorig", "S")],
    "S>editorig(S)>T": [("R", "S"), ("editorig", "S"), ("R", "T")], "C>S>editorig(C)": [("R", "C"), ("R", "S"), ("editorig", "C")],
    "[C,S]>editorig(S)": [("T", "CS", "list")] + [("editorig", "S")], "{S,T}>editorig(S)": [("T", "ST", "dict")] + [("editorig", "S")],
    "useorig(S)>S>editorig(S)": [("useorig", "S"), ("R", "S"), ("editorig", "S")],
    "S>use(S)>editorig(S)": [("R", "S"), ("use", "S"), ("editorig", "S")],
    "S>editorig(S)>use(S)": [("R", "S"), ("editorig", "S"), ("use", "S")],
    "S>editorig(S)>T>edit(T)": [("R", "S"), ("editorig", "S"), ("R", "T"), ("edit", "T")],
    "S>C>editorig(S)>edit(C)": [("R", "S"), ("R", "C"), ("editorig", "S"), ("edit", "C")],
    # KIND of the edit (the plain `edit` / `editorig` steps above rescale a symbol AND add one): rescale only, add only, remove only
    "S>rescale-orig(S)>T": [("R", "S"), ("editorig", "S", "scale"), ("R", "T")], "S>T>rescale(T)": [("R", "S"), ("R", "T"), ("edit", "T", "scale")],
    "T>rescale(T)>S": [("R", "T"), ("edit", "T", "scale"), ("R", "S")], "C>S>rescale-orig(C)": [("R", "C"), ("R", "S"), ("editorig", "C", "scale")],
    "S>extend-orig(S)>T": [("R", "S"), ("editorig", "S", "add"), ("R", "T")], "S>T>extend(T)": [("R", "S"), ("R", "T"), ("edit", "T", "add")],
    "S>shrink-orig(S)>T": [("R", "S"), ("editorig", "S", "remove"), ("R", "T")], "S>T>shrink(T)": [("R", "S"), ("R", "T"), ("edit", "T", "remove")],
    "T>shrink(T)>S": [("R", "T"), ("edit", "T", "remove"), ("R", "S")],
}
HISTORIES_QUICK = ["C>S", "S>C", "[C,S]", "{C,S}", "S>T", "C>D>S", "[C,D,S]", "C>use(C)>S", "C>drop(C)>S", "C>edit(C)>S", "S>C>edit(C)",
                   "S>T>edit(T)", "S>editorig(S)", "S>T>editorig(S)", "S>editorig(S)>T", "C>S>editorig(C)", "[C,S]>editorig(S)",
                   "S>rescale-orig(S)>T", "S>T>rescale(T)", "S>shrink-orig(S)>T"]
HIST_OPS = (["base:in_base", "base:in_cgs", "base:get_base_equivalent", "conv:to(str)", "conv:to(Unit)", "bin:add", "unit:describe",
             "chain:to(str)>to(own)", "chain:mul>to(own**2)", "chain:in_base>to(own)", "chain:to(str)>to(late)", "chain:reparse>in_base", "spare:to(spare)"],
            ["base:in_mks", "base:convert_to_base", "base:in_base(cgs)", "base:in_base(imperial)", "conv:in_units", "conv:from(Unit)", "bin:lt", "bin:mul",
             "self:mul", "arith:sqrt", "unit:eq", "unit:mul", "unit:hash-consistent",
             "chain:in_cgs>to(own)", "chain:scale>in_units(own)", "chain:reparse(own**2)>in_mks", "chain:to(late)", "chain:registry-has(late)", "spare:to(spare)", "spare:registry-has(spare)",
             "chain:to(str)>to(str)", "chain:to(str)>in_base", "chain:to(Unit)>to(own)", "chain:add>to(own)", "chain:partner>to(own)"])


def _edits_registry(hist):
    return any(st[0] == "edit" for st in HISTORIES[hist])


def _edits_original(hist):
    return any(st[0] == "editorig" for st in HISTORIES[hist])


def _rows(reg):
    """the part of a registry table that decides what a unit string means: scale, dimensions, offset, prefixable"""
    return {k: (v[0], str(v[1]), v[2], v[4]) for k, v in reg.lut.items()}


def make_history_case(cast, route, hist, ops, order):
    """several restorations in ONE path (nothing is cleared in between; every restored object stays referenced until it is
    dropped explicitly): afterwards every restored member whose registry was not edited on purpose must behave like its original -
    like the original AS IT WAS WHEN IT WAS PERSISTED if the original's registry was edited afterwards"""
    ser_name, what = HROUTES[route]
    steps = HISTORIES[hist]
    roles = []
    for st in steps:
        for r in (st[1] if st[0] in ("R", "T") else ""):
            if r not in roles:
                roles.append(r)
    prog = [(op,) + _op(op, cast.partner) for op in ops]
    src_of = lambda r: "S" if r == "T" else r   # noqa: E731

    def originals(ctx):
        regs, units, partners = {}, {}, {}
        for r in roles:
            src = src_of(r)
            if src not in regs:
                world, ustr = cast.members[src]
                regs[src] = WORLDS[world](ctx)
                units[src] = _mk_unit(ctx, ustr, regs[src])
                partners[src] = {cast.partner: _mk_unit(ctx, cast.partner, regs[src])}
            regs[r], units[r], partners[r] = regs[src], units[src], partners[src]
        return regs, units, partners

    def edit_registry(ctx, reg, kind="both"):
        # (the default registry and deep copies of it refuse modify() and remove(): then only the new symbol)
        if kind in ("both", "scale"):
            call(reg.modify, cast.edit, 3.0 * float(reg.lut[cast.edit][0]))
        if kind in ("both", "add"):
            reg.add(LATE, 7.0, ctx.mods["unyt"].dimensions.length)
        if kind == "remove":
            call(reg.remove, SPARE)

    def run_history(ctx, regs, units, partners):
        import gc
        ser = _ser(ser_name, ctx)
        elementwise = ser_name in ELEMENTWISE
        # live: restored units; at: the original unit / partner units / table rows each member was restored FROM;
        # frozen: members whose original's registry was edited after they had been restored
        # late: members restored from an original whose registry had been edited before (from units made anew in it)
        live, edited, frozen, late, at, orig_edited = {}, set(), set(), set(), {}, set()

        def restored(r, back):
            live[r] = _units_of(back)
            at[r] = (units[r], partners[r], _rows(units[r].registry))
            if src_of(r) in orig_edited:
                late.add(r)

        for st in steps:
            if st[0] == "R":
                restored(st[1], ser(_item(ctx, units[st[1]], what)))
            elif st[0] == "T":
                rs, kind = list(st[1]), st[2]
                items = [_item(ctx, units[r], what) for r in rs]
                if elementwise:
                    back = [ser(it) for it in items]
                elif kind == "dict":
                    back = ser({r: it for r, it in zip(rs, items)})
                    back = [back[r] for r in rs]
                elif kind == "nested":
                    back = ser({"outer": [items[0], {"inner": tuple(items[1:])}], "n": 1})
                    back = [back["outer"][0]] + list(back["outer"][1]["inner"])
                else:
                    back = list(ser(items if kind == "list" else tuple(items)))
                for r, b in zip(rs, back):
                    restored(r, b)
            elif st[0] in ("use", "useorig"):
                q = ctx.mods["unyt"].unyt_quantity(2.0, live[st[1]] if st[0] == "use" else units[st[1]])
                for f in (q.in_base, q.in_cgs, lambda: q.to(cast.partner), lambda: q + q, lambda: str(q.units), lambda: q.units.registry.unit_system_id,
                          lambda: q.to(cast.partner).to(str(q.units.expr)), lambda: (q * q).in_units(f"({q.units.expr})**2")):
                    call(f)
                del q
            elif st[0] == "drop":
                del live[st[1]]
                at.pop(st[1], None)
                gc.collect()
            elif st[0] == "edit":
                edit_registry(ctx, live[st[1]].registry, *st[2:])
                edited.add(st[1])
            elif st[0] == "editorig":
                src = src_of(st[1])
                reg = units[src].registry
                edit_registry(ctx, reg, *st[2:])
                orig_edited.add(src)
                # what the user holds of that registry from now on is made anew from the edited table
                world, ustr = cast.members[src]
                nu, npu = _mk_unit(ctx, ustr, reg), {cast.partner: _mk_unit(ctx, cast.partner, reg)}
                for r in list(units):
                    if src_of(r) == src:
                        units[r], partners[r] = nu, npu
                        if r in live:
                            frozen.add(r)
        return live, edited, frozen, late, at

    assert order == "RO" or not _edits_original(hist), "a history that edits an original needs the fresh-world reference (order RO)"

    def h(ctx):
        _reset(ctx)
        pays = {}
        for _, _, dom in prog:
            if dom not in pays:
                pays[dom] = _payloads(ctx, dom)
        refs = None
        if order == "RO":
            regs0, units0, partners0 = originals(ctx)
            refs = {}
            for r in roles:
                for i, (op, fn, dom) in enumerate(prog):
                    _clear(ctx)
                    po = pays[dom][0]
                    refs[r, i] = outcome(lambda: fn(Env(ctx, units0[r], regs0[r], partners0[r], po["x"], po["y"], po["x2"])))
            _clear(ctx)
        regs, units, partners = originals(ctx)
        done = call(run_history, ctx, regs, units, partners)
        ctx.require("history/completes", done[0] == "ok", error=repr(done[1])[:200])
        if done[0] != "ok":
            return
        live, edited, frozen, late, at = done[1]
        leds = {}
        for r in roles:
            if r not in live or r in edited:
                continue
            (u, pu, rows), ru = at[r], live[r]
            # ground: the restored unit, the unit system and the table of its registry (against the original at restoration time)
            ctx.require(f"{r}/unit/equal", bool(ru == u) and bool(u == ru) and str(ru.expr) == str(u.expr) and ru.base_value == u.base_value,
                        original=show(_unit_key(u)), restored=show(_unit_key(ru)))
            ctx.require(f"{r}/registry/unit_system", str(u.registry.unit_system) == str(ru.registry.unit_system),
                        original=str(u.registry.unit_system)[:40], restored=str(ru.registry.unit_system)[:40])
            lb = _rows(ru.registry)
            ctx.require(f"{r}/registry/rows-equal", all(rows.get(k) == lb.get(k) for k in set(rows) | set(lb) if k != SPARE),
                        changed=sorted(k for k in set(rows) | set(lb) if rows.get(k) != lb.get(k) and k != SPARE)[:6])
            ctx.require(f"{r}/registry/spare-row", rows.get(SPARE) == lb.get(SPARE), original=repr(rows.get(SPARE)), restored=repr(lb.get(SPARE)))
            if r in frozen:
                # the partner units of the restored side are spelled out in the restored object's own registry
                pr_units = call(lambda: {cast.partner: _mk_unit(ctx, cast.partner, ru.registry)})
                ctx.require(f"{r}/registry/partner-parses", pr_units[0] == "ok", error=repr(pr_units[1])[:160])
                if pr_units[0] != "ok":
                    continue
            for i, (op, fn, dom) in enumerate(prog):
                po, pr = pays[dom]
                led = leds.setdefault(op.split(":")[0], Ledger(op.split(":")[0]))
                _clear(ctx)
                if r in frozen:
                    # the original has moved on: the reference is the original in the fresh world, before any edit
                    b = outcome(lambda: fn(Env(ctx, ru, ru.registry, pr_units[1], pr["x"], pr["y"], pr["x2"])))
                    led.add(f"{r}:restored-vs-original", op, refs[r, i], b)
                    if r == "S":
                        _observe(ctx, op, b)
                    continue
                eo = lambda: fn(Env(ctx, u, regs[r], pu, po["x"], po["y"], po["x2"]))
                er = lambda: fn(Env(ctx, ru, regs[r], pu, pr["x"], pr["y"], pr["x2"]))
                if order == "OR" or r in late:
                    # (late: the reference is the edited original itself, as it is now)
                    a, b = outcome(eo), outcome(er)
                    led.add(f"{r}:restored-vs-original", op, a, b)
                else:
                    b, a = outcome(er), outcome(eo)
                    led.add(f"{r}:restored-vs-original", op, refs[r, i], b)
                    led.add(f"{r}:original-after-restored", op, refs[r, i], a)
                if r == "S":
                    _observe(ctx, op, b)
        for led in leds.values():
            led.discharge(ctx)

    return Case(f"C11/history:{cast.tag}/{route}/{hist}/{order}", h, bounds="symbolic: payloads; concrete: scales, persistence, history",
                budget_s=300, max_paths=600, group="history", weight=len(ops) * len(roles) * 2)


CASTS_QUICK = [
    # equal tables, different unit systems
    Cast("km@cgs|mks|imperial", ("cgs0", "km"), ("default", "km"), ("imp0", "km"), "m", "m"),
    Cast("km@mks|cgs|imperial", ("default", "km"), ("cgs0", "km"), ("imp0", "km"), "mile", "m"),
    Cast("kxlp@addcgs|add|addimp", ("regaddcgs", "kxlp"), ("regadd", "kxlp"), ("regaddimp", "kxlp"), "xla", "xlp"),
    # same symbol names, different scales (regmod: xla = 4 m, pc = 5 m), and the cgs twin
    Cast("xla@add|mod|addcgs", ("regadd", "xla"), ("regmod", "xla"), ("regaddcgs", "xla"), "pc", "xla"),
]
CASTS_THOROUGH_EXTRA = [
    Cast("xla@regcgs|regxla|add", ("regcgs", "xla"), ("regxla", "xla"), ("regadd", "xla"), "cm", "xla"),
    Cast("erg@cgs|J@mks|erg@imperial", ("cgs0", "erg"), ("default", "J"), ("imp0", "erg"), "eV", "erg"),
    Cast("km_per_s@imperial|cgs|mks", ("imp0", "km/s"), ("cgs0", "km/s"), ("mks0", "km/s"), "mile/hr", "m"),
    Cast("degC@cgs|mks|imperial", ("cgs0", "degC"), ("default", "degC"), ("imp0", "degC"), "K", "degC", kind="temp"),
    Cast("C@cgs|mks|statC@cgs", ("cgs0", "C"), ("default", "C"), ("cgs0", "statC"), "A*s", "C", kind="em"),
    Cast("pc@mod|add|mks", ("regmod", "pc"), ("regadd", "pc"), ("default", "pc"), "kpc", "pc"),
    Cast("kxlp@spellcgs|add|spell", ("regspellcgs", "kxlp"), ("regadd", "kxlp"), ("regspell", "kxlp"), "xlp", "xlp"),
]
# registries restored from their JSON text: the text carries the table only (not the unit system: known finding), so the casts of the
# JSON histories live in mks registries; S / D (and default / mks0) dump the SAME text, C another one
CASTS_JSON = [
    Cast("xla@add|mod|add", ("regadd", "xla"), ("regmod", "xla"), ("regadd", "xla"), "pc", "xla"),
    Cast("kxlp@add|mod|xla", ("regadd", "kxlp"), ("regmod", "kxlp"), ("regxla", "km"), "xla", "xlp"),
    Cast("km@mks0|default|xla", ("mks0", "km"), ("default", "km"), ("regxla", "km"), "m", "m"),
    # rows spelled like prefix + prefixable symbol: kxlp is a row of its own in S / D (7 m) and the derived kilo-xlp (250 m) in C
    Cast("kxlp@spell|add|nm@spell", ("regspell", "kxlp"), ("regadd", "kxlp"), ("regspell", "nm"), "xlp", "xlp"),
]
HROUTES_QUICK = [f"graph:pickle{HI}.qty", "graph:pickle2.qty", "graph:deepcopy.qty", f"graph:pickle{HI}.unit"]
HROUTES_RO_QUICK = {f"graph:pickle{HI}.qty"}


def history_cases(thorough):
    """quick: 4 casts x {pickle HI qty, deepcopy qty, pickle HI unit} (+ pickle 2 qty for the first cast) x 17 histories; 3 JSON casts x text:json x 17.
    thorough: the 4 casts x the 4 quick routes x all 36 histories + x the 7 other routes x the 17 quick histories; 6 more casts x
    {pickle HI qty, deepcopy qty} x all histories; the 3 JSON casts x text:json x all histories; restored-first order (fresh-world reference)
    on {pickle HI qty, deepcopy qty, JSON} for the histories that do not edit a registry; histories that edit an ORIGINAL: fresh-world reference only"""
    out = []
    ro_routes = {f"graph:pickle{HI}.qty", "graph:deepcopy.qty", "text:json"}
    casts = [(c, "core") for c in CASTS_QUICK] + ([(c, "extra") for c in CASTS_THOROUGH_EXTRA] if thorough else []) + [(c, "json") for c in CASTS_JSON]
    for ci, (cast, group) in enumerate(casts):
        core_cast = group != "extra"
        if group == "json":
            plan = [("text:json", list(HISTORIES) if thorough else HISTORIES_QUICK)]
        elif not thorough:
            plan = [(r, HISTORIES_QUICK) for r in HROUTES_QUICK if r != "graph:pickle2.qty" or ci == 0]
            if ci == 3:
                plan.append(("graph:deepcopy.registry", HISTORIES_QUICK))
        elif core_cast:
            plan = [(r, list(HISTORIES) if r in HROUTES_QUICK else HISTORIES_QUICK) for r in HROUTES if r != "text:json"]
        else:
            plan = [(r, list(HISTORIES)) for r in sorted(ro_routes - {"text:json"})]
        ops = HIST_OPS[0] + (HIST_OPS[1] if thorough and core_cast else [])
        for route, hists in plan:
            for hist in hists:
                # a Unit pickled on its own carries its registry OBJECT: two units of one original registry legitimately share the
                # restored one, like the originals do - edits of a RESTORED registry are followed on the quantity/array/JSON routes only
                if _edits_registry(hist) and HROUTES[route][1] == "unit" and HROUTES[route][0] not in ELEMENTWISE:
                    continue
                if _edits_original(hist):
                    orders = ("RO",)
                elif thorough:
                    orders = ("OR", "RO") if route in ro_routes and not _edits_registry(hist) else ("OR",)
                else:
                    orders = ("OR", "RO") if route in HROUTES_RO_QUICK and hist in ("C>S", "[C,S]", "C>D>S") else ("OR",)
                for order in orders:
                    out.append(make_history_case(cast, route, hist, ops, order))
    return out


# ---------------------------------------------------------------------------------------------------------------- registry contents, values

def make_registry_case(subj, route):
    """the restored unit equals the original and its registry holds the same rows (ground: nothing here is symbolic)"""
    def h(ctx):
        _reset(ctx)
        w = World(ctx, subj, route, None, "po")
        ctx.require("persist/completes", w.persist[0] == "ok", error=repr(w.persist[1])[:200])
        if w.persist[0] != "ok":
            return
        r, u = w.persist[1], w.u
        if w.side is not None:
            ctx.require("persist/other-columns", not w.side, problems="; ".join(w.side)[:240])
        ctx.require("unit/expression", str(r.expr) == str(u.expr), got=str(r.expr))
        ctx.require("unit/dimensions", bool(r.dimensions == u.dimensions))
        ctx.require("unit/scale", r.base_value == u.base_value and r.base_offset == u.base_offset, got=(r.base_value, r.base_offset))
        ctx.require("unit/equal", bool(r == u) and bool(u == r) and not bool(r != u))
        ctx.require("unit/latex", r.latex_repr == u.latex_repr, got=r.latex_repr)
        la, lb = u.registry.lut, r.registry.lut
        missing = sorted(k for k in la if k not in lb)
        extra = sorted(k for k in lb if k not in la)
        changed = sorted(k for k in la if k in lb and not (la[k][0] == lb[k][0] and bool(la[k][1] == lb[k][1]) and la[k][2] == lb[k][2]
                                                           and la[k][3] == lb[k][3] and la[k][4] == lb[k][4]))
        ctx.require("registry/no-symbol-lost", not missing, missing=missing[:8])
        ctx.require("registry/no-symbol-gained", not extra, extra=extra[:8])
        ctx.require("registry/rows-equal", not changed, changed=[(k, la[k][0], lb[k][0]) for k in changed[:6]])
        ctx.require("registry/unit_system", str(u.registry.unit_system) == str(r.registry.unit_system),
                    original=str(u.registry.unit_system)[:40], restored=str(r.registry.unit_system)[:40])
        want = sorted(u.registry.list_same_dimensions(u))
        ctx.require("registry/list_same_dimensions(restored registry, restored unit)", sorted(r.registry.list_same_dimensions(r)) == want,
                    original=len(want), restored=len(r.registry.list_same_dimensions(r)))
        ctx.require("registry/list_same_dimensions(original registry, restored unit)", sorted(u.registry.list_same_dimensions(r)) == want,
                    original=len(want), restored=len(u.registry.list_same_dimensions(r)))
    return Case(f"C11/{subj.id}/{route}/registry", h, bounds="ground", group=route.split(":")[0])


VALUE_ARRAYS = {
    "f8-scalar": lambda: np.float64(0.1) * 3,
    "f8-3": lambda: np.array([0.1, -2.5e-300, 1.7976931348623157e308]),
    "f8-2x2": lambda: np.array([[1.0 / 3.0, 2.0], [np.pi, -0.0]]),
    "f8-special": lambda: np.array([np.inf, -np.inf, np.nan, 5e-324]),
    "f4-3": lambda: np.array([0.1, 2.5, -3.25], dtype="float32"),
    "i8-3": lambda: np.array([1, -2, 2**62], dtype="int64"),
    "f8-strided": lambda: np.arange(12.0).reshape(3, 4)[::2, 1::2],
    "f8-empty": lambda: np.array([], dtype="float64"),
}
VALUE_ROUTES = {
    "pickle2": lambda q: pickle.loads(pickle.dumps(q, protocol=2)), "pickle3": lambda q: pickle.loads(pickle.dumps(q, protocol=3)),
    "pickle4": lambda q: pickle.loads(pickle.dumps(q, protocol=4)), "pickle5": lambda q: pickle.loads(pickle.dumps(q, protocol=5)),
    "pickle.nested": lambda q: pickle.loads(pickle.dumps({"k": [q, (q.units, 1)]}))["k"][0],
    "deepcopy": copy.deepcopy, "copy": copy.copy, "qtycopy": lambda q: q.copy(),
    "deepcopy.nested": lambda q: copy.deepcopy([{"k": q}])[0]["k"],
}


def make_values_case(aname, ustr, world, rname):
    """CONCRETE byte-wise comparison of stored numbers after a round trip (not a solver statement)"""
    def h(ctx):
        _reset(ctx)
        unyt = ctx.mods["unyt"]
        reg = WORLDS[world](ctx)
        v = VALUE_ARRAYS[aname]()
        u = _mk_unit(ctx, ustr, reg)
        q = unyt.unyt_quantity(v, u) if np.ndim(v) == 0 else unyt.unyt_array(v, u)
        if rname == "savetxt":
            fd, fn = tempfile.mkstemp(suffix=".txt", prefix="c11_")
            os.close(fd)
            try:
                other = unyt.unyt_array(np.arange(len(v), dtype=float), "dimensionless")
                unyt.savetxt(fn, [q, other])
                r, r2 = unyt.loadtxt(fn)
                ctx.require("values/second column", np.asarray(r2).tobytes() == np.asarray(other).tobytes() and str(r2.units) == "dimensionless")
            finally:
                os.unlink(fn)
        else:
            r = VALUE_ROUTES[rname](q)
        A, B = np.ascontiguousarray(np.asarray(q)), np.ascontiguousarray(np.asarray(r))
        ctx.require("values/dtype-shape", A.dtype == B.dtype and A.shape == B.shape, got=(str(B.dtype), B.shape))
        ctx.require("values/bytes", A.tobytes() == B.tobytes(), got=repr(B)[:120])
        ctx.require("values/type", type(q) is type(r), got=type(r).__name__)
        ctx.require("values/unit", bool(_same_unit(_unit_key(q.units), _unit_key(r.units))), got=show(_unit_key(r.units)))
        ctx.require("values/original untouched", np.ascontiguousarray(np.asarray(q)).tobytes() == np.ascontiguousarray(VALUE_ARRAYS[aname]()).tobytes()
                    and _unit_key(q.units)[0] == str(u.expr))
    w = "" if world == "default" else world + "."
    return Case(f"C11/values:{aname}/{w}{ustr.replace('/', '_per_').replace('*', '.')}/{rname}", h, bounds="ground (concrete byte comparison)", group="values")


def make_protocol01_case(proto, what):
    """pickle protocols 0 and 1 are refused (by sympy) rather than producing a damaged object"""
    def h(ctx):
        unyt = ctx.mods["unyt"]
        obj = unyt.Unit("km/s") if what == "unit" else unyt.unyt_array(np.array([1.0, 2.0]), "km/s")
        r = call(lambda: pickle.loads(pickle.dumps(obj, protocol=proto)))
        if r[0] == "raise":
            ctx.require("persist/refusal is loud", isinstance(r[1], (NotImplementedError, pickle.PicklingError, TypeError)), got=repr(r[1])[:120])
        else:
            back = r[1]
            ctx.require("persist/unit", bool(_same_unit(_unit_key(back.units), _unit_key(obj.units))))
    return Case(f"C11/values:protocol{proto}/{what}/refused-or-equal", h, bounds="ground", group="values")


# ---------------------------------------------------------------------------------------------------------------- catalogue

def S(kind, ustr, world="default", partners=(), tag=None, build="str"):
    return Subject(kind, ustr, world, partners, tag=tag, build=build)


# families of follow-up operations: (quick list, extra operations of the thorough tier)
TRIG = (["trig:sin", "trig:cos", "trig:tan"], ["trig:sin-arr"])
EXP = (["exp:exp"], ["exp:log10"])
BASE = (["base:in_base", "base:in_cgs", "base:in_mks", "base:get_base_equivalent"],
        ["base:in_base(cgs)", "base:in_base(imperial)", "base:in_base(galactic)", "base:convert_to_base", "base:convert_to_cgs", "base:get_cgs_equivalent"])
ARITH = (["self:add", "self:sub", "self:mul", "arith:sqrt", "arith:square", "arith:scale", "arith:diff"],
         ["self:div", "self:lt", "self:eq", "arith:power1.5", "arith:power3", "arith:recip", "arith:neg", "arith:abs", "arith:mul-bare", "arith:add-bare",
          "arith:sum-arr", "arith:prod-arr", "arith:ediff1d"])
UNITU = (["unit:pow2", "unit:describe", "unit:hash-consistent"],
         ["unit:sqrt", "unit:inv", "unit:rmul-number", "unit:simplify", "unit:has_equivalent(thermal)", "unit:list_equivalencies"])
BIN = (["bin:add", "bin:rsub", "bin:mul", "bin:rdiv", "bin:lt", "bin:iadd"],
       ["bin:radd", "bin:sub", "bin:rmul", "bin:div", "bin:ge", "bin:eq", "bin:ne", "bin:maximum", "bin:np.add", "bin:np.subtract", "bin:isub", "bin:riadd",
        "bin:arr-add"])
CONV = (["conv:to(Unit)", "conv:to(str)", "unit:mul", "unit:eq"],
        ["conv:from(Unit)", "conv:in_units", "conv:to_value", "conv:convert_to_units", "conv:factor", "unit:rmul", "unit:div", "unit:rdiv",
         "unit:qty-times-unit", "unit:qty-over-unit"])
FAMILIES = {"trig": TRIG, "exp": EXP, "base": BASE, "arith": ARITH, "unit": UNITU}
BIN_FAMILIES = {"bin": BIN, "conv": CONV}

# unary families per kind (quick, extra for thorough); "trig" for non-angles checks that the refusal is the same
KIND_FAMILIES = {
    "angle": (["trig", "base", "arith", "unit"], ["exp"]),
    "temp": (["base", "arith", "unit", "equiv"], ["trig", "exp"]),
    "log": (["exp", "base", "arith", "unit"], ["trig"]),
    "nodim": (["trig", "exp", "base", "arith", "unit"], []),
    "em": (["base", "arith", "unit"], ["trig"]),
    "plain": (["base", "arith", "unit"], ["trig", "exp", "equiv"]),
    "compound": (["base", "arith", "unit"], ["trig"]),
}
FAMILIES["equiv"] = (["equiv:thermal"], ["equiv:spectral"])

SUBJECTS_QUICK = [
    S("angle", "degree", partners=["rad", "m"]), S("angle", "arcmin", partners=["degree"]),
    S("temp", "K", partners=["degC", "delta_degC"]), S("temp", "degC", partners=["K", "degF"]), S("temp", "delta_degC", partners=["degC", "degF"]),
    S("log", "dB", partners=["Np", "m"]), S("nodim", "dimensionless", partners=["percent", "dB"]),
    S("em", "C", partners=["statC"]), S("plain", "m", partners=["cm"]), S("compound", "km/s", partners=["mile/hr"]),
    # custom registries
    S("plain", "xla", "regadd", partners=["m", "kxlp"]), S("plain", "kxlp", "regadd", partners=["xla"]),
    S("temp", "xto", "regadd", partners=["K", "xtd"]), S("angle", "xga", "regadd", partners=["degree"]),
    S("plain", "xla", "regmod", partners=["pc"]), S("plain", "pc", "regmod", partners=["kpc", "m"]),
    S("plain", "xla", "regcgs", partners=["cm"]),
]
# two further axes, walked over the custom registries: (a) KINDS OF TABLE ROWS (world regspell: rows spelled like SI prefix + prefixable
# symbol with a meaning of their own, next to genuinely derived spellings; custom dimensionless symbol; tex_repr) and (b) PROVENANCE of
# the original's unit (null unit / unit left by arithmetic, bound to a custom registry without ever having been parsed from its string)
SUBJECTS_AXES_QUICK = [
    S("plain", "kxlp", "regspell", partners=["xlp", "m"]), S("compound", "cs", "regspell", partners=["m/s"]),
    S("plain", "nm", "regspell", partners=["km", "mxlp"]), S("plain", "Mxlp", "regspell", partners=["kg"]),
    S("nodim", "xnd", "regspell", partners=["dimensionless", "percent"]),
    S("nodim", "xla", "regadd", partners=["xnd", "percent"], build="ratio"), S("nodim", "xla", "regcgs", partners=["xnd"], build="qratio"),
    S("nodim", "", "regspell", partners=["xnd"], build="null", tag="reg"), S("nodim", "m", partners=["percent"], build="ratio"),
    S("plain", "xla", "regadd", partners=["kxlp"], build="muldiv"),
]
SUBJECTS_AXES_THOROUGH_EXTRA = [
    S("plain", "mxlp", "regspell", partners=["xlp", "kxlp"]), S("plain", "kuxlp", "regspell", partners=["uxlp", "xlp"]),
    S("compound", "kxlp/cs", "regspell", partners=["s"]),
    S("plain", "kxlp", "regspellcgs", partners=["cm"]), S("nodim", "nm/kxlp", "regspell", partners=["xnd"]),
    S("nodim", "xla", "regadd", partners=["xnd"], build="qratio"), S("nodim", "", "regcgs", partners=["xnd"], build="null", tag="reg"),
    S("nodim", "kxlp", "regspell", partners=["xnd"], build="ratio"),
    S("nodim", "", partners=["percent"], build="null", tag="reg"), S("nodim", "xla/m", "regadd", partners=["xnd"]),
    S("plain", "xla", "regadd", partners=["kxlp"], build="root"), S("plain", "kxlp", "regspell", partners=["xlp"], build="qsqrt"),
    S("plain", "xla", "regcgs", partners=["cm"], build="conv"),
    S("plain", "xla", "regmod", partners=["pc"], build="unitcopy"), S("temp", "xto", "regadd", partners=["K"], build="conv"),
    S("angle", "xga", "regadd", partners=["degree"], build="root"),
]
SUBJECTS_THOROUGH_EXTRA = [
    S("angle", "rad", partners=["degree"]), S("angle", "lat", partners=["lon", "degree"]), S("angle", "mas", partners=["arcsec"]),
    S("temp", "degF", partners=["degC", "delta_degF"]), S("temp", "R", partners=["degF", "K"]), S("temp", "delta_degF", partners=["degF", "delta_degC"]),
    S("temp", "mK", partners=["degC", "K"]), S("temp", "kdegC", partners=["K"]),
    S("log", "Np", partners=["dB", "s"]), S("log", "B", partners=["dB"]), S("nodim", "percent", partners=["dimensionless", "rad"]),
    S("em", "statC", partners=["C", "esu"]), S("em", "T", partners=["G"]), S("em", "G", partners=["T"]), S("em", "A", partners=["statA"]),
    S("em", "V", partners=["statV"]), S("em", "ohm", partners=["statohm"]),
    S("plain", "Msun", partners=["g"]), S("plain", "erg", partners=["J", "eV"]), S("plain", "s", partners=["yr", "Hz"]),
    S("compound", "degree/s", partners=["rad/s", "Hz"]), S("compound", "J/K", partners=["erg/K"]), S("compound", "g/cm**3", partners=["kg/m**3"]),
    S("compound", "sr", partners=["degree**2"]), S("compound", "W/m**2/K**4", partners=["erg/s/cm**2/K**4"]), S("compound", "m**(1/2)", partners=["cm**(1/2)"]),
    S("compound", "K/m", partners=["R/ft", "delta_degC/m"]), S("compound", "degree*km", partners=["rad*m"]),
    S("compound", "dimensionless/s", partners=["Hz"], tag="nodim_per_s"),
    S("temp", "xtd", "regadd", partners=["xto", "K"]), S("log", "xlg", "regadd", partners=["dB", "m"]),
    S("compound", "xla**2/s", "regadd", partners=["m**2/s"]), S("compound", "xga/kxlp", "regadd", partners=["rad/m"]),
    S("compound", "pc/s", "regmod", partners=["km/s", "kpc/s"]), S("temp", "xto", "regmod", partners=["K"]), S("plain", "kpc", "regmod", partners=["pc"]),
    S("compound", "g*xla/s**2", "regcgs", partners=["dyne"]), S("temp", "K", "regcgs", partners=["degC"]), S("angle", "degree", "regcgs", partners=["rad"]),
    S("em", "C", "regcgs", partners=["statC"]),
]

# quick: one representative per persistence mechanism; both orders on three object-graph routes
ROUTES_QUICK = ["graph:pickle2.qty", f"graph:pickle{HI}.qty", f"graph:pickle{HI}.unit", "graph:deepcopy.symq", "graph:unitcopy.deep",
                "ref:copy.symq", "text:str", "text:json", "text:savetxt"]
# multi-column text files read back with usecols (non-ascending, subset): for one table subject per kind (quick: two forms; thorough: all)
ROUTES_COLS_QUICK = ["text:savetxt.cols(2,0)", "text:savetxt.cols(1,)"]
ROUTES_COLS = [r for r in ROUTES if r.startswith("text:savetxt.cols")]
ROUTES_QUICK_BOTH_ORDERS = {f"graph:pickle{HI}.qty", f"graph:pickle{HI}.unit", "graph:deepcopy.symq"}
# subjects of the row-kind / provenance axes: every persistence mechanism once (quick); both orders on the pickled quantity
ROUTES_AXES_QUICK = [f"graph:pickle{HI}.qty", f"graph:pickle{HI}.unit", "graph:deepcopy.symq", "ref:copy.symq", "text:str", "text:json"]
ROUTES_AXES_THOROUGH = ROUTES_AXES_QUICK + ["graph:pickle2.qty", "graph:unitcopy.deep", "text:repr"]
# thorough, subjects added by the thorough tier
ROUTES_EXTRA = [f"graph:pickle{HI}.qty", f"graph:pickle{HI}.unit", "graph:deepcopy.qty", "graph:unitcopy.deep", "ref:unitcopy", "text:str", "text:json"]
# thorough, subjects of the quick tier
ROUTES_CORE = ROUTES_QUICK + ["graph:deepcopy.qty", "graph:pickle.nested", "graph:deepcopy.unit", "ref:qtycopy.symq", "ref:copy.unit", "ref:unitcopy"]


FILE_KINDS_QUICK = ("angle", "temp", "nodim", "compound")
FILE_ROUTES_STRINGS = [f"text:file[{k}]" for k in ("footer=1word", "header+footer", "footer=unit-names", "comments=%", "delimiter=comma")]
# the compact battery run after a text-file round trip (one case per subject x form): unit-system conversion, guards, conversion to
# a partner, arithmetic with a partner, description
MIX_COMMON = ["base:in_base", "base:in_cgs", "self:add", "self:mul", "arith:scale", "arith:diff", "bin:add", "bin:rsub", "bin:lt",
              "conv:to(Unit)", "conv:to(str)", "unit:eq", "unit:describe"]


def _mix_ops(kind):
    return (["trig:sin"] if kind in ("angle", "nodim") else []) + (["exp:exp"] if kind in ("log", "nodim") else []) + MIX_COMMON


def _routes_for(subj, names):
    return [r for r in names if not (r in DEFAULT_ONLY_ROUTES and subj.world != "default")]


def cases(tier, mods):
    check_names(mods, NAMES)
    out = []
    thorough = tier != "quick"
    # thorough: every route (all pickle protocols, nested containers, array forms) for one table subject per kind and one custom-registry subject = all_ids;
    # ROUTES_CORE for the other subjects of the quick tier; ROUTES_EXTRA for the subjects the thorough tier adds
    quick_ids = {s.id for s in SUBJECTS_QUICK}
    all_ids, seen = set(), set()
    for s in SUBJECTS_QUICK:
        key = s.kind if s.world == "default" else s.world
        if key not in seen and s.world in ("default", "regadd"):
            seen.add(key)
            all_ids.add(s.id)
    subjects = SUBJECTS_QUICK + (SUBJECTS_THOROUGH_EXTRA if thorough else [])
    axes = SUBJECTS_AXES_QUICK + (SUBJECTS_AXES_THOROUGH_EXTRA if thorough else [])
    axes_ids = {s.id for s in axes}
    assert len(axes_ids) == len(axes) and not axes_ids & {s.id for s in subjects}
    for s in subjects + axes:
        fq, ft = KIND_FAMILIES[s.kind]
        fams = fq + (ft if thorough else [])
        if s.id in axes_ids:
            routes = ROUTES_AXES_THOROUGH if thorough else ROUTES_AXES_QUICK
        elif not thorough:
            routes = ROUTES_QUICK
        else:
            routes = [r for r in ROUTES if r not in FILE_ROUTES] if s.id in all_ids else (ROUTES_CORE if s.id in quick_ids else ROUTES_EXTRA)
        if s.id in all_ids and s.world == "default":
            routes = list(routes) + [r for r in (ROUTES_COLS if thorough else ROUTES_COLS_QUICK) if r not in routes]
        for route in _routes_for(s, routes):
            out.append(make_registry_case(s, route))
            heavy = route.startswith("graph:")
            if s.id in axes_ids:
                orders = ("OR", "RO") if route == f"graph:pickle{HI}.qty" or (thorough and route == "graph:deepcopy.symq") else ("OR",)
            elif thorough:
                # by-reference and text routes hand back the very same objects in most cases: second order only for the all_ids subjects
                orders = ("OR", "RO") if (heavy or s.id in all_ids) else ("OR",)
            else:
                orders = ("OR", "RO") if route in ROUTES_QUICK_BOTH_ORDERS else ("OR",)
            for order in orders:
                for f in fams:
                    ops = FAMILIES[f][0] + (FAMILIES[f][1] if thorough else [])
                    out.append(make_case(s, route, f, ops, None, order))
                for p in s.partners:
                    for f, (oq, ot) in BIN_FAMILIES.items():
                        out.append(make_case(s, route, f, oq + (ot if thorough else []), p, order))
                        if thorough and f == "bin" and s.kind in ("temp", "angle", "log") and route in PARTNER_RESTORED_ROUTES and s.id in quick_ids:
                            out.append(make_case(s, route, f, oq + ot, p, order, pmode="pr"))
    # argument forms of the text-file round trip (header / footer / delimiter / comments / fmt / column and row counts / arrays
    # argument): registry case + the compact battery, for one table subject per kind; the other table subjects (other unit STRINGS
    # in the unit row) with the comment-line forms
    for s in subjects:
        if s.world != "default":
            continue
        if s.id in all_ids:
            forms = list(FILE_ROUTES) if thorough else (FILE_ROUTES_QUICK if s.kind in FILE_KINDS_QUICK else FILE_ROUTES_STRINGS[:2])
        else:
            forms = FILE_ROUTES_STRINGS if thorough else FILE_ROUTES_STRINGS[:2]
        for route in forms:
            out.append(make_registry_case(s, route))
            out.append(make_case(s, route, "mix", _mix_ops(s.kind), s.partners[0], "OR"))
    # restoration histories: several registries restored in one process
    out.extend(history_cases(thorough))
    # concrete value round trips
    vroutes = list(VALUE_ROUTES) + ["savetxt"]
    for aname in VALUE_ARRAYS:
        for ustr, world in (("km/s", "default"), ("degC", "default"), ("xla", "regadd")) if thorough else (("km/s", "default"), ("xla", "regadd")):
            for rn in vroutes:
                if rn == "savetxt" and (world != "default" or aname not in ("f8-3", "f8-special")):
                    continue
                out.append(make_values_case(aname, ustr, world, rn))
    for proto in (0, 1):
        for what in ("unit", "array"):
            out.append(make_protocol01_case(proto, what))
    return out
