"""C14 - every documented unit name resolves to exactly one, correctly scaled unit."""
import copy
import keyword
import os
import random

import z3

from .common import PREFIX, And, Case, Or, SymBool, call, close, exact_eq
from .names_common import (PREFIX_SYMS, oracle_var, vec_add, unit_ok as _unit_ok, PREFIX_WORD, denotation, dimvec, distinct_denotations, expected, label_of, readings, sym_registry,
                           tables)  # noqa: F401

LEVEL = "other"
MANIFEST = dict(
    category="other",
    text=("(a) z3 string-theory queries over ALL strings: which strings have two readings among {table symbol, listed alias, "
          "prefix symbol ++ prefixable symbol/short alias, prefix word ++ alias, title-case variant} - all-SAT enumeration plus "
          "an unsat completeness proof; each such string, and every prefix ++ non-prefixable spelling, is then pushed through "
          "the real parser/lookup. (b) bounded symbolic execution of the real name resolution (parse_unyt_expr, "
          "_auto_positive_symbol, _lookup_unit_symbol, _split_prefix, Unit.__new__, add_symbols) for every exposed name against "
          "a registry whose ~145 base scales are z3 reals: base_value == prefix * s_canonical by string, by attribute and "
          "through a custom registry namespace, decided by z3 for all scales; the name space itself is finite and enumerated. "
          "(c) registry configurations: the documented names keep their reading in a registry to which a further unit t was added, "
          "for every t that is the tail of a documented spelling after an SI prefix symbol (z3 string query, proved complete: "
          "'a' for Pa/ha, 'x' for Mx, 'ol' for mol, 'ascal' for Pascal ...), prefixable and not, over 9 histories of registry calls "
          "(constructed with the row, add, define_unit, use-then-add, add-remove, re-add with the other flag, add-modify, "
          "copy-then-remove; symbolic and plain default table) run inside one path: colliding spelling == table reading, "
          "prefix x added unit == prefix * s_t, non-prefixable / removed unit rejected, for all scales. "
          "(d) the same with a row NAMED like a documented spelling (every listed alias, title-case variant, prefix ++ short alias, "
          "prefix-word form, symbol form u/MICRO SIGN/GREEK MU/k/... ++ symbol): the spelling, every other spelling of the unit it "
          "denotes and the add_symbols namespace keep the documented reading (symbol forms: all spellings agree on one unit), "
          "by string and by namespace, one row at a time through the histories and all rows of a case in one registry. "
          "(e) edits of a table symbol in a custom registry after every spelling of it was used once (modify, re-add, remove, "
          "remove-add, re-add with the other prefixable flag, copy-then-modify both ways, modify twice; symbolic and plain table): "
          "every spelling == prefix * NEW scale by string and by namespace, bound to the registry asked, rejected after removal. "
          "(f) the form of the unit string: every name with a non-ASCII character and a sample (thorough: all) of the others handed over as "
          "utf-8 bytes, numpy.bytes_, numpy.str_ and a str subclass - before and after the str spelling was resolved on the same registry - and "
          "as bytes through unyt_quantity/unyt_array(units=), quantity.to and in_units: the same unit as the str spelling, for all scales. "
          "(g) related strings resolved earlier on one registry (the registry's cache is keyed by the typed string): for a documented name "
          "n = a ++ b of two documented names the juxtapositions 'a b' (blank, blanks, tab), the product 'a*b', n with a leading / trailing "
          "blank, and the documented names that differ from n only by letter case or underscores, resolved before / after / around n: n and "
          "every documented relative keep their reading, 'a*b' is the product unit, a juxtaposition is refused or the product, and every "
          "related string has one outcome in all positions. "
          "(h) the registry OBJECT in which names are resolved, obtained through a copy / persistence route: 11 user rows (5 prefixable, 5 not, "
          "one table symbol re-added as prefixable; 4 dimensions) are added, the registry goes through copy.copy, copy of a copy, copy.deepcopy, "
          "Unit.copy(deep=True).registry, deepcopy of an array bound to it, UnitRegistry(lut=dict(reg.lut)), _correct_old_unit_registry on a copy "
          "of the table, the array __reduce__/__setstate__ protocol (symbolic table and row scales travel as python objects) and through "
          "to_json/from_json (once, twice, of a deep copy), pickle of the registry / of an array / of a Unit bound to it, UnitRegistry(lut=reg.lut) "
          "(plain table and fixed float row scales: text cannot carry z3 terms), before and after the strings were used in the original; in the "
          "derived registry all 22 prefixes x every row, the bare rows and 51 documented strings (prefixable / non-prefixable table symbols with and "
          "without prefix, aliases, word forms) must have the outcome the independent reader gives for the ORIGINAL definitions (prefix * row scale, "
          "refusal of a prefix on a non-prefixable row, documented reading), be bound to the derived registry, and equal the original's answer."),
    design="DESIGN.md section 4 C14",
    technique="SMT string queries (z3 seq) with all-SAT + completeness; symbolic execution of the real lookup over z3 real scales; replay")
EXPLANATION = (
    "Names are discrete, so every exposed name (keys of the generated name table, attributes of unyt.unit_symbols and of the "
    "top-level namespace, prefix x prefixable symbol) is a case element; what is symbolic is the scale of every base symbol of the "
    "registry the real resolution runs against, so that units that coincide numerically (counts/photons/dimensionless, foe/bethe, "
    "Msun/m_geom, K/delta_degC, J/W/N ...) are distinguishable and an alias retargeted to an equal-valued unit changes the term. "
    "The expected unit of a spelling comes from an independent reader (own prefix tables, own precedence rules) over the documented "
    "symbol and alias lists. Ambiguity is decided by z3 over all strings: the set of strings with >= 2 readings is enumerated by "
    "all-SAT and proved complete (unsat), then each is resolved by the real code. Ground parts: the attribute objects of the default "
    "registry are compared with table value x prefix as exact-rational facts; rejection of prefix ++ non-prefixable spellings is an "
    "enumerated concrete fact (an exception class), the solver's part there is the string query that lists the exceptions. "
    "Registry configurations (custom/*): 'no string has two readings' is a statement about every registry that holds the documented "
    "table, so the registry is an axis of its own. A string query over ALL strings lists the documented spellings that split as "
    "prefix symbol ++ tail with the tail no table symbol (proved complete, all-SAT for the listed kinds); each tail t is then added "
    "as a unit of symbolic scale s_t (dimension time) to a registry with the documented table - prefixable and non-prefixable, by "
    "each of 9 histories of real registry calls executed in one path - and the real resolution of the colliding spellings, of "
    "their other spellings (aliases, k/m/da forms), of prefix ++ t and of t itself is compared with an independent reader "
    "(documented reading first; prefix ++ t only for a prefixable row; nothing after removal): base_value == s_canonical * prefix "
    "resp. s_t * prefix is decided by z3 for all 145+2 scales, and add_symbols(ns, registry) must hand out the same units. "
    "Two further registry axes (custom/named-*, edit/*). The NAME of the added row: every documented spelling that is no table symbol "
    "is used as the name of a user row (a user's 'au', 'um', 'parsec', 'Kilometer', 'ml'); the independent reader says the spelling, "
    "every other spelling of the unit it denotes, the documented spellings prefix ++ t and the namespace entry keep the documented "
    "reading; for a row named like a symbol form (prefix symbol ++ prefixable table symbol, a re-definition of that prefixed unit whose "
    "value is C12's matter) the obligation is that all spellings of that prefixed unit, by string and by namespace, denote ONE unit "
    "(all documented or all the user's row). The HISTORY of lookups before an edit of a table symbol: the registry answers repeated "
    "unit strings from a cache keyed by the typed string, so every spelling of a table symbol (aliases, title-case variants, prefixed "
    "symbol / short-alias / word / title-word forms) is resolved once, then the symbol is modified / re-added / removed / re-added "
    "with the other prefixable flag / edited in a copy, and every spelling must equal prefix * the NEW symbolic scale (z3, for all "
    "scales), belong to the registry it was asked from, be rejected after removal, and agree with the add_symbols namespace. "
    "The FORM of the string (forms/*): Unit() takes the name as str or bytes and every constructor / conversion passes its `units` argument on, "
    "so the object type is an axis: bytes (utf-8), numpy.bytes_, numpy.str_, a str subclass x the receiving call (Unit, unyt_quantity, "
    "unyt_array, to, in_units) x first use / use after the str spelling filled the registry's cache; each must give prefix * s_canonical "
    "(z3, all scales) in the registry asked. RELATED strings (related/*): what the parser or the string-keyed cache may conflate with a "
    "documented name - its two-name splits written with blanks or as an explicit product, the name with surrounding blanks, names that differ "
    "by case / underscores only - is resolved before, after and around the name on two registries; the name keeps its reading, documented "
    "relatives keep theirs, an explicit product is the product of the two symbolic scales (nonlinear obligation), a juxtaposition is refused or "
    "that product, and the outcome of every related string is the same in all three positions (refused everywhere, or one unit). "
    "ROUTES (routes/*): a registry is rarely the one that was built - it is copied with its units and arrays, restored from JSON (yt stores a "
    "dataset's registry that way) or unpickled, and each route rebuilds the table rows, the SI-prefixability flag included. So the route is an axis: "
    "user rows with both flags (and one table symbol re-added as prefixable) are added, the registry passes one of 16 routes, and the real name "
    "resolution in the derived registry is compared with an independent reader of the original definitions and with the original registry's own "
    "answer for the same string. routes/symbolic/*: the route keeps python objects, so the 145 table scales and the row scales are z3 reals and "
    "base_value == prefix * s_row is decided by z3 for all scales; routes/text/*: JSON / pickle bytes cannot carry z3 terms - plain table, fixed "
    "float scales, the comparisons are ground facts (the JSON restore code itself is run with symbolic rows in routes/symbolic/correct-old and "
    "reduce-setstate). Refusals are exception classes."
)
BOUNDS = {
    "quick": "all 3872 exposed names x {string, attribute (unit_symbols + top level), add_symbols namespace of a custom registry}, 145 symbolic "
             "base scales; string queries over ALL strings: 24 pairs of 7 reading kinds + 42 (prefix family x non-prefixable base family x "
             "reading kind) languages, each enumerated by all-SAT and proved complete; rejection sweep: every prefix symbol x "
             "non-prefixable symbol/alias and every prefix word x non-prefixable symbol (~7000 strings); registry configurations: "
             "7 string queries (documented spelling = prefix symbol ++ tail, per reading kind: unsat proof that the list is complete; all-SAT re-enumeration for the symbol and title-symbol kinds); "
             "every tail of a table symbol (51: a, x, ol, yn, r, p, sun, _pl ...) x {prefixable, non-prefixable} x 9 histories "
             "(built, add, plain-add, plain-define, use-add, add-remove, flip, add-modify, copy-remove): 'built' with all 22 prefixes, the "
             "other spellings of the colliding unit and the add_symbols namespace, the other histories with the colliding spellings, "
             "the prefixes k, m, da, P and t itself; every tail of a listed alias / title-case alias "
             "or symbol (121) and a VERIF_SEED sample of 24 tails each of prefixed-symbol, prefix-word and title prefix-word "
             "spellings x both flags x {built, add, plain-define} with the colliding spellings and the prefixes k, m, da, P; "
             "tails are python identifiers that are no table symbol; 145 table scales + 2 scales of the added row symbolic; "
             "rows named like a documented spelling: all 180 listed aliases, all 28 title-case symbols, a VERIF_SEED sample of 40 "
             "title-case aliases, 24+24 prefix ++ short alias (24 micro u/MICRO SIGN/GREEK MU forms, 24 others), 24+24 prefix ++ symbol, "
             "24 prefix-word and 24 title prefix-word forms x both flags x {built, add, use-add} + one joint registry per case (6 rows at "
             "once, both flags) with the add_symbols namespace; strings per row: the row name, all other spellings of its unit, the "
             "documented spellings prefix ++ name, k/m/da/P ++ name; "
             "edits of a table symbol: all 143 symbols with a symbolic scale x {modify (+ namespace), readd, remove, flip, copy-modify, "
             "plain-modify}, each after one use of every spelling; spellings: all aliases / title-case variants and the prefixed forms "
             "(symbol, short alias, word, title word) for k, m, da and the three micro spellings (1222 spellings in all); "
             "string forms: all names with a non-ASCII character + a VERIF_SEED sample of 160 ASCII names x {bytes; for the non-ASCII names and "
             "every 8th other also numpy.bytes_, numpy.str_, str subclass, and bytes through unyt_quantity / unyt_array / to / in_units} x "
             "{first use, after str}; related strings: all documented names that split into two documented names and are no prefix ++ symbol form "
             "(108) + a sample of 60 of the 355 prefix-symbol forms that do + a sample of 40 of the 218 groups of names equal up to case / "
             "underscores, each with 'a b', 'a  b', 'a<TAB>b', 'a*b', ' n', 'n ' and the other group members x 3 positions on 2 registries; "
             "derived registries: 8 object routes (symbolic scales) + 8 text routes (plain table, fixed floats) x {first use, after use in the original} x "
             "(11 user rows x 22 prefix spellings + rows + 51 documented strings), one fixed set of rows (both tiers)",
    "thorough": "same, plus prefix word x every non-prefixable alias and the title-case spellings in the rejection sweep (~25000 strings); "
                "registry configurations: all 9 histories for every family ('add' with the full battery too), samples of 160 prefix-word / "
                "title prefix-word tails, all 59 prefixed-symbol tails, all-SAT re-enumeration for the alias kinds as well; "
                "rows named like a documented spelling: all 180 aliases, 127 title-case aliases, 28 title-case symbols, 198 prefix ++ "
                "short alias with all 9 histories; all 132 micro ++ symbol forms and VERIF_SEED samples of 200 other prefix ++ symbol, 240 "
                "prefix-word and 240 title prefix-word forms (of 835 / 1120 / 1040: cut for wall time, one mechanism each) with {built, add, "
                "use-add, add-remove}; joint registries of 4 resp. 8 rows; edits of a table symbol: all 9 histories (+ remove-add, modify-twice, "
                "plain-readd), the spellings with ALL prefixes (3798 spellings); string forms: all names; related strings: all 463 names "
                "with a two-name split and all 218 case / underscore groups",
}
OUTSIDE = ("strings that are no documented spelling and no prefix+unit split (user-defined names: C12/C13); malformed expressions (C20); "
           "LaTeX representation; the alias list itself is the documentation (taken as given); top-level names shadowed by a physical "
           "constant are C15(c); registries: one added row at a time in the histories (the joint registries hold up to 6 rows "
           "with different denotations; two user rows that collide with each other are outside), WHICH value a re-defined table "
           "symbol or symbol form ('amol', 'km') takes (C12: here only that all its spellings agree resp. follow the new scale), "
           "prefix ++ t for a prefixable row t whose own name keeps a documented reading ('kau' next to a user's 'au': a user-defined "
           "name), spellings of a removed table symbol that have a second reading, 'd' ++ a user unit starting with 'a' (unyt tries "
           "'da' first and splits once), row names / tails that are no python identifier or are keywords ('in', 'as', the 66 names "
           "with a degree sign), dependent table rows after an edit (modify('m') leaves 'inch' alone: C12/C13), compound expressions "
           "cached before an edit (C13), define_unit on the process-wide default registry (C13), registries restored from JSON / "
           "pickle: everything but name resolution in them (C11), old-format (4-field) JSON rows (no flag stored), symbolic scales through JSON / "
           "pickle text, rows with an offset or named like a documented spelling through a route; string forms: encodings other than utf-8, padded / NUL-terminated labels, '%' and degree-sign rewriting inside "
           "compound expressions; related strings: splits into three or more names, splits whose parts carry an offset (degC), "
           "unicode normalisation forms (MICRO SIGN and GREEK MU are the same unit), division / power expressions (C13, C20)")
CONFORM = {"quick": 8, "thorough": 16}
# the histories that matter here are written inside the cases (custom/*, edit/*); the runner's sampled warm variants stay at the
# number the thorough tier had before the named-row and edit families were added
WARM_CAP = {"quick": 90, "thorough": 300}
CHUNK = 100


def _all_names(mods):
    from unyt._unit_lookup_table import inv_name_alternatives
    T = tables()
    us = mods["unyt"].unit_symbols
    Unit = mods["unyt"].Unit
    names = list(inv_name_alternatives)
    seen = set(names)
    extra = [k for k in vars(us) if not k.startswith("_") and isinstance(vars(us)[k], Unit) and k not in seen]
    seen |= set(extra)
    top = [k for k, v in vars(mods["unyt"]).items() if isinstance(v, Unit) and k not in seen and not k.startswith("_")]
    seen |= set(top)
    pp = [p + s for p in PREFIX_SYMS for s in T.syms if s in T.prefixable and p + s not in seen]
    return names + extra + top + pp


def make_names_case(k, chunk, unit_system=None):
    def h(ctx):
        unyt = ctx.mods["unyt"]
        Unit = unyt.Unit
        us_ns = vars(unyt.unit_symbols)
        top_ns = vars(unyt)
        T = tables()
        reg, S = sym_registry(ctx, unit_system)
        ns = {}
        ctx.mods["US"].add_symbols(ns, reg)
        for name in chunk:
            exp = expected(name, T)
            if exp is None:
                ctx.require(f"documented/{name}", False, why="exposed name has no reading by the documented rules")
                continue
            pv, sym = exp
            lab = label_of(name, T)          # reading kind + base spelling (string route: fine-grained fingerprints)
            kind = lab.split("/")[0]         # the other access paths are fingerprinted per reading kind; the name is in the info
            E = oracle_var(ctx, "e:" + name, S[sym] * pv)
            # 1. by string
            r = call(Unit, name, registry=reg)
            if r[0] == "raise":
                ctx.require(f"string/{lab}", False, name=name, exc=type(r[1]).__name__, msg=str(r[1])[:120])
                u_str = None
            else:
                u_str = r[1]
                ctx.require(f"string/{lab}", _unit_ok(ctx, u_str, E, T, exp), name=name, expected=f"{pv}*{sym}", got=str(u_str))
                ctx.observe(f"string/{name}", u_str.base_value)
            # 2. by attribute (unit_symbols, top level): the exported object, re-read in the symbolic registry
            a = us_ns.get(name)
            if name and name != "_":
                if not isinstance(a, Unit):
                    ctx.require(f"attribute/{kind}", False, why="not an attribute of unyt.unit_symbols")
                else:
                    ra = call(Unit, a.expr, registry=reg)
                    ok = ra[0] == "ok" and _unit_ok(ctx, ra[1], E, T, exp)
                    ground = And(close(a.base_value, float(T.rows[sym][0]) * pv), dimvec(a.dimensions) == dimvec(T.rows[sym][1]))
                    ctx.require(f"attribute/{kind}", And(ok, ground), name=name, expected=f"{pv}*{sym}", got=str(a))
                    t = top_ns.get(name)
                    if isinstance(t, Unit):
                        ctx.require(f"top-level/{kind}", t is a or (t.expr == a.expr and t.registry is a.registry))
                    elif t is None:
                        ctx.require(f"top-level/{kind}", False, why="unit_symbols attribute missing from the top-level namespace")
                    # else: shadowed by a physical constant of the same name -> C15(c)
            # 3. through the namespace of a custom registry
            if name and name != "_":
                n = ns.get(name)
                if n is None:
                    ctx.require(f"registry-namespace/{kind}", False, why="add_symbols did not create the name")
                else:
                    ok = _unit_ok(ctx, n, E, T, exp)
                    if u_str is not None:
                        ok = And(ok, close(n.base_value, u_str.base_value), n.dimensions == u_str.dimensions, n.registry is reg)
                    ctx.require(f"registry-namespace/{kind}", ok, name=name, expected=f"{pv}*{sym}", got=str(n))
    tag = f"names-{unit_system}" if unit_system else "names"
    return Case(f"C14/{tag}/{k:02d}", h, bounds=f"{len(chunk)} names, 145 symbolic scales", budget_s=600, weight=5)


# ------------------------------------------------------------------------------------------------ (a) string queries

def _ru(strs):
    """finite set of strings as a regular expression"""
    strs = sorted(set(strs))
    rs = [z3.Re(z3.StringVal(v)) for v in strs]
    if not rs:
        return z3.Empty(z3.ReSort(z3.StringSort()))
    return rs[0] if len(rs) == 1 else z3.Union(*rs)


def _rcat(P, B):
    """{p ++ b : p in P, b in B} as a regular expression"""
    P, B = list(P), list(B)
    return _ru(B) if P == [""] else z3.Concat(_ru(P), _ru(B))


def _rtwo(P, B):
    """strings with two readings p ++ b, p' ++ b' of the same kind with different prefixes p != p'"""
    P, B = list(P), list(B)
    return z3.Union(*[z3.Intersect(z3.Concat(z3.Re(z3.StringVal(p)), _ru(B)), z3.Concat(_ru([q for q in P if q != p]), _ru(B))) for p in P])


def z_multi_regexes(T):
    """one regular language per unordered pair of reading kinds: the strings that have a reading of each kind
    (for a pair of the same kind: two readings with different prefixes). Tables are read at run time."""
    ks = T.kinds()
    out = []
    for i, k1 in enumerate(ks):
        for k2 in ks[i:]:
            if k1 is k2:
                if len(k1[1]) > 1:
                    out.append((k1[0] + "+" + k2[0], _rtwo(k1[1], k1[2])))
            else:
                out.append((k1[0] + "+" + k2[0], z3.Intersect(_rcat(k1[1], k1[2]), _rcat(k2[1], k2[2]))))
    return out


def py_multi(s, T):
    return len(readings(s, T, title=True)) >= 2


def _nonpref_bases(T):
    return [x for x in T.syms if x not in T.prefixable] + [a for a, x in T.alias.items() if x not in T.prefixable and a]


def _all_prefix_spellings():
    return list(PREFIX_SYMS) + list(PREFIX_WORD) + [w.title() for w in PREFIX_WORD]


def _pn_families(T):
    nps = [x for x in T.syms if x not in T.prefixable]
    npa = [a for a, x in T.alias.items() if x not in T.prefixable and a]
    for pf, P in (("psym", list(PREFIX_SYMS)), ("pword", list(PREFIX_WORD)), ("Pword", [w.title() for w in PREFIX_WORD])):
        for bf, B in (("symbol", nps), ("alias", npa)):
            yield f"{pf}.{bf}", P, B


def z_exception_regexes(T):
    """one regular language per (prefix family, non-prefixable base family, reading kind): the strings
    (prefix symbol/word) ++ (non-prefixable symbol or alias) that have a reading of that kind"""
    out = []
    for fam, P, B in _pn_families(T):
        for k in T.kinds():
            out.append((f"prefix++non-prefixable:{fam}+" + k[0], z3.Intersect(_rcat(P, B), _rcat(k[1], k[2]))))
    return out


def py_prefixed_nonprefixable(s, T):
    bases = set(_nonpref_bases(T))
    return any(s.startswith(p) and s[len(p):] in bases for p in _all_prefix_spellings())


def all_sat_re(R, limit=200):
    """all strings of the regular language R by repeated z3 queries, each blocking what was found (bounded);
    returns (sorted list, complete?) - complete iff the last query is unsat"""
    s = z3.String("s")
    found = []
    while len(found) < limit:
        sol = z3.Solver()
        sol.set("timeout", 60000)
        sol.add(z3.InRe(s, z3.Intersect(R, z3.Complement(_ru(found))) if found else R))
        r = sol.check()
        if r != z3.sat:
            return sorted(found), r == z3.unsat
        found.append(sol.model().eval(s, model_completion=True).as_string())
    return sorted(found), False


_HINT = {}


def hint_lists():
    """candidate lists computed by the python reader (cheap; used to lay out the cases). Their completeness over ALL strings
    is what the z3 cases prove, and the z3 all-SAT enumeration must reproduce them exactly."""
    if not _HINT:
        T = tables()
        cands = set()
        for _, P, B in T.kinds():
            cands |= {p + b for p in P for b in B}
        _HINT["multi"] = sorted(c for c in cands if py_multi(c, T))
        _HINT["exc"] = sorted({p + b for p in _all_prefix_spellings() for b in _nonpref_bases(T) if readings(p + b, T)})
    return _HINT["multi"], _HINT["exc"]


def py_pair(m, tag, T):
    """does the python reader see the pair of readings named by a z_multi_pairs / z_exception_list tag?"""
    rs = readings(m, T)
    kinds = [r[0] for r in rs]
    if tag.startswith("prefix++"):
        fam, k2 = tag.split(":")[1].split("+")
        P, B = next((P, B) for f, P, B in _pn_families(T) if f == fam)
        return any(m.startswith(p) and m[len(p):] in set(B) for p in P) and k2 in kinds
    k1, k2 = tag.split("+")
    if k1 == k2:
        return len({r[1] for r in rs if r[0] == k1}) >= 2 or kinds.count(k1) >= 2
    return k1 in kinds and k2 in kinds


def make_complete_case(which, idx, tag):
    """for ALL strings s: (s has the two readings of this pair of kinds) -> s is in the reader's list; plus the all-SAT
    enumeration of the pair, which must terminate (unsat after blocking) and equal the reader's list"""
    def h(ctx):
        T = tables()
        multi, exc = hint_lists()
        LIST = multi if which == "multi" else exc
        default = "Tsun" if which == "multi" else "min"
        s = ctx.zconst("s", z3.StringSort(), default)
        label = f"every string with these two readings is enumerated/{tag}"
        if ctx.pinned:
            s = default         # a ground membership in a large regular language is evaluated by the python reader
        if isinstance(s, str):
            ctx.require(label, (not py_pair(s, tag, T)) or s in LIST, s=s)
            return
        f = (z_multi_regexes(T) if which == "multi" else z_exception_regexes(T))[idx]
        assert f[0] == tag
        R = z3.Intersect(f[1], z3.Complement(_ru(LIST))) if LIST else f[1]
        ctx.require(label, SymBool(z3.Not(z3.InRe(s, R))))
        if not ctx.pinned:
            found, complete = all_sat_re(f[1])
            ctx.require("all-SAT enumeration terminated with unsat", complete, found=found)
            ctx.require("all-SAT enumeration equals the reader's list", set(found) == {m for m in LIST if py_pair(m, tag, T)},
                        found=found, reader=[m for m in LIST if py_pair(m, tag, T)])
    return Case(f"C14/strings/complete-{which}/{tag}", h, bounds="all strings (z3 sequence theory), finite membership constraints",
                budget_s=600, weight=8, oblig_timeout_ms=120000)


def make_resolve_case(k, chunk):
    """each string with more than one reading: the real resolution takes the most authoritative reading
    (table symbol > listed alias > prefix split > title variant)"""
    def h(ctx):
        Unit = ctx.mods["unyt"].Unit
        T = tables()
        reg, S = sym_registry(ctx)
        for m in chunk:
            rs = readings(m, T)
            exp = denotation(rs[0])
            E = oracle_var(ctx, "e:" + m, S[exp[1]] * exp[0])
            r = call(Unit, m, registry=reg)
            lab = "/".join(sorted({x[0].split("-")[0] for x in rs}))
            if r[0] == "raise":
                ctx.require(f"resolves/{lab}/{m}", False, string=m, readings=rs, exc=type(r[1]).__name__)
                continue
            ctx.require(f"takes the authoritative reading/{lab}/{m}", _unit_ok(ctx, r[1], E, T, exp), string=m, readings=rs, got=str(r[1]))
            ctx.observe(f"resolve/{m}", r[1].base_value)
    return Case(f"C14/strings/resolve/{k:02d}", h, bounds=f"{len(chunk)} multi-reading strings")


def make_reject_case(k, chunk, exc):
    """prefix ++ non-prefixable unit: rejected (UnitParseError) unless the whole string has a reading of its own"""
    exc = set(exc)

    def h(ctx):
        unyt = ctx.mods["unyt"]
        Unit = unyt.Unit
        T = tables()
        reg, S = sym_registry(ctx)
        n_rej = 0
        for m in chunk:
            r = call(Unit, m, registry=reg)
            if m in exc:
                rs = readings(m, T)
                exp = denotation(rs[0])
                E = oracle_var(ctx, "e:" + m, S[exp[1]] * exp[0])
                ok = r[0] == "ok" and _unit_ok(ctx, r[1], E, T, exp)
                ctx.require(f"readable string keeps its own reading/{m}", ok, string=m, readings=rs)
            else:
                n_rej += 1
                ok = r[0] == "raise" and isinstance(r[1], unyt.exceptions.UnitParseError)
                ctx.require("prefix on non-prefixable unit rejected", ok, string=m,
                            got=(str(r[1]) if r[0] == "ok" else type(r[1]).__name__))
        ctx.observe("rejected", n_rej)
    return Case(f"C14/strings/reject/{k:02d}", h, bounds=f"{len(chunk)} prefix++non-prefixable strings")


# ------------------------------------------------------------------------------------------------ (c) registry configurations
# The documented names must keep their reading in EVERY registry that contains the documented table, whatever else a user
# has put next to it.  The region explored here: a registry to which one further unit `t` was added, where `t` is the TAIL of
# a documented spelling after an SI prefix symbol (t = "a" for "Pa"/"ha", "x" for "Mx", "ol" for "mol", "ascal" for "Pascal",
# "ilometer" for "kilometer" ...), so that the documented spelling admits a second reading prefix ++ t in that registry.
# Discrete axes: the tail (from a z3 string query, proved complete), the prefixable flag of the added row, the way the row got
# there (history of registry calls inside one path) and the registry it was added to.  Continuous: the 145 base scales and
# the scale(s) of the added row.

COLLIDER_KINDS = ("symbol", "alias", "title-symbol", "title-alias", "psym", "pword", "title-pword")
SAMPLED_KINDS = ("psym", "pword", "title-pword")          # thousands of tails with one mechanism each: seeded sample
HISTORIES = ("built", "add", "plain-add", "plain-define", "use-add", "add-remove", "flip", "add-modify", "copy-remove")
CORE_PREFIXES = ("k", "m", "da", "P")


_MEMO = {}


def _expected(name, T):
    """memo of the independent reader (the tables are static; filled in the parent process for the laid-out strings)"""
    k = ("e", name)
    if k not in _MEMO:
        _MEMO[k] = expected(name, T)
    return _MEMO[k]


def _label_of(name, T):
    k = ("l", name)
    if k not in _MEMO:
        _MEMO[k] = label_of(name, T)
    return _MEMO[k]


def _usable_tail(t, T):
    """a string a user can give to registry.add and write in a unit expression, and that is not itself a table symbol
    (re-defining a table symbol is C12)"""
    return bool(t) and t.isidentifier() and not keyword.iskeyword(t) and t not in T.rows and t not in _PARSER_GLOBALS


_PARSER_GLOBALS = ("Symbol", "Integer", "Float", "Rational", "sqrt")


def _kind_strings(T, kind):
    k = next(k for k in T.kinds() if k[0] == kind)
    return {p + b for p in k[1] for b in k[2]}


def py_colliders(T, kind):
    """reader's list: documented spellings of this reading kind that also read as prefix symbol ++ t for a usable tail t;
    returns {tail: [spellings]}"""
    out = {}
    for d in sorted(_kind_strings(T, kind)):
        for p in PREFIX_SYMS:
            if d.startswith(p) and _usable_tail(d[len(p):], T):
                out.setdefault(d[len(p):], []).append(d)
    return out


def z_collider_regex(T, kind):
    """the same set as a regular language over ALL strings: (reading of this kind) and (prefix symbol ++ non-empty tail that is
    no table symbol). Usability of the tail as a python identifier is a filter applied afterwards (it is not regular over
    unicode in z3's alphabet), so the z3 language is a superset that the reader's unfiltered list must match."""
    k = next(k for k in T.kinds() if k[0] == kind)
    sigma = z3.AllChar(z3.ReSort(z3.StringSort()))
    tail = z3.Intersect(z3.Plus(sigma), z3.Complement(_ru(T.syms)))
    return z3.Intersect(_rcat(k[1], k[2]), z3.Concat(_ru(PREFIX_SYMS), tail))


def py_collider_strings(T, kind):
    """unfiltered reader's list for the z3 comparison"""
    return sorted(d for d in _kind_strings(T, kind)
                  if any(d.startswith(p) and len(d) > len(p) and d[len(p):] not in T.rows for p in PREFIX_SYMS))


def make_tails_complete_case(kind, allsat=True):
    """for ALL strings s: (s has a documented reading of this kind and splits as prefix symbol ++ tail, tail no table symbol)
    -> s is in the reader's list from which the registry configurations below are laid out; for the small kinds also the
    all-SAT enumeration, which must terminate and reproduce the list"""
    def h(ctx):
        T = tables()
        LIST = py_collider_strings(T, kind)
        default = LIST[0] if LIST else "Pa"
        s = ctx.zconst("s", z3.StringSort(), default)
        label = f"every documented spelling with a prefix ++ tail split is enumerated/{kind}"
        if ctx.pinned:
            s = default
        if isinstance(s, str):
            member = any(s.startswith(p) and len(s) > len(p) and s[len(p):] not in T.rows for p in PREFIX_SYMS) and s in _kind_strings(T, kind)
            ctx.require(label, (not member) or s in LIST, s=s)
            return
        R = z_collider_regex(T, kind)
        ctx.require(label, SymBool(z3.Not(z3.InRe(s, z3.Intersect(R, z3.Complement(_ru(LIST))) if LIST else R))))
        if not ctx.pinned and allsat:
            found, complete = all_sat_re(R, limit=400)
            ctx.require("all-SAT enumeration terminated with unsat", complete, found=found)
            ctx.require("all-SAT enumeration equals the reader's list", found == LIST, found=found, reader=LIST)
    return Case(f"C14/strings/complete-tails/{kind}", h, bounds="all strings (z3 sequence theory), finite membership constraints",
                budget_s=600, weight=8, oblig_timeout_ms=120000)


def ext_reading(name, T, t, flag, present=True):
    """independent reader for the registry (documented table + added row t): ('doc', (prefix value, symbol)) for every
    documented spelling (documented readings outrank anything a user adds next to them), ('user', prefix value) for t itself
    and, if the row is prefixable, for prefix symbol ++ t; ('skip', None) where C14 makes no statement; None = no reading"""
    doc = _expected(name, T)
    if doc is not None:
        # a user who names a row like a SYMBOL FORM (prefix symbol ++ prefixable table symbol: "amol", "km") re-defines that
        # prefixed unit on purpose (which value it then has is C12's matter); what C14 demands of its spellings is that they
        # agree with each other: _consistency.  A row named like any other documented spelling (listed alias, word form,
        # title-case variant, prefix ++ short alias: "au", "parsec", "Kilometer", "ml") leaves the documented reading of that
        # spelling, and of every other spelling, untouched.
        if present and _symbol_form(t, T) and doc == _expected(t, T):
            return ("skip", None)
        return ("doc", doc)
    if keyword.iskeyword(name) or name in _PARSER_GLOBALS or not name.isidentifier():
        return ("skip", None)
    if not present:
        return None
    t_doc = _expected(t, T) is not None and not _symbol_form(t, T)
    if name == t:
        return ("user", 1.0)
    for p in PREFIX_SYMS:                       # 'da' is listed before 'd': deca is tried first
        if name == p + t:
            if name.startswith("da") and p != "da":
                return ("skip", None)           # unyt splits once and tries 'da' first: 'd' ++ 'a...' of a user unit is C12's matter
            if t_doc:
                # t itself keeps its documented reading; prefix ++ t is no documented spelling: a non-prefixable row must
                # still refuse it, for a prefixable row the string is a user-defined name (C12/C13)
                return ("skip", None) if flag else None
            return ("user", PREFIX[p]) if flag else None
    return None


def _symbol_form(t, T):
    """t is a table symbol or prefix symbol ++ prefixable table symbol (any of the spellings of a prefix symbol)"""
    k = ("sf", t)
    if k not in _MEMO:
        _MEMO[k] = t in T.rows or any(t.startswith(p) and t[len(p):] in T.prefixable for p in PREFIX_SYMS)
    return _MEMO[k]


MICRO = ("u", "\u00b5", "\u03bc")


def _consistency(ctx, cfg, reg, t, st, flag, strings, step, udims, ns=None):
    """the row is named like a symbol form (prefix symbol ++ prefixable table symbol): every spelling of that prefixed unit
    in `strings` must denote ONE unit - all of them the documented one or all of them the user's row.  Two obligations:
    (A) the symbol forms among themselves (for micro: u / MICRO SIGN / GREEK MU), (B) the alias and word forms together with
    the symbol forms.  With ns: the same for the units add_symbols hands out, together with the strings."""
    unyt = ctx.mods["unyt"]
    Unit = unyt.Unit
    T = cfg.T
    doc = _expected(t, T)
    fl = "prefixable" if flag else "non-prefixable"
    group = [n for n in strings if _expected(n, T) == doc]
    if t not in group:
        group.append(t)
    A = [n for n in group if _symbol_form(n, T)]
    B = [n for n in group if not _symbol_form(n, T)]
    E = cfg.doc_value("grp:" + t, doc)
    got = {}

    def verdicts(names):
        d, u = [], []
        for n in names:
            objs = []
            r = call(Unit, n, registry=reg)
            got[n] = str(r[1])[:40] if r[0] == "ok" else type(r[1]).__name__
            objs.append(r[1] if r[0] == "ok" else None)
            if ns is not None and n in vars(unyt.unit_symbols):
                objs.append(ns.get(n))
            for o in objs:
                if o is None:
                    d.append(False), u.append(False)
                else:
                    d.append(_unit_ok(ctx, o, E, T, doc, check_offset=False))
                    u.append(And(close(o.base_value, st), dimvec(o.dimensions) == dimvec(udims)))
        return d, u
    cls = "micro" if t[0] in MICRO else "other"
    route = "string+namespace" if ns is not None else "string"
    dA, uA = verdicts(A)
    ctx.require(f"{step}/{fl}/{route}/symbol forms of a re-defined prefixed unit agree/{cls}", Or(And(*dA), And(*uA)), row=t, forms=A, got=dict(got))
    if B:
        dB, uB = verdicts(B)
        ctx.require(f"{step}/{fl}/{route}/alias and word forms follow the symbol form of a re-defined prefixed unit/{cls}",
                    Or(And(*(dA + dB)), And(*(uA + uB))), row=t, forms=A + B, got=dict(got))


class _Cfg:
    """one registry under test inside a path: the real registry, how the expected scale of a table symbol is written
    (symbolic S[sym] or the table float), and a cache of oracle variables"""

    def __init__(self, ctx, tag, plain=False):
        self.ctx, self.tag, self.plain = ctx, tag, plain
        self.T = tables()
        if plain:
            self.reg, self.S = ctx.mods["UR"].UnitRegistry(), None
        else:
            self.reg, self.S = sym_registry(ctx)
        self.E = {}

    def doc_value(self, name, exp):
        if name not in self.E:
            pv, sym = exp
            base = float(self.T.rows[sym][0]) if self.plain else self.S[sym]
            self.E[name] = oracle_var(self.ctx, f"e:{'plain' if self.plain else 'sym'}:{name}", base * pv)
        return self.E[name]


def _battery(ctx, cfg, reg, t, st, flag, present, strings, step, udims):
    """resolve every string in the real registry and compare with the independent reading"""
    unyt = ctx.mods["unyt"]
    Unit = unyt.Unit
    T = cfg.T
    fl = "prefixable" if flag else "non-prefixable"
    for name in strings:
        rd = ext_reading(name, T, t, flag, present)
        if rd is not None and rd[0] == "skip":
            continue
        r = call(Unit, name, registry=reg)
        got = str(r[1])[:60] if r[0] == "ok" else type(r[1]).__name__
        if rd is None:
            ok = r[0] == "raise" and isinstance(r[1], unyt.exceptions.UnitParseError)
            what = "prefix on non-prefixable added unit rejected" if (present and name != t) else "spelling of a removed unit rejected"
            ctx.require(f"{step}/{fl}/{what}", ok, string=name, tail=t, got=got)
        elif rd[0] == "doc":
            E = cfg.doc_value(name, rd[1])
            ok = r[0] == "ok" and And(_unit_ok(ctx, r[1], E, T, rd[1]), r[1].registry is reg)
            ctx.require(f"{step}/{fl}/documented name keeps its reading/{_label_of(name, T)}", ok, string=name, tail=t,
                        expected=f"{rd[1][0]}*{rd[1][1]}", got=got)
        else:
            ok = r[0] == "ok" and And(close(r[1].base_value, st * rd[1]), dimvec(r[1].dimensions) == dimvec(udims), r[1].registry is reg)
            what = "added unit itself" if name == t else "prefix x added unit"
            ctx.require(f"{step}/{fl}/{what}", ok, string=name, tail=t, prefix=rd[1], got=got)
    if present and _symbol_form(t, T) and _expected(t, T) is not None:
        _consistency(ctx, cfg, reg, t, st, flag, strings, step, udims)


def _strings_for(T, t, colliders, level, names_by_sym):
    core = list(colliders) + [p + t for p in CORE_PREFIXES if p + t not in colliders] + [t]
    if level == "core":
        return core
    full = list(colliders) + [p + t for p in PREFIX_SYMS if p + t not in colliders] + [t]
    for c in colliders:                         # dependents: the other spellings of the unit a colliding spelling denotes
        sym = _expected(c, T)[1]
        full += [n for n in names_by_sym.get(sym, ()) if n not in full]
    return full


_DEP = {}


def _names_by_sym(mods):
    """documented spellings per canonical symbol with prefix in {none, k, m, da} (the dependents of a colliding spelling)"""
    if not _DEP:
        T = tables()
        for n in _all_names(mods):
            e = expected(n, T)
            if e is not None and e[0] in (1.0, 1e3, 1e-3, 1e1) and n.isidentifier() and n != "_":
                _DEP.setdefault(e[1], []).append(n)
    return _DEP


def run_history(ctx, hist, t, flag, colliders, level, names_by_sym, namespace=False, extra=()):
    """one history of registry calls on a fresh registry, with the battery after (and between) the steps"""
    unyt = ctx.mods["unyt"]
    Unit = unyt.Unit
    T = tables()
    D = unyt.dimensions
    udims = D.time
    st = ctx.real(f"u:{t}", pos=True)
    if not ctx.symbolic:
        st = float(st)
    strings = _strings_for(T, t, colliders, level, names_by_sym)
    core = _strings_for(T, t, colliders, "core", names_by_sym)
    strings += [n for n in extra if n not in strings]
    core += [n for n in extra if n not in core]
    tex = r"\rm{" + t.replace("_", r"\ ") + "}"
    plain = hist.startswith("plain")
    if hist == "built":
        # the row is part of the table the registry is constructed from
        cfg = _Cfg(ctx, hist)
        lut = dict(cfg.reg.lut)
        lut[t] = (st, udims, 0.0, tex, flag)
        cfg.reg = ctx.mods["UR"].UnitRegistry(add_default_symbols=False, lut=lut)
        _battery(ctx, cfg, cfg.reg, t, st, flag, True, strings, hist, udims)
        if namespace:
            ns = {}
            ctx.mods["US"].add_symbols(ns, cfg.reg)
            fl = "prefixable" if flag else "non-prefixable"
            for name in strings:
                rd = ext_reading(name, T, t, flag, True)
                if rd is None or rd[0] != "doc" or name not in vars(unyt.unit_symbols):
                    continue
                n = ns.get(name)
                ok = n is not None and And(_unit_ok(ctx, n, cfg.doc_value(name, rd[1]), T, rd[1]), n.registry is cfg.reg)
                ctx.require(f"{hist}/{fl}/registry-namespace/{_label_of(name, T)}", ok, string=name, tail=t, got=str(n)[:100])
            if t not in vars(unyt.unit_symbols):
                n = ns.get(t)
                ok = n is not None and And(close(n.base_value, st), dimvec(n.dimensions) == dimvec(udims))
                ctx.require(f"{hist}/{fl}/registry-namespace/added unit itself", ok, tail=t, got=str(n)[:100])
        return
    cfg = _Cfg(ctx, hist, plain=plain)
    reg = cfg.reg
    if hist in ("add", "plain-add"):
        reg.add(t, st, udims, prefixable=flag)
        _battery(ctx, cfg, reg, t, st, flag, True, strings if hist == "add" else core, hist, udims)
    elif hist == "plain-define":
        r = call(unyt.define_unit, t, (st, "s"), prefixable=flag, registry=reg)
        if t in T.rows or any(t == p + b for p in PREFIX_SYMS for b in T.prefixable):
            # the registry can already read t as prefix ++ prefixable table symbol ("as", "am"): define_unit must refuse
            ctx.require(f"{hist}/define_unit refuses a symbol the registry already reads", r[0] == "raise" and isinstance(r[1], RuntimeError),
                        tail=t, got=repr(r[1])[:100])
            return
        ctx.require(f"{hist}/define_unit accepted", r[0] == "ok", tail=t, got=repr(r[1])[:100])
        if r[0] == "ok":
            _battery(ctx, cfg, reg, t, st, flag, True, core, hist, udims)
    elif hist == "use-add":
        for name in core:                       # fills the unit caches before the row exists
            rd = ext_reading(name, T, t, flag, False)
            if rd is not None and rd[0] == "doc":
                _battery(ctx, cfg, reg, t, st, flag, False, [name], hist + ":before", udims)
            elif rd is None:
                call(Unit, name, registry=reg)
        reg.add(t, st, udims, prefixable=flag)
        _battery(ctx, cfg, reg, t, st, flag, True, core, hist + ":after", udims)
    elif hist == "add-remove":
        reg.add(t, st, udims, prefixable=flag)
        _battery(ctx, cfg, reg, t, st, flag, True, core, hist + ":added", udims)
        reg.remove(t)
        _battery(ctx, cfg, reg, t, st, flag, False, core, hist + ":removed", udims)
    elif hist == "flip":
        reg.add(t, st, udims, prefixable=not flag)
        _battery(ctx, cfg, reg, t, st, not flag, True, core, hist + ":first", udims)
        reg.add(t, st, udims, prefixable=flag)
        _battery(ctx, cfg, reg, t, st, flag, True, core, hist + ":re-added", udims)
    elif hist == "add-modify":
        s0 = ctx.real(f"u0:{t}", pos=True)
        if not ctx.symbolic:
            s0 = float(s0)
        reg.add(t, s0, udims, prefixable=flag)
        _battery(ctx, cfg, reg, t, s0, flag, True, core, hist + ":added", udims)
        reg.modify(t, st)
        _battery(ctx, cfg, reg, t, st, flag, True, core, hist + ":modified", udims)
    elif hist == "copy-remove":
        reg.add(t, st, udims, prefixable=flag)
        r2 = copy.copy(reg)
        _battery(ctx, cfg, r2, t, st, flag, True, core, hist + ":copy", udims)
        reg.remove(t)
        _battery(ctx, cfg, r2, t, st, flag, True, core, hist + ":copy after removal from the original", udims)
        _battery(ctx, cfg, reg, t, st, flag, False, core, hist + ":original after removal", udims)
    else:
        raise ValueError(hist)


def make_custom_case(family, idx, items, hists, full, full_hists=("built",)):
    """items: [(tail, [colliding documented spellings])]; every history x both prefixable flags in ONE path (fresh registry
    per history; the runner clears unyt's caches only at the start of the path)"""
    def h(ctx):
        nbs = _names_by_sym(ctx.mods) if full else {}
        for t, colliders in items:
            for hist in hists:
                for flag in (True, False):
                    lvl = "full" if (full and hist in full_hists) else "core"
                    run_history(ctx, hist, t, flag, colliders, lvl, nbs, namespace=(full and flag and hist == "built"))
        ctx.observe("tails", len(items))
    name = items[0][0] if len(items) == 1 else f"{idx:03d}"
    return Case(f"C14/custom/{family}/{name}", h, bounds=f"{len(items)} tails x {len(hists)} histories x 2 flags, 145+2 symbolic scales",
                budget_s=600, weight=4)


def custom_layout(tier):
    """[(family, [(tail, colliders)], histories, full?)] - which tails get which histories in this tier"""
    T = tables()
    seed = int(os.environ.get("VERIF_SEED", "0") or 0)
    rnd = random.Random(1000 + seed)
    seen = set()
    out = []
    for kind in COLLIDER_KINDS:
        tails = py_colliders(T, kind)
        items = [(t, c) for t, c in sorted(tails.items()) if t not in seen]
        if kind in SAMPLED_KINDS:
            k = {"quick": 24, "thorough": 160}[tier]
            items = sorted(rnd.sample(items, min(k, len(items))))
        seen |= {t for t, _ in items}
        # all documented spellings (of any kind) that collide with prefix ++ t, not only those of the kind that produced t
        items = [(t, sorted({d for k2 in COLLIDER_KINDS for d in py_colliders_cached(k2).get(t, ())})) for t, _ in items]
        if kind == "symbol":
            out.append((kind, items, HISTORIES, True))
        elif tier == "thorough":
            out.append((kind, items, HISTORIES, False))
        else:
            out.append((kind, items, ("built", "add", "plain-define"), False))
    return out


# ---- rows NAMED like a documented spelling -------------------------------------------------------------------------------
# The same axis from the other side: the added row's own name t is a documented spelling (a listed alias "au", a title-case
# variant "Parsec", prefix ++ short alias "ml", a prefix-word form "kilometer", a symbol form "um"/"km").  The strings walked
# for each t: t itself, every other spelling of the unit t denotes in the documentation (all prefix spellings), the
# documented spellings that split as prefix ++ t, and k/m/da/P ++ t.

NAMED_KINDS = ("alias", "title-alias", "title-symbol", "psym-short", "psym-sym", "pword", "title-pword")
NAMED_SAMPLED = {"title-alias": (40, None), "psym-short": (24, None), "psym-sym": (24, 200), "pword": (24, 240),
                 "title-pword": (24, 240)}   # sample size (quick, thorough); None = all; psym-*: so many micro forms + so many others
NAMED_HISTS = {"quick": ("built", "add", "use-add"), "thorough": HISTORIES}
NAMED_HISTS_GENERATED = ("built", "add", "use-add", "add-remove")      # thorough, the three large generated families
NAMED_GENERATED = ("psym-sym", "pword", "title-pword")
_NAMED = {}


def _kind_of(name, T):
    rs = readings(name, T)
    if not rs:
        return None
    k = rs[0][0]
    if k == "psym":
        k = "psym-sym" if rs[0][3] in T.rows else "psym-short"
    return k


def _by_denotation(mods):
    """documented identifier spellings per (prefix value, canonical symbol)"""
    if "den" not in _NAMED:
        T = tables()
        d = {}
        for n in _all_names(mods):
            e = expected(n, T)
            if e is not None and n.isidentifier() and n != "_":
                d.setdefault(e, []).append(n)
        _NAMED["den"] = d
    return _NAMED["den"]


def named_layout(tier, mods):
    """[(family, [(t, colliders, extra)], histories)]: every listed alias, title-case alias and title-case symbol; every
    micro spelling (u / MICRO SIGN / GREEK MU ++ symbol or short alias); a VERIF_SEED sample (quick) resp. all (thorough) of
    the other generated spellings"""
    key = ("layout", tier)
    if key in _NAMED:
        return _NAMED[key]
    T = tables()
    seed = int(os.environ.get("VERIF_SEED", "0") or 0)
    rnd = random.Random(2000 + seed)
    den = _by_denotation(mods)
    by_kind = {k: [] for k in NAMED_KINDS}
    for n in _all_names(mods):
        k = _kind_of(n, T)
        if k in by_kind and _usable_tail(n, T):
            by_kind[k].append(n)
    out = []
    for kind in NAMED_KINDS:
        names = sorted(by_kind[kind])
        if kind in NAMED_SAMPLED:
            k = NAMED_SAMPLED[kind][0 if tier == "quick" else 1]
            if k is not None:
                micro = [n for n in names if n[0] in MICRO and kind.startswith("psym")]
                rest = [n for n in names if n not in micro]
                names = sorted((micro if tier == "thorough" else rnd.sample(micro, min(k, len(micro)))) + rnd.sample(rest, min(k, len(rest))))
        items = []
        for t in names:
            coll = sorted({d for k2 in COLLIDER_KINDS for d in py_colliders_cached(k2).get(t, ())})
            extra = [n for n in den.get(expected(t, T), ()) if n != t]
            items.append((t, coll, extra))
        out.append(("named-" + kind, items, NAMED_HISTS_GENERATED if (tier == "thorough" and kind in NAMED_GENERATED) else NAMED_HISTS[tier]))
    _NAMED[key] = out
    return out


def run_joint(ctx, items, flag):
    """all rows of the case added to ONE registry (each with a scale of its own), then the strings of every row and the units
    add_symbols(ns, registry) hands out for them: the documented unit on both routes; for a row named like a symbol form:
    one unit for all spellings on both routes.  Rows whose documented denotation is already taken by an earlier row of the
    case are left out (two user rows for one prefixed unit collide with each other: outside)."""
    unyt = ctx.mods["unyt"]
    Unit = unyt.Unit
    T = tables()
    udims = unyt.dimensions.time
    fl = "prefixable" if flag else "non-prefixable"
    cfg = _Cfg(ctx, "joint")
    reg = cfg.reg
    rows, dens = [], set()
    for t, colliders, extra in items:
        d = _expected(t, T)
        if d in dens:
            continue
        dens.add(d)
        st = ctx.real(f"u:{t}", pos=True)
        if not ctx.symbolic:
            st = float(st)
        reg.add(t, st, udims, prefixable=flag)
        rows.append((t, colliders, extra, st))
    redefined = {_expected(t, T) for t, _, _, _ in rows if _symbol_form(t, T)}
    ns = {}
    ctx.mods["US"].add_symbols(ns, reg)
    us = vars(unyt.unit_symbols)
    for t, colliders, extra, st in rows:
        strings = _strings_for(T, t, colliders, "core", {})
        strings += [n for n in extra if n not in strings]
        for name in strings:
            rd = ext_reading(name, T, t, flag, True)
            if rd is None or rd[0] != "doc" or rd[1] in redefined:
                continue
            E = cfg.doc_value(name, rd[1])
            r = call(Unit, name, registry=reg)
            ok = r[0] == "ok" and _unit_ok(ctx, r[1], E, T, rd[1])
            ctx.require(f"joint/{fl}/documented name keeps its reading/{_label_of(name, T)}", ok, string=name, row=t,
                        got=str(r[1])[:60] if r[0] == "ok" else type(r[1]).__name__)
            if name in us:
                n = ns.get(name)
                ok = n is not None and And(_unit_ok(ctx, n, E, T, rd[1]), n.registry is reg)
                ctx.require(f"joint/{fl}/registry-namespace/{_label_of(name, T)}", ok, string=name, row=t, got=str(n)[:60])
        if _symbol_form(t, T):
            _consistency(ctx, cfg, reg, t, st, flag, strings, "joint", udims, ns=ns)


def make_named_case(family, idx, items, hists):
    """items: [(row name t, documented spellings prefix ++ t, other spellings of the unit t denotes)]; every history x both
    prefixable flags in one path"""
    def h(ctx):
        for t, colliders, extra in items:
            for hist in hists:
                for flag in (True, False):
                    run_history(ctx, hist, t, flag, colliders, "core", {}, extra=extra)
        for flag in (True, False):
            run_joint(ctx, items, flag)
        ctx.observe("rows", len(items))
    return Case(f"C14/custom/{family}/{idx:03d}", h, bounds=f"{len(items)} row names x {len(hists)} histories x 2 flags, 145+2 symbolic scales",
                budget_s=600, weight=4)


# ---- edits of a TABLE symbol after its spellings were used ---------------------------------------------------------------
# "Every spelling denotes the same unit as its canonical spelling scaled by exactly the prefix" is a statement about the
# registry as it is NOW: when the canonical symbol of a custom registry is modified, re-added or removed, every spelling of
# it - alias, word form, title-case variant, prefixed form - must follow, whatever was looked up before the edit (the
# registry answers repeated unit strings from a cache keyed by the string the caller typed).  Discrete axes: the table
# symbol, the history of registry calls (each starts by resolving every spelling once), the registry kind (symbolic
# table / plain UnitRegistry()), the route (string, add_symbols namespace).  Continuous: 145 table scales, the new scale(s).

EDIT_HISTORIES = ("modify", "readd", "remove", "remove-add", "flip", "copy-modify", "modify-twice", "plain-modify", "plain-readd")
EDIT_HISTS = {"quick": ("modify", "readd", "remove", "flip", "copy-modify", "plain-modify"), "thorough": EDIT_HISTORIES}
EDIT_QUICK_PREFIX_VALUES = (1.0, 1e3, 1e-3, 1e1, 1e-6)


def _edit_names(mods, sym, tier):
    """the documented identifier spellings of sym: every alias / title-case variant; prefixed forms (symbol, short alias,
    word, title-case word) for k, m, da and the three micro spellings (quick) resp. all prefixes (thorough)"""
    den = _by_denotation(mods)
    out = []
    for (pv, s2), names in den.items():
        if s2 == sym and (tier == "thorough" or pv in EDIT_QUICK_PREFIX_VALUES):
            out += names
    return out


def run_edit(ctx, hist, sym, names, namespace=False):
    unyt = ctx.mods["unyt"]
    Unit = unyt.Unit
    T = tables()
    PE = unyt.exceptions.UnitParseError
    _, dims, off, _, flag0 = T.rows[sym]
    flag0 = bool(flag0)
    plain = hist.startswith("plain")
    cfg = _Cfg(ctx, "edit:" + hist, plain=plain)
    reg = cfg.reg
    old = float(T.rows[sym][0]) if plain else cfg.S[sym]

    def fresh(tag):
        v = ctx.real(f"{tag}:{sym}", pos=True)
        return v if ctx.symbolic else float(v)

    def add(r, scale, prefixable):
        kw = {"offset": float(off)} if float(off) != 0.0 else {}
        r.add(sym, scale, dims, prefixable=prefixable, **kw)

    def other_reading(name):
        """a reading of the string, or of a symbol form prefix ++ sym with the same prefix value, that does not go through sym"""
        pv = _expected(name, T)[0]
        forms = [name] + [p + sym for p in PREFIX_SYMS if PREFIX[p] == pv and pv != 1.0]
        return any(r[2] != sym for f in forms for r in readings(f, T))

    def check(r, scale, step, prefixable=flag0, present=True, ns=None):
        """every spelling against the registry as it is now: prefix * scale; rejected when the symbol is gone, and the
        prefixed spellings when the row is not prefixable"""
        for name in names:
            pv = _expected(name, T)[0]
            res = call(Unit, name, registry=r)
            got = str(res[1])[:60] if res[0] == "ok" else type(res[1]).__name__
            lab = _label_of(name, T)
            if not present or (pv != 1.0 and not prefixable):
                if other_reading(name):
                    continue
                what = "spelling of a removed table symbol rejected" if not present else "prefixed spelling of a symbol re-added as non-prefixable rejected"
                ctx.require(f"{hist}:{step}/{what}/{lab}", res[0] == "raise" and isinstance(res[1], PE), string=name, symbol=sym, got=got)
                continue
            E = oracle_var(ctx, f"e:{hist}:{step}:{name}", scale * pv)
            # the unit must also belong to the registry it was asked from (a unit object shared with another registry
            # follows that registry's later edits)
            ok = res[0] == "ok" and And(_unit_ok(ctx, res[1], E, T, (pv, sym)), res[1].registry is r)
            ctx.require(f"{hist}:{step}/spelling follows its canonical symbol/{lab}", ok, string=name, symbol=sym, prefix=pv, got=got)
            if ns is not None and name in vars(unyt.unit_symbols):
                n = ns.get(name)
                ok = n is not None and And(_unit_ok(ctx, n, E, T, (pv, sym)), n.registry is r)
                ctx.require(f"{hist}:{step}/registry-namespace follows the canonical symbol/{lab}", ok, string=name, symbol=sym, got=str(n)[:60])
        if prefixable and not flag0 and present:
            # a non-prefixable table symbol re-added as prefixable: prefix ++ symbol is the user's prefixed unit unless the
            # string is a documented spelling of something else
            for p in CORE_PREFIXES:
                name = p + sym
                if not name.isidentifier():
                    continue
                res = call(Unit, name, registry=r)
                got = str(res[1])[:60] if res[0] == "ok" else type(res[1]).__name__
                d = _expected(name, T)
                if d is not None:
                    if d[1] == sym:
                        continue
                    ok = res[0] == "ok" and _unit_ok(ctx, res[1], cfg.doc_value(name, d), T, d)
                    ctx.require(f"{hist}:{step}/documented name keeps its reading/{_label_of(name, T)}", ok, string=name, symbol=sym, got=got)
                else:
                    ok = res[0] == "ok" and And(close(res[1].base_value, scale * PREFIX[p]), dimvec(res[1].dimensions) == dimvec(dims))
                    ctx.require(f"{hist}:{step}/prefix x symbol re-added as prefixable", ok, string=name, symbol=sym, got=got)

    def namespace_of(r):
        if not namespace:
            return None
        ns = {}
        ctx.mods["US"].add_symbols(ns, r)
        return ns

    check(reg, old, "used")                     # every spelling is resolved once: the history all variants share
    s1 = fresh("n1")
    if hist in ("modify", "plain-modify"):
        reg.modify(sym, s1)
        check(reg, s1, "modified", ns=namespace_of(reg))
    elif hist in ("readd", "plain-readd"):
        add(reg, s1, flag0)
        check(reg, s1, "re-added", ns=namespace_of(reg))
    elif hist == "remove":
        reg.remove(sym)
        check(reg, None, "removed", present=False)
    elif hist == "remove-add":
        reg.remove(sym)
        add(reg, s1, flag0)
        check(reg, s1, "re-added")
    elif hist == "flip":
        add(reg, s1, not flag0)
        check(reg, s1, "flipped", prefixable=not flag0)
        add(reg, s1, flag0)
        check(reg, s1, "flipped back")
    elif hist == "copy-modify":
        r2 = copy.copy(reg)
        reg.modify(sym, s1)
        check(r2, old, "copy after the original was modified")
        check(reg, s1, "original modified")
        s2 = fresh("n2")
        r2.modify(sym, s2)
        check(r2, s2, "copy modified")
        check(reg, s1, "original after the copy was modified")
    elif hist == "modify-twice":
        reg.modify(sym, s1)
        check(reg, s1, "modified")
        s2 = fresh("n2")
        reg.modify(sym, s2)
        check(reg, s2, "modified again")
    else:
        raise ValueError(hist)


def edit_symbols(T):
    """table symbols whose scale is a symbol in sym_registry (positive scale, not the number one)"""
    return [s for s, r in T.rows.items() if r[0] > 0 and s != "dimensionless"]


def _edit_id(sym):
    return sym if sym.isidentifier() else "sym-" + "-".join(f"{ord(c):x}" for c in sym)


def make_edit_case(sym, names, hists):
    def h(ctx):
        for hist in hists:
            run_edit(ctx, hist, sym, names, namespace=(hist == "modify"))
        ctx.observe("spellings", len(names))
    return Case(f"C14/edit/{_edit_id(sym)}", h, bounds=f"{len(names)} spellings x {len(hists)} histories, 145+2 symbolic scales", budget_s=600, weight=4)


# ---- the FORM in which the unit string is handed over ------------------------------------------------------------------
# Unit() accepts the name as str and as bytes (labels read back from HDF5 attributes / FITS cards / numpy "S" fields), numpy
# hands out its own scalar subclasses of both, and every constructor / conversion that takes `units` passes the object on.
# A documented spelling must denote the same unit in each form.  Discrete axes: the name (all names with a non-ASCII
# character, where encodings differ; a VERIF_SEED sample resp. all of the ASCII ones), the form (bytes utf-8, numpy.bytes_,
# numpy.str_, a str subclass), the receiving call (Unit, unyt_quantity(units=), unyt_array(units=), quantity.to, in_units);
# the form is used on a registry that has not seen the str spelling yet, then the str spelling, then the form again (cache
# filled by the other form).  Continuous: the 145 table scales.

FORM_SAMPLE = {"quick": 160, "thorough": None}


class _Str(str):
    pass


def _forms_of(name, rich):
    import numpy as np
    b = name.encode("utf-8")
    out = [("bytes", b)]
    if rich:
        out += [("numpy.bytes_", np.bytes_(b)), ("numpy.str_", np.str_(name)), ("str-subclass", _Str(name))]
    return out


def make_forms_case(k, chunk):
    def h(ctx):
        unyt = ctx.mods["unyt"]
        Unit = unyt.Unit
        UA = ctx.mods["UA"]
        T = tables()
        reg, S = sym_registry(ctx)
        reg_str, _ = sym_registry(ctx)          # sees str spellings only
        for i, name in enumerate(chunk):
            exp = _expected(name, T)
            if exp is None:
                continue
            pv, sym = exp
            kind = _label_of(name, T).split("/")[0]
            asc = "ascii" if name.isascii() else "non-ascii"
            E = oracle_var(ctx, "e:" + name, S[sym] * pv)
            rich = (not name.isascii()) or i % 8 == 0
            rs = call(Unit, name, registry=reg_str)
            if rs[0] == "raise":
                # the str spelling itself is refused (that is names/*'s obligation "string/..." to report, e.g. the exported
                # <prefix word> ++ degree-sign names): what is demanded of the other forms is the same outcome
                for fname, obj in _forms_of(name, rich) + [("str", name)]:
                    r = call(Unit, obj, registry=reg)
                    ctx.require(f"form/{fname}/same outcome as a str spelling that is refused/{asc}/{kind}",
                                r[0] == "raise" and type(r[1]) is type(rs[1]), name=name, str_outcome=type(rs[1]).__name__,
                                got=(str(r[1])[:60] if r[0] == "ok" else type(r[1]).__name__))
                continue

            def verdict(r):
                return r[0] == "ok" and And(_unit_ok(ctx, r[1], E, T, exp), r[1].registry is reg)

            def got(r):
                return str(r[1])[:60] if r[0] == "ok" else type(r[1]).__name__
            forms = _forms_of(name, rich)
            for fname, obj in forms:            # before the registry has seen the str spelling
                r = call(Unit, obj, registry=reg)
                ctx.require(f"form/{fname}/first use/{asc}/{kind}", verdict(r), name=name, got=got(r), expected=f"{pv}*{sym}")
            r = call(Unit, name, registry=reg)
            ctx.require(f"form/str/after the other forms/{asc}/{kind}", verdict(r), name=name, got=got(r), expected=f"{pv}*{sym}")
            for fname, obj in forms:            # answered from whatever the str lookup left behind
                r = call(Unit, obj, registry=reg)
                ctx.require(f"form/{fname}/after str/{asc}/{kind}", verdict(r), name=name, got=got(r), expected=f"{pv}*{sym}")
            if rich and T.rows[sym][2] == 0.0:
                # the calls that pass `units` on (offset units excluded: conversions of a number are C03's matter)
                b = name.encode("utf-8")
                for cname, fn in (("unyt_quantity(units=)", lambda: UA.unyt_quantity(1.0, b, registry=reg).units),
                                  ("unyt_array(units=)", lambda: UA.unyt_array([1.0, 2.0], b, registry=reg).units),
                                  ("quantity.to", lambda: UA.unyt_quantity(1.0, Unit(sym, registry=reg)).to(b).units),
                                  ("quantity.in_units", lambda: UA.unyt_quantity(1.0, Unit(sym, registry=reg)).in_units(b).units)):
                    r = call(fn)
                    ok = r[0] == "ok" and _unit_ok(ctx, r[1], E, T, exp)
                    ctx.require(f"form/bytes/{cname}/{asc}/{kind}", ok, name=name, got=got(r), expected=f"{pv}*{sym}")
        ctx.observe("names", len(chunk))
    return Case(f"C14/forms/{k:02d}", h, bounds=f"{len(chunk)} names x up to 4 forms x 3 uses + 4 receiving calls, 145 symbolic scales", budget_s=600, weight=5)


def forms_layout(tier, mods):
    T = tables()
    seed = int(os.environ.get("VERIF_SEED", "0") or 0)
    rnd = random.Random(3000 + seed)
    names = [n for n in _all_names(mods) if n and _expected(n, T) is not None]
    non = [n for n in names if not n.isascii()]
    asc = [n for n in names if n.isascii()]
    k = FORM_SAMPLE[tier]
    if k is not None:
        asc = sorted(rnd.sample(asc, min(k, len(asc))))
    return non + asc


# ---- RELATED strings resolved earlier on the same registry ---------------------------------------------------------------
# The registry answers repeated unit strings from a cache keyed by the typed string, and the parser normalises what it is
# given; whatever either of them conflates must not give a documented name a second reading.  For a documented name n the
# related strings walked here: for every split n = a ++ b into two documented names the juxtaposition "a b" (blank, two
# blanks, tab), and the explicit product "a*b"; n with a leading / trailing blank; the other documented names that differ from
# n only by letter case or underscores ("Ms"/"ms", "mG"/"Mg").  Two registries per chunk: A resolves the related strings,
# then n, then the related strings again; B resolves n first.  Obligations: n == prefix * s_canonical in both; a related
# string that is a documented name == its own reading, "a*b" == the product unit, in every position; any other related string
# has ONE outcome (refused, or the same unit) in all three positions, and a juxtaposition is refused or the product.

REL_SAMPLE = {"quick": (60, 40), "thorough": (None, None)}      # (psym split names, case/underscore groups)
_REL = {}


def related_layout(tier, mods):
    key = ("rel", tier)
    if key in _REL:
        return _REL[key]
    T = tables()
    seed = int(os.environ.get("VERIF_SEED", "0") or 0)
    rnd = random.Random(4000 + seed)
    names = [n for n in _all_names(mods) if n and n != "_" and _expected(n, T) is not None]
    splits = {}
    for n in names:
        for i in range(1, len(n)):
            a, b = n[:i], n[i:]
            if a.isidentifier() and b.isidentifier() and not keyword.iskeyword(a) and not keyword.iskeyword(b):
                ea, eb = _expected(a, T), _expected(b, T)
                if ea is not None and eb is not None and T.rows[ea[1]][2] == 0.0 and T.rows[eb[1]][2] == 0.0:
                    splits.setdefault(n, []).append((a, b))
    fold = {}
    for n in names:
        fold.setdefault(n.casefold().replace("_", ""), []).append(n)
    groups = sorted(v for v in fold.values() if len({_expected(n, T) for n in v}) > 1)
    gen = sorted(n for n in splits if (_kind_of(n, T) or "").startswith("psym"))
    rest = sorted(n for n in splits if n not in gen)
    ks, kg = REL_SAMPLE[tier]
    if ks is not None:
        gen = sorted(rnd.sample(gen, min(ks, len(gen))))
    if kg is not None:
        groups = sorted(rnd.sample(groups, min(kg, len(groups))))
    items, seen = [], set()
    for n in rest + gen + [n for g in groups for n in g]:
        if n in seen:
            continue
        seen.add(n)
        rel = []
        for a, b in splits.get(n, ()):
            rel += [("juxtaposed", f"{a} {b}", (a, b)), ("juxtaposed", f"{a}  {b}", (a, b)), ("juxtaposed", f"{a}\t{b}", (a, b)),
                    ("product", f"{a}*{b}", (a, b))]
        rel += [("padded", " " + n, n), ("padded", n + " ", n)]
        rel += [("documented", m, m) for m in fold[n.casefold().replace("_", "")] if m != n and _expected(m, T) != _expected(n, T)]
        items.append((n, rel))
    for n, rel in items:
        for _, _, arg in rel:
            for x in (arg if isinstance(arg, tuple) else (arg,)):
                _expected(x, T), _label_of(x, T)
        _label_of(n, T)
    _REL[key] = items
    return items


def make_related_case(k, chunk):
    def h(ctx):
        unyt = ctx.mods["unyt"]
        Unit = unyt.Unit
        PE = unyt.exceptions.UnitParseError
        T = tables()
        regA, S = sym_registry(ctx)
        regB, _ = sym_registry(ctx)

        def val(tag, exp):
            return oracle_var(ctx, "e:" + tag, S[exp[1]] * exp[0])

        def got(r):
            return str(r[1])[:60] if r[0] == "ok" else type(r[1]).__name__

        def same(r1, r2):
            if r1[0] != r2[0]:
                return False
            if r1[0] == "raise":
                return type(r1[1]) is type(r2[1])
            return And(close(r1[1].base_value, r2[1].base_value), dimvec(r1[1].dimensions) == dimvec(r2[1].dimensions))

        def judge(pos, reg, kind, s, arg, r, n):
            if kind == "documented":
                exp = _expected(arg, T)
                ok = r[0] == "ok" and And(_unit_ok(ctx, r[1], val(arg, exp), T, exp), r[1].registry is reg)
                ctx.require(f"related/{pos}/documented name that differs by case or underscore keeps its reading/{_label_of(arg, T)}", ok,
                            string=s, next_to=n, got=got(r))
            elif kind in ("product", "juxtaposed"):
                ea, eb = _expected(arg[0], T), _expected(arg[1], T)
                P = oracle_var(ctx, f"e:{arg[0]}*{arg[1]}", (S[ea[1]] * ea[0]) * (S[eb[1]] * eb[0]))
                dv = vec_add(dimvec(T.rows[ea[1]][1]), dimvec(T.rows[eb[1]][1]))
                prod = r[0] == "ok" and And(close(r[1].base_value, P), dimvec(r[1].dimensions) == dv)
                if kind == "product":
                    ctx.require(f"related/{pos}/explicit product of two documented names is the product unit", prod, string=s, next_to=n, got=got(r))
                else:
                    refused = r[0] == "raise" and isinstance(r[1], PE)
                    ctx.require(f"related/{pos}/juxtaposed names are refused or the product, never the concatenated name", Or(refused, prod),
                                string=s, next_to=n, got=got(r))
            else:
                exp = _expected(n, T)
                refused = r[0] == "raise" and isinstance(r[1], PE)
                ok = r[0] == "ok" and _unit_ok(ctx, r[1], val(n, exp), T, exp)
                ctx.require(f"related/{pos}/padded name is refused or the name", Or(refused, ok), string=s, next_to=n, got=got(r))

        for n, rel in chunk:
            exp = _expected(n, T)
            E = val(n, exp)
            lab = _label_of(n, T)
            first = [call(Unit, s, registry=regA) for _, s, _ in rel]
            rn = call(Unit, n, registry=regA)
            ctx.require(f"related/name after its related strings/{lab}", rn[0] == "ok" and And(_unit_ok(ctx, rn[1], E, T, exp), rn[1].registry is regA),
                        name=n, related=[s for _, s, _ in rel], got=got(rn))
            second = [call(Unit, s, registry=regA) for _, s, _ in rel]
            rb = call(Unit, n, registry=regB)
            ctx.require(f"related/name before its related strings/{lab}", rb[0] == "ok" and _unit_ok(ctx, rb[1], E, T, exp), name=n, got=got(rb))
            third = [call(Unit, s, registry=regB) for _, s, _ in rel]
            for (kind, s, arg), r1, r2, r3 in zip(rel, first, second, third):
                judge("before the name", regA, kind, s, arg, r1, n)
                judge("after the name", regB, kind, s, arg, r3, n)
                judge("again", regA, kind, s, arg, r2, n)
                ctx.require(f"related/one outcome whatever was resolved before/{kind}", And(same(r1, r2), same(r1, r3)), string=s, next_to=n,
                            outcomes=[got(r1), got(r2), got(r3)])
        ctx.observe("names", len(chunk))
    return Case(f"C14/related/{k:02d}", h, bounds=f"{len(chunk)} names x their related strings x 3 positions, 145 symbolic scales", budget_s=600, weight=5)


# ---- registries obtained through copy / persistence routes ------------------------------------------------------------------
# The registry OBJECT in which a name is resolved is an axis of its own: everything above resolves names in a registry that was
# built directly.  Here user rows (prefixable and not, one table symbol re-added as prefixable) are added to a registry, the
# registry goes through a route, and prefix x row, the bare rows and a sample of documented names are resolved in the DERIVED
# registry: the outcome must be what the independent reader says for the ORIGINAL definitions and equal the original's answer.
# Routes that keep python objects carry z3 terms (symbolic table scales and row scales: decided for all scales); routes through
# text (JSON, pickle bytes) cannot carry z3 terms: plain table, fixed float row scales, the comparison is a ground fact there.

ROUTES_SYMBOLIC = ("copy", "deepcopy", "unit-deepcopy", "array-deepcopy", "lut", "correct-old", "reduce-setstate", "copy-of-copy")
ROUTES_TEXT = ("json", "json-twice", "pickle-registry", "pickle-array", "pickle-unit", "lut-shared", "deepcopy-plain", "json-of-copy")
ROUTE_ROWS = (("furl", "length", True, 201.168), ("blink", "time", True, 0.3), ("mork", "mass", True, 2.5), ("pood", "mass", True, 16.38),
              ("Tick", "time", True, 0.015625), ("ell", "length", False, 1.143), ("jiffy", "time", False, 0.01),
              ("Gronk", "temperature", False, 3.0), ("hand", "length", False, 0.1016), ("knot_", "velocity", False, 0.5144),
              ("yd", "length", True, 0.9))
ROUTE_DOC = ("m", "km", "um", "dam", "g", "mg", "kg", "s", "ms", "pc", "kpc", "Mpc", "eV", "MeV", "Hz", "GHz", "ft", "mile", "Msun", "hr",
             "degC", "kft", "Mmile", "khr", "mMsun", "meter", "kilometer", "parsec", "kiloparsec", "Kilometer", "Angstrom", "yr", "kyr",
             "Pa", "ha", "mol", "mmol", "K", "mK", "lat", "klat", "inch", "minch", "G", "kG", "erg", "Merg", "dyn", "Mx", "smoot", "ksmoot")


def route_rows(T, route):
    """user rows of this family: the name is a python identifier, prefix ++ name has no documented reading and is no other row
    or prefix ++ other row, and the name does not start with 'a' ('d' ++ 'a...': unyt tries 'da' first); 'yd' is the one table
    symbol re-added as a prefixable row (not where the route re-adds the default table on purpose)"""
    rows = []
    for t, dn, flag, val in ROUTE_ROWS:
        if t in T.rows and route == "lut-shared":
            continue
        ok = t.isidentifier() and not keyword.iskeyword(t) and not t.startswith("a") and (t in T.rows or _expected(t, T) is None)
        ok = ok and all(_expected(p + t, T) is None for p in PREFIX_SYMS)
        if ok:
            rows.append((t, dn, flag, val))
    names = [r[0] for r in rows]
    pn = [p + t for p in PREFIX_SYMS for t in names]
    assert len(set(pn + names)) == len(pn) + len(names), "prefix ++ row strings of the route family collide"
    return rows


def route_reading(name, T, rows):
    """independent reader for the ORIGINAL definitions: ('user', prefix value, row) / ('doc', (pv, sym)) / None = refused"""
    for t, _dn, flag, _v in rows:
        if name == t:
            return ("user", 1.0, t)
    for t, _dn, flag, _v in rows:
        for p in PREFIX_SYMS:
            if name == p + t:
                return ("user", PREFIX[p], t) if flag else None
    doc = _expected(name, T)
    if doc is not None and doc[1] in [r[0] for r in rows]:
        return ("skip",)                        # a spelling of the re-added table symbol: which value it takes is C12
    return ("doc", doc) if doc is not None else None


def derive_registry(ctx, route, reg, t0):
    import pickle
    unyt = ctx.mods["unyt"]
    UR = ctx.mods["UR"]
    if route == "copy":
        return copy.copy(reg)
    if route == "copy-of-copy":
        return copy.copy(copy.copy(reg))
    if route in ("deepcopy", "deepcopy-plain"):
        return copy.deepcopy(reg)
    if route == "unit-deepcopy":
        return unyt.Unit(t0, registry=reg).copy(deep=True).registry
    if route == "array-deepcopy":
        return copy.deepcopy(unyt.unyt_array([1.0, 2.0], t0, registry=reg)).units.registry
    if route == "lut":
        return UR.UnitRegistry(lut=dict(reg.lut), add_default_symbols=False)
    if route == "lut-shared":
        return UR.UnitRegistry(lut=reg.lut)
    if route == "correct-old":
        return UR.UnitRegistry(lut=UR._correct_old_unit_registry(dict(reg.lut)), add_default_symbols=False)
    if route == "reduce-setstate":
        # the unpickling protocol of an array without the byte stream: the table travels as python objects
        red = unyt.unyt_array([1.0, 2.0], t0, registry=reg).__reduce__()
        new = red[0](*red[1])
        new.__setstate__(red[2])
        return new.units.registry
    if route == "json":
        return UR.UnitRegistry.from_json(reg.to_json())
    if route == "json-twice":
        return UR.UnitRegistry.from_json(UR.UnitRegistry.from_json(reg.to_json()).to_json())
    if route == "json-of-copy":
        return UR.UnitRegistry.from_json(copy.deepcopy(reg).to_json())
    if route == "pickle-registry":
        return pickle.loads(pickle.dumps(reg))
    if route == "pickle-array":
        return pickle.loads(pickle.dumps(unyt.unyt_array([1.0, 2.0], t0, registry=reg))).units.registry
    if route == "pickle-unit":
        return pickle.loads(pickle.dumps(unyt.Unit(t0, registry=reg))).registry
    raise ValueError(route)


def run_route(ctx, route, warm):
    unyt = ctx.mods["unyt"]
    Unit = unyt.Unit
    D = unyt.dimensions
    T = tables()
    text = route in ROUTES_TEXT
    cfg = _Cfg(ctx, f"route:{route}", plain=text)
    reg = cfg.reg
    rows = route_rows(T, route)
    scale, dims = {}, {}
    for t, dn, flag, val in rows:
        if text:
            st = val
        else:
            st = ctx.real(f"u:{t}", pos=True)
            if not ctx.symbolic:
                st = float(st)
        scale[t], dims[t] = st, getattr(D, dn)
        reg.add(t, st, dims[t], tex_repr=r"\rm{" + t.replace("_", r"\_") + "}", prefixable=flag)
    strings = [p + t for t, *_ in rows for p in PREFIX_SYMS] + [t for t, *_ in rows] + [n for n in ROUTE_DOC]
    step = f"{route}/{'after use in the original' if warm else 'first use'}"
    if warm:
        for n in strings:
            call(Unit, n, registry=reg)
    r0 = call(derive_registry, ctx, route, reg, rows[0][0])
    ctx.require(f"{step}/route yields a registry", r0[0] == "ok" and r0[1] is not reg and isinstance(r0[1], ctx.mods["UR"].UnitRegistry),
                got=repr(r0[1])[:120])
    if r0[0] != "ok":
        return
    der = r0[1]
    flags = {t: flag for t, _d, flag, _v in rows}
    for name in strings:
        rd = route_reading(name, T, rows)
        if rd is not None and rd[0] == "skip":
            continue
        rn = call(Unit, name, registry=der)
        ro = call(Unit, name, registry=reg)
        got = str(rn[1])[:60] if rn[0] == "ok" else type(rn[1]).__name__
        goto = str(ro[1])[:60] if ro[0] == "ok" else type(ro[1]).__name__
        if rd is None:
            kind = "prefix on a non-prefixable row refused" if any(name.endswith(t) for t in flags) else "prefix on a non-prefixable table symbol refused"
            ctx.require(f"{step}/{kind}", rn[0] == "raise" and isinstance(rn[1], unyt.exceptions.UnitParseError), string=name, got=got)
            same = ro[0] == "raise" and rn[0] == "raise"
        elif rd[0] == "user":
            t = rd[2]
            kind = ("row itself" if name == t else "prefix x prefixable row") + ("/re-added table symbol" if t in T.rows else "")
            ok = rn[0] == "ok" and And(close(rn[1].base_value, scale[t] * rd[1]), dimvec(rn[1].dimensions) == dimvec(dims[t]), rn[1].registry is der)
            ctx.require(f"{step}/{kind}", ok, string=name, row=t, prefix=rd[1], got=got)
            same = ro[0] == "ok" and rn[0] == "ok" and And(close(rn[1].base_value, ro[1].base_value), dimvec(rn[1].dimensions) == dimvec(ro[1].dimensions))
        else:
            E = cfg.doc_value(name, rd[1])
            ok = rn[0] == "ok" and And(_unit_ok(ctx, rn[1], E, T, rd[1]), rn[1].registry is der)
            ctx.require(f"{step}/documented name keeps its reading/{_label_of(name, T)}", ok, string=name, expected=f"{rd[1][0]}*{rd[1][1]}", got=got)
            same = ro[0] == "ok" and rn[0] == "ok" and And(close(rn[1].base_value, ro[1].base_value), dimvec(rn[1].dimensions) == dimvec(ro[1].dimensions))
        ctx.require(f"{step}/derived registry answers like the original", same, string=name, derived=got, original=goto)
    # the prefixable flag as the registry reports it
    pu = call(lambda: set(der.prefixable_units))
    want = {t for t, f in flags.items() if f}
    ctx.require(f"{step}/prefixable_units lists the prefixable rows and none of the others",
                pu[0] == "ok" and want <= pu[1] and not (pu[1] & (set(flags) - want)), got=repr(sorted(pu[1] & set(flags)) if pu[0] == "ok" else pu[1])[:120])


def make_route_case(route):
    def h(ctx):
        for warm in (False, True):
            run_route(ctx, route, warm)
    kind = "text" if route in ROUTES_TEXT else "symbolic"
    return Case(f"C14/routes/{kind}/{route}", h,
                bounds=f"{len(ROUTE_ROWS)} user rows x 22 prefixes + rows + {len(ROUTE_DOC)} documented strings x {{first use, after use}}; "
                       + ("plain table, fixed float row scales (text cannot carry z3 terms)" if kind == "text" else "145 table scales + row scales symbolic"),
                budget_s=600, weight=6)



_COLL = {}


def py_colliders_cached(kind):
    if kind not in _COLL:
        _COLL[kind] = py_colliders(tables(), kind)
    return _COLL[kind]


def cases(tier, mods):
    out = []
    T = tables()
    names = _all_names(mods)
    for k in range(0, len(names), CHUNK):
        out.append(make_names_case(k // CHUNK, names[k:k + CHUNK]))
    multi, exc = hint_lists()
    for i, (tag, _) in enumerate(z_multi_regexes(T)):
        out.append(make_complete_case("multi", i, tag))
    for i, (tag, _) in enumerate(z_exception_regexes(T)):
        out.append(make_complete_case("exc", i, tag))
    for k in range(0, len(multi), 50):
        out.append(make_resolve_case(k // 50, multi[k:k + 50]))
    sweep = []
    nps = [x for x in T.syms if x not in T.prefixable]
    npa = [a for a, x in T.alias.items() if x not in T.prefixable and a]
    for p in PREFIX_SYMS:
        sweep += [p + b for b in nps + npa]
    for w in PREFIX_WORD:
        sweep += [w + b for b in nps]
        if tier == "thorough":
            sweep += [w + b for b in npa]
            sweep += [(w + b).title() for b in nps + npa]
    sweep = sorted(set(sweep))
    for k in range(0, len(sweep), 400):
        out.append(make_reject_case(k // 400, sweep[k:k + 400], exc))
    for kind in COLLIDER_KINDS:
        # the unsat proof (list is complete) is always run; the all-SAT re-enumeration is quadratic in the list length
        small = kind in ("symbol", "title-symbol")
        out.append(make_tails_complete_case(kind, allsat=small or (tier == "thorough" and kind not in SAMPLED_KINDS)))
    fh = ("built", "add") if tier == "thorough" else ("built",)
    nbs = _names_by_sym(mods)
    for family, items, hists, full in custom_layout(tier):
        for t, colliders in items:              # fill the reader's memo before the workers are forked
            for n in _strings_for(T, t, colliders, "full" if full else "core", nbs):
                _expected(n, T), _label_of(n, T)
        if full:
            out += [make_custom_case(family, i, [it], hists, True, fh) for i, it in enumerate(items)]
        else:
            out += [make_custom_case(family, i // 6, items[i:i + 6], hists, False) for i in range(0, len(items), 6)]
    for sym in edit_symbols(T):
        names = _edit_names(mods, sym, tier)
        for n in names + [p + sym for p in CORE_PREFIXES]:
            _expected(n, T), _label_of(n, T)
        if names:
            out.append(make_edit_case(sym, names, EDIT_HISTS[tier]))
    for family, items, hists in named_layout(tier, mods):
        for t, colliders, extra in items:
            for n in _strings_for(T, t, colliders, "core", nbs) + list(extra):
                _expected(n, T), _label_of(n, T), _symbol_form(n, T)
        step = 6 if tier == "quick" else (8 if family[len("named-"):] in NAMED_GENERATED else 4)
        out += [make_named_case(family, i // step, items[i:i + step], hists) for i in range(0, len(items), step)]
    fn = forms_layout(tier, mods)
    out += [make_forms_case(i // 60, fn[i:i + 60]) for i in range(0, len(fn), 60)]
    for t, *_ in ROUTE_ROWS:
        for n in [t] + [p + t for p in PREFIX_SYMS]:
            _expected(n, T)
    for n in ROUTE_DOC:
        _expected(n, T), _label_of(n, T)
    out += [make_route_case(r) for r in ROUTES_SYMBOLIC + ROUTES_TEXT]
    rl = related_layout(tier, mods)
    out += [make_related_case(i // 25, rl[i:i + 25]) for i in range(0, len(rl), 25)]
    return out


def coverage_extra(results, tier):
    by = {}
    for r in results:
        g = r["id"].split("/")[1] + ("/" + r["id"].split("/")[2] if r["id"].split("/")[1] == "strings" else "")
        g = g.split("-")[0] if g.startswith("strings/complete") else g
        d = by.setdefault(g, dict(cases=0, obligations=0, ground=0))
        d["cases"] += 1
        d["obligations"] += r["stats"]["obligations"]
        d["ground"] += r["stats"]["ground_true"]
    multi, exc = hint_lists()
    tails = {f: [t for t, _ in items] for f, items, _, _ in custom_layout(tier)}
    named = {f: [t for t, _, _ in items] for k, v in _NAMED.items() if k == ("layout", tier) for f, items, _ in v}
    return dict(parts=by, multi_reading_strings=multi, readable_prefix_plus_nonprefixable_strings=exc,
                registry_configuration_tails=tails, registry_histories=list(HISTORIES),
                rows_named_like_a_documented_spelling={f: (v if len(v) <= 200 else dict(count=len(v), first=v[:20])) for f, v in named.items()},
                edited_table_symbols=edit_symbols(tables()), edit_histories=list(EDIT_HISTS[tier]),
                string_forms=["bytes", "numpy.bytes_", "numpy.str_", "str-subclass", "unyt_quantity(units=bytes)", "unyt_array(units=bytes)",
                              "quantity.to(bytes)", "quantity.in_units(bytes)"],
                names_with_related_strings=[n for n, _ in _REL.get(("rel", tier), ())][:400],
                note=("names/*: solver-decided (symbolic scales); strings/complete*: solver-decided (z3 sequence/regex theory, all strings); "
                      "strings/reject*: enumerated concrete facts (exception class), only the exception list is solver-derived; "
                      "custom/*: solver-decided (symbolic table scales and scale of the added row), rejections are exception classes; "
                      "edit/*: solver-decided (symbolic old and new scales), rejections and registry identity are ground facts; "
                      "forms/*: solver-decided (symbolic scales); related/*: solver-decided (symbolic scales, products of two scales), "
                      "refusals are exception classes; routes/symbolic/*: solver-decided (symbolic table and row scales); routes/text/*: ground "
                      "facts (plain floats through JSON / pickle text), refusals are exception classes"),
                registry_routes=dict(symbolic=list(ROUTES_SYMBOLIC), text=list(ROUTES_TEXT), rows=[r[0] for r in ROUTE_ROWS]))

