"""C14 - every documented unit name resolves to exactly one, correctly scaled unit."""
import z3

from .common import PREFIX, And, Case, Or, SymBool, call, close, exact_eq
from .names_common import (PREFIX_SYMS, oracle_var, unit_ok as _unit_ok, PREFIX_WORD, denotation, dimvec, distinct_denotations, expected, label_of, readings, sym_registry,
                           tables)

LEVEL = "other"
MANIFEST = dict(
    category="other",
    text=("(a) z3 string-theory queries over ALL strings: which strings have two readings among {table symbol, listed alias, "
          "prefix symbol ++ prefixable symbol/short alias, prefix word ++ alias, title-case variant} - all-SAT enumeration plus "
          "an unsat completeness proof; each such string, and every prefix ++ non-prefixable spelling, is then pushed through "
          "the real parser/lookup. (b) bounded symbolic execution of the real name resolution (parse_unyt_expr, "
          "_auto_positive_symbol, _lookup_unit_symbol, _split_prefix, Unit.__new__, add_symbols) for every exposed name against "
          "a registry whose ~145 base scales are z3 reals: base_value == prefix * s_canonical by string, by attribute and "
          "through a custom registry namespace, decided by z3 for all scales; the name space itself is finite and enumerated."),
    design="DESIGN.md section 4 C14",
    technique="SMT string queries (z3 seq) with all-SAT + completeness; symbolic execution of the real lookup over z3 real scales; replay")
EXPLANATION = (
    "Names are discrete, so every exposed name (keys of the generated name table, attributes of unyt.unit_symbols and of the "
    "top-level namespace, prefix x prefixable symbol) is a case element; what is symbolic is the scale of every base symbol of the "
    "registry the real resolution runs against, so that units that coincide numerically (counts/photons/dimensionless, foe/bethe, "
    "Msun/m_geom, K/delta_degC, J/W/N ...) are distinguishable and an alias retargeted to an equal-valued unit changes the term. "
    "The expected unit of a spelling comes from an independent reader (own prefix tables, own precedence rules) over the documented "
    "symbol and alias lists. Ambiguity is decided by z3 over all strings: the set of strings with >= 2 readings is enumerated by "
    "all-SAT and proved complete (unsat), then each is resolved by the real code. Ground parts: the attribute objects of the default "
    "registry are compared with table value x prefix as exact-rational facts; rejection of prefix ++ non-prefixable spellings is an "
    "enumerated concrete fact (an exception class), the solver's part there is the string query that lists the exceptions."
)
BOUNDS = {
    "quick": "all 3872 exposed names x {string, attribute (unit_symbols + top level), add_symbols namespace of a custom registry}, 145 symbolic "
             "base scales; string queries over ALL strings: 24 pairs of 7 reading kinds + 42 (prefix family x non-prefixable base family x "
             "reading kind) languages, each enumerated by all-SAT and proved complete; rejection sweep: every prefix symbol x "
             "non-prefixable symbol/alias and every prefix word x non-prefixable symbol (~7000 strings)",
    "thorough": "same, plus prefix word x every non-prefixable alias and the title-case spellings in the rejection sweep (~25000 strings)",
}
OUTSIDE = ("strings that are no documented spelling and no prefix+unit split (user-defined names: C12/C13); malformed expressions (C20); "
           "LaTeX representation; the alias list itself is the documentation (taken as given); top-level names shadowed by a physical "
           "constant are C15(c)")
CONFORM = {"quick": 8, "thorough": 16}
CHUNK = 100


def _all_names(mods):
    from unyt._unit_lookup_table import inv_name_alternatives
    T = tables()
    us = mods["unyt"].unit_symbols
    Unit = mods["unyt"].Unit
    names = list(inv_name_alternatives)
    seen = set(names)
    extra = [k for k in vars(us) if not k.startswith("_") and isinstance(vars(us)[k], Unit) and k not in seen]
    seen |= set(extra)
    top = [k for k, v in vars(mods["unyt"]).items() if isinstance(v, Unit) and k not in seen and not k.startswith("_")]
    seen |= set(top)
    pp = [p + s for p in PREFIX_SYMS for s in T.syms if s in T.prefixable and p + s not in seen]
    return names + extra + top + pp


def make_names_case(k, chunk, unit_system=None):
    def h(ctx):
        unyt = ctx.mods["unyt"]
        Unit = unyt.Unit
        us_ns = vars(unyt.unit_symbols)
        top_ns = vars(unyt)
        T = tables()
        reg, S = sym_registry(ctx, unit_system)
        ns = {}
        ctx.mods["US"].add_symbols(ns, reg)
        for name in chunk:
            exp = expected(name, T)
            if exp is None:
                ctx.require(f"documented/{name}", False, why="exposed name has no reading by the documented rules")
                continue
            pv, sym = exp
            lab = label_of(name, T)          # reading kind + base spelling (string route: fine-grained fingerprints)
            kind = lab.split("/")[0]         # the other access paths are fingerprinted per reading kind; the name is in the info
            E = oracle_var(ctx, "e:" + name, S[sym] * pv)
            # 1. by string
            r = call(Unit, name, registry=reg)
            if r[0] == "raise":
                ctx.require(f"string/{lab}", False, name=name, exc=type(r[1]).__name__, msg=str(r[1])[:120])
                u_str = None
            else:
                u_str = r[1]
                ctx.require(f"string/{lab}", _unit_ok(ctx, u_str, E, T, exp), name=name, expected=f"{pv}*{sym}", got=str(u_str))
                ctx.observe(f"string/{name}", u_str.base_value)
            # 2. by attribute (unit_symbols, top level): the exported object, re-read in the symbolic registry
            a = us_ns.get(name)
            if name and name != "_":
                if not isinstance(a, Unit):
                    ctx.require(f"attribute/{kind}", False, why="not an attribute of unyt.unit_symbols")
                else:
                    ra = call(Unit, a.expr, registry=reg)
                    ok = ra[0] == "ok" and _unit_ok(ctx, ra[1], E, T, exp)
                    ground = And(close(a.base_value, float(T.rows[sym][0]) * pv), dimvec(a.dimensions) == dimvec(T.rows[sym][1]))
                    ctx.require(f"attribute/{kind}", And(ok, ground), name=name, expected=f"{pv}*{sym}", got=str(a))
                    t = top_ns.get(name)
                    if isinstance(t, Unit):
                        ctx.require(f"top-level/{kind}", t is a or (t.expr == a.expr and t.registry is a.registry))
                    elif t is None:
                        ctx.require(f"top-level/{kind}", False, why="unit_symbols attribute missing from the top-level namespace")
                    # else: shadowed by a physical constant of the same name -> C15(c)
            # 3. through the namespace of a custom registry
            if name and name != "_":
                n = ns.get(name)
                if n is None:
                    ctx.require(f"registry-namespace/{kind}", False, why="add_symbols did not create the name")
                else:
                    ok = _unit_ok(ctx, n, E, T, exp)
                    if u_str is not None:
                        ok = And(ok, close(n.base_value, u_str.base_value), n.dimensions == u_str.dimensions, n.registry is reg)
                    ctx.require(f"registry-namespace/{kind}", ok, name=name, expected=f"{pv}*{sym}", got=str(n))
    tag = f"names-{unit_system}" if unit_system else "names"
    return Case(f"C14/{tag}/{k:02d}", h, bounds=f"{len(chunk)} names, 145 symbolic scales", budget_s=600, weight=5)


# ------------------------------------------------------------------------------------------------ (a) string queries

def _ru(strs):
    """finite set of strings as a regular expression"""
    strs = sorted(set(strs))
    rs = [z3.Re(z3.StringVal(v)) for v in strs]
    if not rs:
        return z3.Empty(z3.ReSort(z3.StringSort()))
    return rs[0] if len(rs) == 1 else z3.Union(*rs)


def _rcat(P, B):
    """{p ++ b : p in P, b in B} as a regular expression"""
    P, B = list(P), list(B)
    return _ru(B) if P == [""] else z3.Concat(_ru(P), _ru(B))


def _rtwo(P, B):
    """strings with two readings p ++ b, p' ++ b' of the same kind with different prefixes p != p'"""
    P, B = list(P), list(B)
    return z3.Union(*[z3.Intersect(z3.Concat(z3.Re(z3.StringVal(p)), _ru(B)), z3.Concat(_ru([q for q in P if q != p]), _ru(B))) for p in P])


def z_multi_regexes(T):
    """one regular language per unordered pair of reading kinds: the strings that have a reading of each kind
    (for a pair of the same kind: two readings with different prefixes). Tables are read at run time."""
    ks = T.kinds()
    out = []
    for i, k1 in enumerate(ks):
        for k2 in ks[i:]:
            if k1 is k2:
                if len(k1[1]) > 1:
                    out.append((k1[0] + "+" + k2[0], _rtwo(k1[1], k1[2])))
            else:
                out.append((k1[0] + "+" + k2[0], z3.Intersect(_rcat(k1[1], k1[2]), _rcat(k2[1], k2[2]))))
    return out


def py_multi(s, T):
    return len(readings(s, T, title=True)) >= 2


def _nonpref_bases(T):
    return [x for x in T.syms if x not in T.prefixable] + [a for a, x in T.alias.items() if x not in T.prefixable and a]


def _all_prefix_spellings():
    return list(PREFIX_SYMS) + list(PREFIX_WORD) + [w.title() for w in PREFIX_WORD]


def _pn_families(T):
    nps = [x for x in T.syms if x not in T.prefixable]
    npa = [a for a, x in T.alias.items() if x not in T.prefixable and a]
    for pf, P in (("psym", list(PREFIX_SYMS)), ("pword", list(PREFIX_WORD)), ("Pword", [w.title() for w in PREFIX_WORD])):
        for bf, B in (("symbol", nps), ("alias", npa)):
            yield f"{pf}.{bf}", P, B


def z_exception_regexes(T):
    """one regular language per (prefix family, non-prefixable base family, reading kind): the strings
    (prefix symbol/word) ++ (non-prefixable symbol or alias) that have a reading of that kind"""
    out = []
    for fam, P, B in _pn_families(T):
        for k in T.kinds():
            out.append((f"prefix++non-prefixable:{fam}+" + k[0], z3.Intersect(_rcat(P, B), _rcat(k[1], k[2]))))
    return out


def py_prefixed_nonprefixable(s, T):
    bases = set(_nonpref_bases(T))
    return any(s.startswith(p) and s[len(p):] in bases for p in _all_prefix_spellings())


def all_sat_re(R, limit=200):
    """all strings of the regular language R by repeated z3 queries, each blocking what was found (bounded);
    returns (sorted list, complete?) - complete iff the last query is unsat"""
    s = z3.String("s")
    found = []
    while len(found) < limit:
        sol = z3.Solver()
        sol.set("timeout", 60000)
        sol.add(z3.InRe(s, z3.Intersect(R, z3.Complement(_ru(found))) if found else R))
        r = sol.check()
        if r != z3.sat:
            return sorted(found), r == z3.unsat
        found.append(sol.model().eval(s, model_completion=True).as_string())
    return sorted(found), False


_HINT = {}


def hint_lists():
    """candidate lists computed by the python reader (cheap; used to lay out the cases). Their completeness over ALL strings
    is what the z3 cases prove, and the z3 all-SAT enumeration must reproduce them exactly."""
    if not _HINT:
        T = tables()
        cands = set()
        for _, P, B in T.kinds():
            cands |= {p + b for p in P for b in B}
        _HINT["multi"] = sorted(c for c in cands if py_multi(c, T))
        _HINT["exc"] = sorted({p + b for p in _all_prefix_spellings() for b in _nonpref_bases(T) if readings(p + b, T)})
    return _HINT["multi"], _HINT["exc"]


def py_pair(m, tag, T):
    """does the python reader see the pair of readings named by a z_multi_pairs / z_exception_list tag?"""
    rs = readings(m, T)
    kinds = [r[0] for r in rs]
    if tag.startswith("prefix++"):
        fam, k2 = tag.split(":")[1].split("+")
        P, B = next((P, B) for f, P, B in _pn_families(T) if f == fam)
        return any(m.startswith(p) and m[len(p):] in set(B) for p in P) and k2 in kinds
    k1, k2 = tag.split("+")
    if k1 == k2:
        return len({r[1] for r in rs if r[0] == k1}) >= 2 or kinds.count(k1) >= 2
    return k1 in kinds and k2 in kinds


def make_complete_case(which, idx, tag):
    """for ALL strings s: (s has the two readings of this pair of kinds) -> s is in the reader's list; plus the all-SAT
    enumeration of the pair, which must terminate (unsat after blocking) and equal the reader's list"""
    def h(ctx):
        T = tables()
        multi, exc = hint_lists()
        LIST = multi if which == "multi" else exc
        default = "Tsun" if which == "multi" else "min"
        s = ctx.zconst("s", z3.StringSort(), default)
        label = f"every string with these two readings is enumerated/{tag}"
        if ctx.pinned:
            s = default         # a ground membership in a large regular language is evaluated by the python reader
        if isinstance(s, str):
            ctx.require(label, (not py_pair(s, tag, T)) or s in LIST, s=s)
            return
        f = (z_multi_regexes(T) if which == "multi" else z_exception_regexes(T))[idx]
        assert f[0] == tag
        R = z3.Intersect(f[1], z3.Complement(_ru(LIST))) if LIST else f[1]
        ctx.require(label, SymBool(z3.Not(z3.InRe(s, R))))
        if not ctx.pinned:
            found, complete = all_sat_re(f[1])
            ctx.require("all-SAT enumeration terminated with unsat", complete, found=found)
            ctx.require("all-SAT enumeration equals the reader's list", set(found) == {m for m in LIST if py_pair(m, tag, T)},
                        found=found, reader=[m for m in LIST if py_pair(m, tag, T)])
    return Case(f"C14/strings/complete-{which}/{tag}", h, bounds="all strings (z3 sequence theory), finite membership constraints",
                budget_s=600, weight=8, oblig_timeout_ms=120000)


def make_resolve_case(k, chunk):
    """each string with more than one reading: the real resolution takes the most authoritative reading
    (table symbol > listed alias > prefix split > title variant)"""
    def h(ctx):
        Unit = ctx.mods["unyt"].Unit
        T = tables()
        reg, S = sym_registry(ctx)
        for m in chunk:
            rs = readings(m, T)
            exp = denotation(rs[0])
            E = oracle_var(ctx, "e:" + m, S[exp[1]] * exp[0])
            r = call(Unit, m, registry=reg)
            lab = "/".join(sorted({x[0].split("-")[0] for x in rs}))
            if r[0] == "raise":
                ctx.require(f"resolves/{lab}/{m}", False, string=m, readings=rs, exc=type(r[1]).__name__)
                continue
            ctx.require(f"takes the authoritative reading/{lab}/{m}", _unit_ok(ctx, r[1], E, T, exp), string=m, readings=rs, got=str(r[1]))
            ctx.observe(f"resolve/{m}", r[1].base_value)
    return Case(f"C14/strings/resolve/{k:02d}", h, bounds=f"{len(chunk)} multi-reading strings")


def make_reject_case(k, chunk, exc):
    """prefix ++ non-prefixable unit: rejected (UnitParseError) unless the whole string has a reading of its own"""
    exc = set(exc)

    def h(ctx):
        unyt = ctx.mods["unyt"]
        Unit = unyt.Unit
        T = tables()
        reg, S = sym_registry(ctx)
        n_rej = 0
        for m in chunk:
            r = call(Unit, m, registry=reg)
            if m in exc:
                rs = readings(m, T)
                exp = denotation(rs[0])
                E = oracle_var(ctx, "e:" + m, S[exp[1]] * exp[0])
                ok = r[0] == "ok" and _unit_ok(ctx, r[1], E, T, exp)
                ctx.require(f"readable string keeps its own reading/{m}", ok, string=m, readings=rs)
            else:
                n_rej += 1
                ok = r[0] == "raise" and isinstance(r[1], unyt.exceptions.UnitParseError)
                ctx.require("prefix on non-prefixable unit rejected", ok, string=m,
                            got=(str(r[1]) if r[0] == "ok" else type(r[1]).__name__))
        ctx.observe("rejected", n_rej)
    return Case(f"C14/strings/reject/{k:02d}", h, bounds=f"{len(chunk)} prefix++non-prefixable strings")


def cases(tier, mods):
    out = []
    T = tables()
    names = _all_names(mods)
    for k in range(0, len(names), CHUNK):
        out.append(make_names_case(k // CHUNK, names[k:k + CHUNK]))
    multi, exc = hint_lists()
    for i, (tag, _) in enumerate(z_multi_regexes(T)):
        out.append(make_complete_case("multi", i, tag))
    for i, (tag, _) in enumerate(z_exception_regexes(T)):
        out.append(make_complete_case("exc", i, tag))
    for k in range(0, len(multi), 50):
        out.append(make_resolve_case(k // 50, multi[k:k + 50]))
    sweep = []
    nps = [x for x in T.syms if x not in T.prefixable]
    npa = [a for a, x in T.alias.items() if x not in T.prefixable and a]
    for p in PREFIX_SYMS:
        sweep += [p + b for b in nps + npa]
    for w in PREFIX_WORD:
        sweep += [w + b for b in nps]
        if tier == "thorough":
            sweep += [w + b for b in npa]
            sweep += [(w + b).title() for b in nps + npa]
    sweep = sorted(set(sweep))
    for k in range(0, len(sweep), 400):
        out.append(make_reject_case(k // 400, sweep[k:k + 400], exc))
    return out


def coverage_extra(results, tier):
    by = {}
    for r in results:
        g = r["id"].split("/")[1] + ("/" + r["id"].split("/")[2] if r["id"].split("/")[1] == "strings" else "")
        g = g.split("-")[0] if g.startswith("strings/complete") else g
        d = by.setdefault(g, dict(cases=0, obligations=0, ground=0))
        d["cases"] += 1
        d["obligations"] += r["stats"]["obligations"]
        d["ground"] += r["stats"]["ground_true"]
    multi, exc = hint_lists()
    return dict(parts=by, multi_reading_strings=multi, readable_prefix_plus_nonprefixable_strings=exc,
                note=("names/*: solver-decided (symbolic scales); strings/complete*: solver-decided (z3 sequence/regex theory, all strings); "
                      "strings/reject*: enumerated concrete facts (exception class), only the exception list is solver-derived"))

