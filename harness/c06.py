"""C06 - NumPy functions compute the same numbers on quantities as on bare arrays (differential / translation validation)."""
import numpy as np

from symx import core
from .catalogue_common import (ASSUMPTIONS, GROUP_DIMS, NAMES, TEMPLATES, UNITS, Env, Tpl, elem_eq, engine_refusal, flatten, handler_coverage,  # noqa: F401
                               install_numpy_patches, is_unyt, leaf_elements, leaf_shape, leaves_equal, make_registry, namespaces,
                               numeric_obs, select)
from .common import And, Case, call, check_names

LEVEL = "other"
NAN_MASK_TEXT = ("n0: element 0 of every payload array; nl: the last element of every payload array with >= 2 elements; na: element 0 of the first "
                 "operand only; nb: the last element of every operand but the first (na / nb: templates with >= 2 operands)")
MANIFEST = dict(
    category="other",
    text=("Bounded symbolic execution of the real __array_function__ dispatch, the @implements handlers and the ndarray-method "
          "overrides (symx): every call template of a shared catalogue is run on quantities and on the stripped payload in one "
          "path; z3 proves element-wise equality of every returned array, every out= buffer and every argument after the call, "
          "for ALL real element values (unsat of pc & not P per path). Kernels that refuse the symbolic payload (LAPACK, FFT, "
          "interp, histogram*) are uninterpreted functions named by the NumPy routine and its bound arguments, so the obligation "
          "there is that the handler forwards to the same routine with the same arguments. The catalogue sweeps operand rank "
          "(0-d / 1-d / 2-d pairs) x operand kind (quantity, bare array, bare number) for the two-operand handlers and the sign of "
          "`decimals` x call form for the rounding family. Payload type: an integer family repeats the differential with "
          "integer-valued symbols whose declared dtype is what unyt's own code reads (A12), z3 deciding for ALL integers; a typed "
          "family runs every template on real int / uint / float32 / complex buffers against bare NumPy on identical buffers "
          "(shape, dtype kind, bit-identical values, out= buffers) - that family is ENUMERATION of a dtype x value table, not a "
          "solver verdict. Aliasing axis: the two-operand functions are also called with the second operand RELATED to the first (the very "
          "same object, a view, the reversed view, a copy, the stripped view of the quantity) and single-operand functions with the operand "
          "as its own out= target - in every payload family. NaN axis: a solver family puts an unordered, absorbing NaN element at "
          "enumerated positions of every payload array and keeps the other elements z3 reals (A13: decided for all finite values; NumPy's "
          "object-dtype semantics of NaN); the typed family runs NaN / inf / -0.0 value sets through the real float kernels (enumeration). "
          "Spelling axis: every template is re-issued, in both runs, with each NumPy call bound to NumPy's public signature and re-spelled "
          "all-positional (gaps filled with NumPy's defaults) and all-keyword (but the first argument), plus 47 call forms that give two "
          "neighbouring optional arguments different symbolic values. Stack axis: linalg.solve over 19 pairs of operand shapes, 16 LAPACK / "
          "matrix functions over stacks of matrices, the matmul family over 7 stacked / broadcast shape pairs. "
          "Bounded: catalogue of templates, shapes <= (2,3)/(2,2,2); IEEE rounding, integer wrap-around and "
          "complex payloads beyond the typed table are outside."),
    design="DESIGN.md section 4 C06",
    technique="differential symbolic execution of the real Python code over z3 real / integer-valued terms (quantity call vs stripped call); SMT obligations per path; uninterpreted-function model of opaque kernels; concrete typed-buffer differential over an enumerated dtype x value table; counterexample replay")
EXPLANATION = (
    "For each template F(*args) the real unyt_array.__array_function__ / handler / ndarray-method code is executed on "
    "quantities whose elements are z3 reals, then the same F on the stripped object arrays of the same symbols. Per path z3 "
    "decides pc & not(P) with P = same result structure, same shapes, element-wise equal values of every returned array, and "
    "element-wise equal final contents of every argument and out= buffer. A unyt-side exception is allowed by the property. "
    "Tier 2: LAPACK/FFT/interp/histogram kernels are uninterpreted functions K_F[bound non-payload arguments](payload): equality "
    "of the K_F applications means the handler forwards to the same routine with the same arguments. "
    "C06/rank/*: the two-operand handlers (dot, vdot, inner, outer, linalg.outer, kron, tensordot, einsum, convolve, correlate, "
    "ndarray.dot; the joining family; isclose/allclose/array_equal/array_equiv/where/isin/set functions/searchsorted; copyto/"
    "fill_diagonal/putmask/place/put) over all pairs of operand ranks 0-d/1-d/2-d and operand kinds quantity / bare ndarray / bare "
    "python number: a 0-d operand takes NumPy's scalar routes, which differ per function, and NumPy refusing the stripped call "
    "while the call on quantities returns is a violation. C06/round/*: decimals in {-2,-1,0,2} x positional/keyword/out=/0-d forms "
    "of np.around, np.round, ndarray.round. "
    "C06/int/<dtype>/*: the same obligations with INTEGER-valued symbols (unsigned: >= 0); the symbolic payload is an object array "
    "carrying a declared integer dtype that unyt's own Python code sees when it asks `.dtype` (A12), so a handler branch on the "
    "dtype kind is executed and its result compared by z3 for all integers; models are replayed on real int64/uint64 buffers. "
    "Paths on which unyt's integer branch needs a typed buffer (integer out= promotion in __array_ufunc__) are cut and counted. "
    "C06/typed/*: every template on real typed buffers (a fixed table of values with rounding ties, negatives, zero, values beyond "
    "8/16 bit; quarters for float/complex) through the real handler and through bare NumPy: same structure, shape, dtype kind, "
    "bit-identical values, same final out= buffers / arguments, out= buffers keep their dtype. No symbol is involved there: every "
    "obligation of that family is a ground check over the enumerated table (replayed on plain unyt like any counterexample). For float / "
    "complex dtypes the table is run a second time with NON-FINITE value sets (nan0 / nanL: NaN in the first / last element of every array, "
    "complex: in the imaginary / real part; inf: +inf first, -inf last; negzero: -0.0 first), obligations labelled '(dtype, non-finite data)'. "
    "C06/alias/<function>/<relation>/<rank> (and the same templates inside typed / int / nan): identity and aliasing between arguments. "
    "59 two-operand call forms f(a, b) with b = a itself (`same`), a[...] (`view`), a[::-1] (`rev`), a.copy() (`copy`), the stripped ndarray "
    "view of the quantity (`bview`), over ranks 0-d / 1-d (3) / 2-d (2,2); 17 single-operand forms with out= the operand itself or its "
    "first row (`out`). A handler that recognises `a1 is a2`, shared memory or `out is a` and answers from a shortcut runs that shortcut. "
    "C06/nan/<mask>/*: every Tier-1 template (alias templates included) with a NaN element at the positions named by <mask> (" + NAN_MASK_TEXT +
    "); all other elements are z3 reals and the obligations are the same with 'NaN at the same position' counting as equal. NaN is "
    "unordered and absorbing (A13), so x == x is no longer a theorem: np.array_equal(a, a) must answer False. isclose / allclose are the "
    "A4 formula models extended by NumPy's NaN rule (never close; close to another NaN under equal_nan=True). Sorted / bounded / patterned "
    "payloads (preconditions of the call) stay finite. Paths on which a NaN reaches an operation that needs a z3 term or a float kernel "
    "are cut and counted. "
    "C06/spell/<pos|kw>/<template>: the SPELLING of a call is a discrete axis derived mechanically: the numpy namespace handed to the template "
    "binds every call of a dispatched function to NumPy's own signature and re-issues it (quantity run and stripped run alike) with every "
    "argument NumPy accepts positionally passed positionally, gaps up to the last given one filled with NumPy's defaults (`pos`), or with every "
    "argument but the first passed by keyword (`kw`); a case exists where that differs from the template's own spelling. A handler "
    "(a, *args, **kwargs) that re-binds args by name in another order than NumPy, reads only kwargs, or only args, is run on the spelling it "
    "mishandles; the values stay symbols, so swapped arguments are different numbers. C06/args/*: call forms with two neighbouring optional "
    "arguments of one kind both given (to_end / to_begin, prepend / append, x / dx, axis1 / axis2, source / destination, shift / axis, "
    "axis / out, n / axis, axisa / axisb ...), as written and in every other spelling. "
    "C06/stack/*: stacked and broadcast operands. np.linalg.solve over (a shape, b shape) pairs - b 1-d, b.ndim == a.ndim - 1 (NumPy >= 2: a "
    "stack of matrices, or refused), column stacks, broadcast stacks, b a quantity or bare; det / inv / pinv / eig / eigh / eigvals / eigvalsh "
    "/ svd / norm / matrix_norm / matrix_transpose / trace / diagonal / tensorinv (matrix_power: typed buffers only) over stacks (2,2,2), "
    "(1,2,2), (3,2,2), (2,1,2,2); matmul / @ / linalg.matmul / vecdot / linalg.vecdot / dot / inner / tensordot / multi_dot / einsum over "
    "stacked x broadcast shape pairs. The uninterpreted kernel functions are indexed by routine, bound arguments and payload shapes: a handler "
    "that adds / drops an axis before forwarding applies a different function and returns a different shape. The typed family runs the "
    "C06/args and C06/stack templates through the real LAPACK / object kernels on the value table.")
BOUNDS = {
    "quick": "the `quick` subset of the template catalogue (one or two forms per function), shapes (), (2,), (3,), (2,2), (2,3); rank sweep: "
             "rank pairs with a 0-d operand x all operand kinds; rounding: 11 of 32 decimals x form templates. Integer family: every Tier-1 "
             "template of this subset except np.unwrap, declared int64, all integers (solver). Typed family (ENUMERATION): every template x {int64, uint16, float32, "
             "complex128} x 2 value sets of a 28-entry table, float32 / complex128 again x 2 non-finite value sets (nan0, inf). Aliasing: every "
             "two-operand form x `same` on 1-d operands, 10 validating / joining forms also x `same` on 0-d and 2-d and x `view`, `rev` on 1-d; "
             "out= aliasing forms on one rank. NaN family (solver): every Tier-1 template of this subset x mask n0. Spelling: every template of "
             "the subset (not the rank / alias / rounding / stack families) and 38 of the 47 two-neighbour call forms x {pos, kw} where the spelling "
             "differs; stack: 8 of 19 solve shape pairs (x quantity / bare b), 15 matrix functions x stacks (2,2,2), (1,2,2), the matmul family x 3 "
             "of 7 shape pairs",
    "thorough": "the full template catalogue: positional / keyword / out= variants, equal and ragged extents, plus a shape x axis sweep of 25 "
                "single-operand functions over (), (1,), (0,), (2,3), (3,2), (1,2), (2,2,2); sorting-type functions with axis=None only up to 3 "
                "elements; rank sweep: all 9 rank pairs x all kinds (sorting-type functions: <= 3 elements); all 32 rounding templates. Integer "
                "family: every Tier-1 template except the shape x axis sweep and np.unwrap x declared {int64, uint64 (symbols >= 0)}, all integers (solver). Typed family (ENUMERATION): every template x {int8, int32, int64, uint8, uint16, uint64, "
                "float32, float64, complex64, complex128} x 4 value sets, the four float / complex dtypes again x 4 non-finite value sets. "
                "Aliasing: 59 two-operand forms x 5 relations x ranks 0-d / 1-d / 2-d (sorting-type functions: <= 3 elements, no 2-d), 17 out= "
                "aliasing forms x ranks. NaN family (solver): every Tier-1 template except the shape x axis sweep x masks n0, nl and (templates "
                "with >= 2 operands) na, nb. Spelling: every template of the catalogue (not the rank / alias / sweep / rounding / stack families) and all "
                "47 two-neighbour call forms x {pos, kw}; stack: all 19 solve shape pairs, 15 matrix functions x 4 stack shapes, the matmul family "
                "x 7 shape pairs",
}
OUTSIDE = ("spellings other than the template's own, all-positional and all-keyword-but-first (mixed splits, the first operand by keyword, "
           "keyword ORDER); spellings of ndarray METHOD calls (C builtins without a signature); the spelling / stack templates are not repeated "
           "in the integer and NaN families; matrices larger than 2x2 in stacks, stack rank > 2; IEEE rounding (A1); NaN only as an unordered, absorbing element at enumerated positions (A13: where NumPy's float kernels special-case "
           "NaN - sort order, maximum/minimum, unique, isnan-based code such as array_equal(equal_nan=True) and the nan-functions - only the typed "
           "table sees the real behaviour), inf and -0.0 only in the typed table; relations between arguments beyond the six walked "
           "(partially overlapping slices, broadcast views, aliasing among three or more operands); integer wrap-around and the dtype WIDTH of results (only the dtype kind is compared, in the typed family); "
           "the typed family decides nothing beyond its value table: a dtype-dependent defect that needs a value outside the table AND is not "
           "visible to the integer family (which sees dtype reads made by unyt's own code on the operand, not e.g. np.asarray(a).dtype or "
           "np.result_type) is missed; complex and float32 payloads are only in the typed table (no solver verdict); integer out= buffers that "
           "reach __array_ufunc__ are re-typed to float by unyt (known finding, cf. C17) - those paths are cut in the integer family; numpy.ma; "
           "I/O functions (savetxt); "
           "correctness of NumPy itself; functions whose NumPy implementation refuses object arrays and that unyt does not wrap (gradient, "
           "bincount, digitize, corrcoef, real/imag, unwrapped LAPACK: cholesky, qr, cond, slogdet ...), reductions with where= and no "
           "initial=, histogram*(range=...) - all listed under not_covered* in the evidence (the typed family does run what is templated of "
           "them); np.array_equal/array_equiv of quantities "
           "with different units deliberately answer False (C19); Tier 2 proves forwarding (same routine, same bound arguments), "
           "not the kernel's numbers (the typed family compares the kernels' numbers on the table values)")
CONFORM = {"quick": 40, "thorough": 120}


def make_case(t, env=None, case_id=None, conform=None, same=None, observe=True, **casekw):
    leaves_equal = same or globals()["leaves_equal"]
    env = env or (lambda ctx, mode, reg=None, alias=False: Env(ctx, mode, reg, alias=alias))

    def h(ctx):
        reg = make_registry(ctx, t.groups, both=False)
        NQ, NB = namespaces(ctx)
        EQ = env(ctx, "q", reg)
        rq = call(t.fn, NQ, EQ)
        if rq[0] == "raise":
            if ctx.symbolic and engine_refusal(rq[1]):
                raise core.Unsupported(f"NumPy refused the symbolic payload in the quantity run: {type(rq[1]).__name__}: {rq[1]}"[:300])
            ctx.require("unyt raises (allowed by the property)", True)
            ctx.observe("outcome", "raise:" + type(rq[1]).__name__)
            return
        EB = env(ctx, "bare", alias=True)
        rb = call(t.fn, NB, EB)
        if rb[0] == "raise":
            if ctx.symbolic and engine_refusal(rb[1]):
                raise core.Unsupported(f"NumPy refused the symbolic payload in the stripped run: {type(rb[1]).__name__}: {rb[1]}"[:300])
            ctx.require("NumPy raises on the stripped data but the call on quantities returns", False,
                        numpy_error=f"{type(rb[1]).__name__}: {rb[1]}"[:200])
            return
        fq, fb = flatten(rq[1]), flatten(rb[1])
        kq = [(p, "a" if k == "u" else k, (o if k == "t" else None)) for p, k, o in fq]
        kb = [(p, "a" if k == "u" else k, (o if k == "t" else None)) for p, k, o in fb]
        # a 0-d result is a scalar on one side and a 0-d array on the other: both are 'numeric'
        norm = lambda ks: [(p, "a" if k in ("n", "b") else k, o) for p, k, o in ks]
        ok_struct = norm(kq) == norm(kb)
        ctx.require("structure", ok_struct, quantities=str(kq)[:200], stripped=str(kb)[:200])
        if ok_struct:
            shapes, vals = [], []
            for (p, k, x), (_, _, y) in zip(fq, fb):
                if k in ("u", "a", "n", "b"):
                    shapes.append(leaf_shape(x) == leaf_shape(y))
                    if shapes[-1]:
                        vals.append(leaves_equal(x, y, exact=True))
                elif k == "s" and not t.strings:
                    vals.append(x == y)
            ctx.require("shape", all(shapes), quantities=[leaf_shape(x) for _, k, x in fq if k in "uanb"], stripped=[leaf_shape(y) for _, k, y in fb if k in "uanb"])
            ctx.require("values", And(*vals) if vals else True, quantities=str(rq[1])[:250], stripped=str(rb[1])[:250])
        # arguments / out= buffers after the call
        after = []
        for name, x in EQ.made.items():
            y = EB.made.get(name)
            if y is None:
                after.append(False)
                continue
            after.append(leaf_shape(x) == leaf_shape(y))
            if after[-1]:
                after.append(leaves_equal(x, y, exact=True))
        ctx.require("arguments and out= buffers after the call", And(*after) if after else True,
                    quantities={n: str(v)[:80] for n, v in EQ.made.items()}, stripped={n: str(v)[:80] for n, v in EB.made.items()})
        if t.tier == 1 and observe:
            ctx.observe("result", numeric_obs(rq[1]))
            ctx.observe("args", [e for v in EQ.made.values() for e in numeric_obs(v)])

    return Case(case_id or f"C06/{t.name}", h, bounds=casekw.pop("bounds", "symbolic: every array element and bare scalar argument"), weight=t.weight,
                max_paths=t.max_paths, budget_s=600.0, conform=(t.conform if conform is None else conform), group=t.key, **casekw)


# ----------------------------------------------------------------------------------------------------------- integer payloads, solver-decided
# The same differential with INTEGER-valued symbols (ctx.real(integer=True); unsigned: >= 0): z3 decides equality for ALL integers
# (unbounded: wrap-around is outside). The payload of the symbolic run is still an object array, so that a handler which asks its
# operand for the dtype would see "O" and take the generic branch; A12 (install_declared_dtype) makes Python-level reads of `.dtype`
# BY UNYT CODE on a harness-made quantity answer the declared integer dtype, NumPy's own code keeps seeing the real (object) dtype.
# Replay runs on real int64 / uint64 buffers on plain unyt, so every reported counterexample is a typed differential.
INT_DTYPES = {"quick": ["int64"], "thorough": ["int64", "uint64"]}
# not in the integer family (the typed family runs them on integer buffers): the thorough shape x axis sweep (orthogonal to the payload
# type; sums of squares over 6-8 integer-constrained symbols take z3 minutes) and
INT_SKIP = {"numpy.unwrap": "floor/mod terms over integer-constrained symbols: z3 answers unknown on the path conditions"}
A12 = ("A12 declared dtype (integer family C06/int*): a quantity made by the harness from integer-valued symbols carries a declared integer "
       "dtype; `.dtype` read by code of the unyt package returns it (and it is inherited by views / copies of that quantity), any other "
       "reader and all C code see the real object dtype; element arithmetic is exact integer/real arithmetic: unsigned wrap-around, "
       "truncating stores into integer buffers and NumPy's casting refusals are not modelled (the pinned run of this family therefore "
       "is not compared with a typed run in the conformance step; the typed family C06/typed/* runs the same templates on real "
       "integer buffers). Every counterexample is replayed on real int64 / uint64 buffers on plain unyt")
ASSUMPTIONS = list(ASSUMPTIONS) + [A12]


def install_declared_dtype(mods):
    import sys
    UA = mods["UA"].unyt_array
    if "dtype" in vars(UA):
        return
    base = np.ndarray.dtype
    fin = UA.__array_finalize__

    def _get(self):
        d = self.__dict__.get("_symx_declared")
        if d is not None and str(sys._getframe(1).f_globals.get("__name__", "")).startswith("unyt"):
            return d
        return base.__get__(self)

    def _set(self, v):
        base.__set__(self, v)

    def __array_finalize__(self, obj):
        fin(self, obj)
        d = getattr(obj, "__dict__", None)
        d = d.get("_symx_declared") if d else None
        if d is not None and base.__get__(self).kind == "O":
            self.__dict__["_symx_declared"] = d

    UA.dtype = property(_get, _set)
    UA.__array_finalize__ = __array_finalize__


class IntEnv(Env):
    def __init__(self, ctx, mode, reg=None, alias=False, dtype="int64"):
        Env.__init__(self, ctx, mode, reg, alias=alias)
        self.dt = np.dtype(dtype)
        if ctx.symbolic and mode != "bare":
            install_declared_dtype(ctx.mods)

    def _kw(self, kw):
        kw = dict(kw, integer=True)
        if self.dt.kind == "u" and kw.get("lo") is None and not kw.get("pos"):
            kw["lo"] = 0
        return kw

    def _real(self, name, **kw):
        return Env._real(self, name, **self._kw(kw))

    def _reals(self, name, shape, **kw):
        a = np.empty(shape, dtype=object)
        for idx in np.ndindex(*shape):
            a[idx] = self._real(name + "".join(f"_{i}" for i in idx), **kw)
        return a if self.ctx.symbolic else a.astype(float).astype(self.dt)

    def _wrap(self, x, group):
        v = Env._wrap(self, x, group)
        if self.ctx.symbolic and is_unyt(v):
            v.__dict__["_symx_declared"] = self.dt
        return v

    def q(self, name, group="L", shape=(2,), pattern=None, **kw):
        if pattern is not None:
            raise core.Unsupported("integer family: a real-valued data pattern")
        v = Env.q(self, name, group, shape, **kw)
        if not self.ctx.symbolic:
            # `increasing` rebuilds the payload from python numbers: keep the declared dtype
            b = v.view(np.ndarray) if is_unyt(v) else np.asarray(v)
            if b.dtype != self.dt:
                v = self._wrap(b.astype(self.dt), group)
                self.made[name] = v
        return v

    def num(self, name, group="L", **kw):
        v = Env.num(self, name, group, **kw)
        return v if self.ctx.symbolic else int(v)

    def const(self, values, group=None):
        vals = np.asarray(values, dtype=float)
        if not np.all(vals == np.round(vals)):
            raise core.Unsupported("integer family: non-integer constants")
        if self.ctx.symbolic:
            return Env.const(self, values, group)
        return self._wrap(vals.astype(self.dt), group)


def make_int_case(t, dtype):
    c = make_case(t, env=lambda ctx, mode, reg=None, alias=False: IntEnv(ctx, mode, reg, alias=alias, dtype=dtype),
                  case_id=f"C06/int/{dtype}/{t.name}", conform=False, allow_unsupported=True,
                  bounds="symbolic: every array element and bare scalar argument, integer-valued (declared dtype %s)" % dtype)
    inner = c.fn

    def h(ctx):
        try:
            return inner(ctx)
        except core.Unsupported:
            # unyt's (or NumPy's) integer branch casts the payload to a float buffer, which cannot hold a term: the path is cut
            # (counted as `unsupported`, allowed for this family; the typed family runs the same template on real integer buffers)
            ctx.require("integer family: path cut where the integer branch needs a typed buffer (engine limit)", True)
            raise

    c.fn = h
    return c


# ----------------------------------------------------------------------------------------------------------- typed differential
# The symbolic payload is an object array of reals: a handler that looks at the dtype of its operand (integers "are already round",
# complex "has no order" ...) takes the float branch there. The typed differential runs the same template on REAL typed buffers
# (every dtype of TYPED_DTYPES) through the real dispatch / handler code and through bare NumPy on identical buffers, and demands the
# same structure, shape, dtype kind and bit-identical values (and the same final contents of every argument and out= buffer).
# A typed buffer cannot hold a z3 term: the value axis of THIS family is a stated finite enumeration (VALUE_TABLE), not a solver
# verdict; the solver-decided integer family is make_int_case below.
TYPED_DTYPES = {"quick": ["int64", "uint16", "float32", "complex128"],
                "thorough": ["int8", "int32", "int64", "uint8", "uint16", "uint64", "float32", "float64", "complex64", "complex128"]}
TYPED_SETS = {"quick": 2, "thorough": 4}
# float / complex buffers additionally get NON-FINITE value sets (IEEE semantics of the real kernels; A1 keeps these out of the solver
# families): nan0 = element 0 of every array is NaN (complex: NaN imaginary part), nanL = the last element (complex: NaN real part),
# inf = +inf first / -inf last, negzero = -0.0 first / +0.0 last. Arrays made with pos / nonzero / increasing stay finite.
TYPED_NONFINITE = {"quick": ["nan0", "inf"], "thorough": ["nan0", "nanL", "inf", "negzero"]}
NONFINITE_TAG = "non-finite data"
# integers with ones / tens / hundreds digits 5 (rounding ties to either side), negatives, zero, +-1, values beyond 8 and 16 bit
VALUE_TABLE = [7, -3, 15, 25, -15, 1234, -1772, 0, 1, -1, 5, -25, 100, 55, 1250, -449, 35, 2, -8, 64, 45, -35, 9, 650, -150, 70000, 3, -6]


def _table_value(i, dt):
    v = VALUE_TABLE[i % len(VALUE_TABLE)]
    if dt.kind in "iu" and dt.itemsize == 1:
        v = (abs(v) % 40) * (-1 if v < 0 else 1)
    elif dt.kind in "iu" and dt.itemsize == 2:
        v = (abs(v) % 3000) * (-1 if v < 0 else 1)
    if dt.kind == "u":
        v = abs(v)
    return v


class TypedEnv:
    """the argument factory of catalogue_common.Env over typed buffers with enumerated values"""

    def __init__(self, ctx, mode, reg, dtype, vset, nonfinite=None):
        self.ctx, self.mode, self.reg = ctx, mode, reg
        self.dt = np.dtype(dtype)
        self.vset = vset
        self.nonfinite = nonfinite if self.dt.kind in "fc" else None
        self.made, self.group, self.outs = {}, {}, {}

    def _start(self, name):
        return sum((i + 1) * ord(c) for i, c in enumerate(name)) * 5 + 11 * self.vset

    def _elem(self, i, pos=False, nonzero=False):
        dt = self.dt
        v = _table_value(i, dt)
        if dt.kind in "fc":
            v = v / 4.0  # dyadic: quarters and halves (rounding ties)
        if pos:
            v = abs(v) + 1
        if nonzero and v == 0:
            v = 3
        if dt.kind == "c" and not pos:
            v = complex(v, _table_value(i + 5, dt) / 4.0)
        return v

    def _array(self, name, shape, pos=False, nonzero=False, increasing=False):
        n = int(np.prod(shape)) if shape else 1
        s = self._start(name)
        vals = [self._elem(s + i, pos, nonzero) for i in range(n)]
        if increasing:
            acc, out = (vals[0].real if isinstance(vals[0], complex) else vals[0]), []
            for i, v in enumerate(vals):
                if i:
                    acc = acc + abs(v) + 1
                out.append(acc)
            vals = out
        elif self.nonfinite and not pos and not nonzero:
            cx = self.dt.kind == "c"
            first, last = {"nan0": (complex(vals[0].real, np.nan) if cx else np.nan, None),
                           "nanL": (None, complex(np.nan, vals[-1].imag) if cx else np.nan),
                           "inf": (np.inf, -np.inf), "negzero": (-0.0, 0.0)}[self.nonfinite]
            if first is not None:
                vals[0] = first
            if last is not None and n >= 2:
                vals[-1] = last
        return np.array(vals, dtype=self.dt).reshape(shape)

    def _wrap(self, x, group):
        if self.mode == "bare" or group in ("bare", None):
            return x
        unit = "dimensionless" if group == "1" else UNITS["A"][group]
        return self.ctx.quantity(x, unit, self.reg)

    def q(self, name, group="L", shape=(2,), pos=False, nonzero=False, increasing=False, lo=None, hi=None, pattern=None):
        if lo is not None or hi is not None:
            raise core.Unsupported("typed differential: bounded payloads are not tabulated")
        if pattern is not None:
            x = (np.asarray(pattern, dtype=float) * 3).astype(self.dt)
        else:
            x = self._array(name, tuple(shape), pos, nonzero, increasing)
        v = self._wrap(x, group)
        self.made[name], self.group[name] = v, group
        return v

    def raw(self, name, shape=(2,), **kw):
        return self.q(name, "bare", shape, **kw)

    def num(self, name, group="L", pos=False, nonzero=False, **kw):
        v = self._elem(self._start(name), pos, nonzero)
        v = v.real if isinstance(v, complex) else v
        return int(v) if self.dt.kind in "iu" else float(v)

    def out(self, name, group, shape):
        v = self._wrap(self._array(name, tuple(shape)), group)
        self.made[name], self.group[name] = v, group
        self.outs[name] = self.dt
        return v

    def const(self, values, group=None):
        return self._wrap(np.asarray(values).astype(self.dt), group)


def typed_registry(ctx, groups):
    D = ctx.mods["unyt"].dimensions
    reg = ctx.registry([])
    for i, g in enumerate(groups):
        if g not in ("1", "bare"):
            ctx.add_row(reg, UNITS["A"][g], getattr(D, GROUP_DIMS[g]), 2.0 + i)
    return reg


def _typed_leaf(x):
    if is_unyt(x):
        x = x.view(np.ndarray)
    return np.asarray(x)


def _typed_same(a, b):
    if a.dtype.kind in "fc" and b.dtype.kind in "fc":
        return bool(np.array_equal(a, b, equal_nan=True))
    return bool(np.array_equal(a, b))


TYPED_LABELS = ("typed: the call on quantities returns where NumPy raises on the stripped data", "typed: an out= buffer keeps its dtype",
                "typed structure", "typed shape", "typed dtype kind", "typed values", "typed arguments and out= buffers after the call")


def typed_compare(t, rq, rb, EQ, EB, outs):
    """-> {label: detail} of the obligations that FAIL for this run (empty: all hold)"""
    bad = {}
    # an out= buffer of the quantity run whose dtype is no longer the dtype it was made with: unyt re-typed the caller's buffer.
    # Everything else about this run (result dtype, values NumPy would have truncated into the buffer) follows from that, so
    # it is reported under this one label
    for name, dt0 in outs.items():
        a = _typed_leaf(EQ.made[name])
        if a.dtype != dt0 and _typed_leaf(EB.made[name]).dtype == dt0:
            bad[TYPED_LABELS[1]] = f"{name}: made as {dt0}, {a.dtype} after the call on quantities (NumPy: unchanged)"
            return bad
    fq, fb = flatten(rq), flatten(rb)
    norm = lambda f: [(p, "a" if k in ("u", "n", "b") else k, (o if k == "t" else None)) for p, k, o in f]
    if norm(fq) != norm(fb):
        bad["typed structure"] = f"unyt {norm(fq)} / numpy {norm(fb)}"[:300]
    else:
        for (p, k, x), (_, _, y) in zip(fq, fb):
            if k in ("u", "a", "n", "b"):
                a, b = _typed_leaf(x), _typed_leaf(y)
                d = f"{p}: unyt {a.dtype} {a.tolist()} / numpy {b.dtype} {b.tolist()}"[:260]
                if a.shape != b.shape:
                    bad.setdefault("typed shape", d)
                elif not _typed_same(a, b):
                    bad.setdefault("typed values", d)
                if a.dtype.kind != b.dtype.kind:
                    bad.setdefault("typed dtype kind", d)
            elif k == "s" and not t.strings and x != y:
                bad.setdefault("typed values", f"{p}: unyt {x!r} / numpy {y!r}"[:260])
    for name, x in EQ.made.items():
        y = EB.made.get(name)
        a, b = _typed_leaf(x), (_typed_leaf(y) if y is not None else None)
        if b is None or not (a.shape == b.shape and a.dtype == b.dtype and _typed_same(a, b)):
            bad.setdefault(TYPED_LABELS[6], f"{name}: unyt {a.dtype} {a.tolist()} / numpy " + (f"{b.dtype} {b.tolist()}" if b is not None else "missing"))
    return bad


def make_typed_case(t, tier):
    def h(ctx):
        import warnings
        reg = typed_registry(ctx, t.groups)
        blocks = [(dtype, None) for dtype in TYPED_DTYPES[tier]] + [(dtype, NONFINITE_TAG) for dtype in TYPED_DTYPES[tier] if np.dtype(dtype).kind in "fc"]
        for dtype, tag in blocks:
            failed, compared, raised = {}, 0, 0
            sets = [(v, None) for v in range(TYPED_SETS[tier])] if tag is None else [(i, nf) for i, nf in enumerate(TYPED_NONFINITE[tier])]
            dtag = dtype if tag is None else f"{dtype}, {tag}"
            for vset, nf in sets:
                with warnings.catch_warnings(), np.errstate(all="ignore"):
                    warnings.simplefilter("ignore")
                    try:
                        EQ = TypedEnv(ctx, "q", reg, dtype, vset, nf)
                        rq = call(t.fn, np, EQ)
                        if rq[0] == "raise":
                            raised += 1
                            continue
                        EB = TypedEnv(ctx, "bare", None, dtype, vset, nf)
                        rb = call(t.fn, np, EB)
                    except core.Unsupported:
                        continue
                    compared += 1
                    if rb[0] == "raise":
                        bad = {TYPED_LABELS[0]: f"{type(rb[1]).__name__}: {rb[1]}"[:200]}
                        for name, dt0 in EQ.outs.items():  # ... because unyt re-typed the out= buffer NumPy refuses to write to
                            if _typed_leaf(EQ.made[name]).dtype != dt0:
                                bad = {TYPED_LABELS[1]: f"{name}: made as {dt0}, {_typed_leaf(EQ.made[name]).dtype} after the call on quantities; NumPy: {bad[TYPED_LABELS[0]]}"[:300]}
                    else:
                        bad = typed_compare(t, rq[1], rb[1], EQ, EB, EQ.outs)
                    for label, detail in bad.items():
                        failed.setdefault(label, f"value set {nf or vset}: {detail}"[:300])
            # one obligation per (label, dtype[, non-finite]): it holds if it held for every value set of the table
            if compared == 0:
                ctx.require(f"typed: unyt raises for every value set (allowed by the property) or the template is not tabulated ({dtag})", True)
                continue
            for label in TYPED_LABELS:
                ctx.require(f"{label} ({dtag})", label not in failed, detail=failed.get(label, ""))
        # the table is fixed: the same buffers in the symbolic, pinned and replay runs

    return Case(f"C06/typed/{t.name}", h, bounds="enumerated: dtype x value table (typed buffers; no symbols)", weight=1, max_paths=8,
                budget_s=300.0, conform=False, group=t.key)


# ----------------------------------------------------------------------------------------------------------- identity / aliasing between arguments
# Every other family hands a function operands that are DIFFERENT objects with independent data. Here the second operand of a
# two-operand call is RELATED to the first: the very same object (`same`), a view of it (`view`: x[...]), its reversed view
# (`rev`: overlapping memory in another order), a copy (`copy`: equal numbers, distinct buffers), the stripped ndarray view of the
# quantity (`bview`); and single-operand calls get the operand itself as out= target (`out`). A handler that recognises one of
# these relations (`a1 is a2`, np.shares_memory, `out is a`) and answers from a shortcut is executed on that shortcut here.
# These templates are C06-only Tpl objects (not in the shared TEMPLATES list); they run in the real, integer, typed and NaN families.
_AR = {"0": (), "1": (3,), "2": (2, 2)}
RELATIONS = ("same", "view", "rev", "copy", "bview")


def _related(E, a, rel):
    if rel == "same":
        return a
    if rel == "view":
        b = a[...]
    elif rel == "rev":
        b = a[::-1]
    elif rel == "copy":
        b = a.copy()
    else:
        b = a.view(np.ndarray) if is_unyt(a) else a[...]
    E.made["b"] = b
    return b


def _mask_like(a):
    n = int(np.prod(np.shape(a), dtype=int))
    return (np.arange(n) % 2 == 0).reshape(np.shape(a))


def _perm(a):
    n = int(np.prod(np.shape(a), dtype=int))
    return (np.arange(n)[::-1]).reshape(np.shape(a))


ALIAS2 = [  # (name, handler key, call on (N, a, b)): b is related to a
    ("np.dot", "numpy.dot", lambda N, a, b: N.dot(a, b)),
    ("np.vdot", "numpy.vdot", lambda N, a, b: N.vdot(a, b)),
    ("np.inner", "numpy.inner", lambda N, a, b: N.inner(a, b)),
    ("np.outer", "numpy.outer", lambda N, a, b: N.outer(a, b)),
    ("np.linalg.outer", "numpy.linalg.outer", lambda N, a, b: N.linalg.outer(a, b)),
    ("np.kron", "numpy.kron", lambda N, a, b: N.kron(a, b)),
    ("np.tensordot-axes0", "numpy.tensordot", lambda N, a, b: N.tensordot(a, b, 0)),
    ("np.tensordot-axes1", "numpy.tensordot", lambda N, a, b: N.tensordot(a, b, axes=1)),
    ("np.einsum-bcast", "numpy.einsum", lambda N, a, b: N.einsum("...,...->...", a, b)),
    ("np.convolve", "numpy.convolve", lambda N, a, b: N.convolve(a, b)),
    ("np.correlate", "numpy.correlate", lambda N, a, b: N.correlate(a, b, "full")),
    ("np.matmul", "numpy.matmul", lambda N, a, b: N.matmul(a, b)),
    ("op.matmul", "ndarray.__matmul__", lambda N, a, b: a @ b),
    ("m.dot", "ndarray.dot", lambda N, a, b: a.dot(b)),
    ("np.cross", "numpy.cross", lambda N, a, b: N.cross(a, b)),
    ("np.linalg.vecdot", "numpy.linalg.vecdot", lambda N, a, b: N.linalg.vecdot(a, b)),
    ("np.linalg.multi_dot", "numpy.linalg.multi_dot", lambda N, a, b: N.linalg.multi_dot([a, b])),
    ("np.concatenate", "numpy.concatenate", lambda N, a, b: N.concatenate([a, b])),
    ("np.concatenate-axisNone", "numpy.concatenate", lambda N, a, b: N.concatenate([a, b], axis=None)),
    ("np.vstack", "numpy.vstack", lambda N, a, b: N.vstack([a, b])),
    ("np.hstack", "numpy.hstack", lambda N, a, b: N.hstack([a, b])),
    ("np.dstack", "numpy.dstack", lambda N, a, b: N.dstack([a, b])),
    ("np.column_stack", "numpy.column_stack", lambda N, a, b: N.column_stack([a, b])),
    ("np.stack", "numpy.stack", lambda N, a, b: N.stack([a, b])),
    ("np.block", "numpy.block", lambda N, a, b: N.block([a, b])),
    ("np.append", "numpy.append", lambda N, a, b: N.append(a, b)),
    ("np.isclose", "numpy.isclose", lambda N, a, b: N.isclose(a, b, rtol=0.25, atol=0)),
    ("np.isclose-equal_nan", "numpy.isclose", lambda N, a, b: N.isclose(a, b, 0.25, 0, equal_nan=True)),
    ("np.allclose", "numpy.allclose", lambda N, a, b: N.allclose(a, b, 0.25, 0)),
    ("np.allclose-equal_nan", "numpy.allclose", lambda N, a, b: N.allclose(a, b, rtol=0.25, atol=0, equal_nan=True)),
    ("np.array_equal", "numpy.array_equal", lambda N, a, b: N.array_equal(a, b)),
    ("np.array_equal-equal_nan", "numpy.array_equal", lambda N, a, b: N.array_equal(a, b, equal_nan=True)),
    ("np.array_equiv", "numpy.array_equiv", lambda N, a, b: N.array_equiv(a, b)),
    ("np.where", "numpy.where", lambda N, a, b: N.where(_mask_like(a), a, b)),
    ("np.isin", "numpy.isin", lambda N, a, b: N.isin(a, b)),
    ("np.isin-invert", "numpy.isin", lambda N, a, b: N.isin(a, b, invert=True)),
    ("np.intersect1d", "numpy.intersect1d", lambda N, a, b: N.intersect1d(a, b)),
    ("np.union1d", "numpy.union1d", lambda N, a, b: N.union1d(a, b)),
    ("np.setdiff1d", "numpy.setdiff1d", lambda N, a, b: N.setdiff1d(a, b)),
    ("np.setxor1d", "numpy.setxor1d", lambda N, a, b: N.setxor1d(a, b)),
    ("np.searchsorted", "numpy.searchsorted", lambda N, a, b: N.searchsorted(a, b)),
    ("np.copyto", "numpy.copyto", lambda N, a, b: N.copyto(a, b)),
    ("np.putmask", "numpy.putmask", lambda N, a, b: N.putmask(a, _mask_like(a), b)),
    ("np.place", "numpy.place", lambda N, a, b: N.place(a, _mask_like(a), b)),
    ("np.put", "numpy.put", lambda N, a, b: N.put(a, [0], b)),
    ("m.setitem", "ndarray.__setitem__", lambda N, a, b: a.__setitem__(Ellipsis, b)),
    ("np.clip-bounds", "numpy.clip", lambda N, a, b: N.clip(a, b, b)),
    ("np.linspace", "numpy.linspace", lambda N, a, b: N.linspace(a, b, 3)),
    ("np.trapezoid", "numpy.trapezoid", lambda N, a, b: N.trapezoid(a, b)),
    ("np.cov", "numpy.cov", lambda N, a, b: N.cov(a, b)),
    ("np.insert", "numpy.insert", lambda N, a, b: N.insert(a, 1, b)),
    ("np.ediff1d-to_end", "numpy.ediff1d", lambda N, a, b: N.ediff1d(a, to_end=b)),
    ("np.diff-prepend", "numpy.diff", lambda N, a, b: N.diff(a, prepend=b)),
    ("np.choose", "numpy.choose", lambda N, a, b: N.choose(_mask_like(a).astype(int), [a, b])),
    ("np.select-default", "numpy.select", lambda N, a, b: N.select([_mask_like(a)], [a], default=b)),
    ("np.meshgrid", "numpy.meshgrid", lambda N, a, b: N.meshgrid(a, b)),
    ("np.broadcast_arrays", "numpy.broadcast_arrays", lambda N, a, b: N.broadcast_arrays(a, b)),
    ("np.lexsort", "numpy.lexsort", lambda N, a, b: N.lexsort((a, b))),
    ("np.full_like", "numpy.full_like", lambda N, a, b: N.full_like(a, b)),
]
# sorting-type functions fork on every ordering: 1-d operands of 3 elements at most
_ALIAS_SMALL = ("np.isin", "np.isin-invert", "np.intersect1d", "np.union1d", "np.setdiff1d", "np.setxor1d", "np.searchsorted", "np.lexsort")
# quick tier: the validating / comparing functions (answers that a shortcut can fake) in more relations than the rest
_ALIAS_QUICK_WIDE = ("np.isclose", "np.allclose", "np.array_equal", "np.array_equiv", "np.isin", "np.where", "np.copyto", "np.concatenate", "np.dot", "np.setdiff1d")


def _as_out(E, name):
    """the operand `name` is also the out= target of the call: the typed family checks that it keeps its dtype"""
    if hasattr(E, "outs"):
        E.outs[name] = E.dt


def _ao(E, shape, name="a"):
    a = E.q(name, "L", shape)
    _as_out(E, name)
    return a


def _row(E, a):
    """out= target that is a VIEW of the operand (its first row)"""
    o = a[0]
    E.made["o"] = o
    _as_out(E, "o")
    return o


ALIAS_OUT = [  # (name, handler key, call on (N, E, shape)): the operand is its own out= target
    ("np.around", "numpy.around", lambda N, E, s: (lambda a: N.around(a, 1, out=a))(_ao(E, s))),
    ("np.round", "numpy.round", lambda N, E, s: (lambda a: N.round(a, decimals=-1, out=a))(_ao(E, s))),
    ("m.round", "ndarray.round", lambda N, E, s: (lambda a: a.round(1, out=a))(_ao(E, s))),
    ("np.fix", "numpy.fix", lambda N, E, s: (lambda a: N.fix(a, out=a))(_ao(E, s))),
    ("np.clip", "numpy.clip", lambda N, E, s: (lambda a: N.clip(a, E.q("lo", "L", ()), E.q("hi", "L", ()), out=a))(_ao(E, s))),
    ("m.clip", "ndarray.clip", lambda N, E, s: (lambda a: a.clip(E.q("lo", "L", ()), E.q("hi", "L", ()), out=a))(_ao(E, s))),
    ("np.cumsum", "numpy.cumsum", lambda N, E, s: (lambda a: N.cumsum(a, axis=0, out=a))(_ao(E, s))),
    ("m.cumsum", "ndarray.cumsum", lambda N, E, s: (lambda a: a.cumsum(axis=-1, out=a))(_ao(E, s))),
    ("np.take", "numpy.take", lambda N, E, s: (lambda a: N.take(a, _perm(a), out=a))(_ao(E, s))),
    ("m.take", "ndarray.take", lambda N, E, s: (lambda a: a.take(_perm(a), out=a))(_ao(E, s))),
    ("np.choose", "numpy.choose", lambda N, E, s: (lambda a: N.choose(_mask_like(a).astype(int), [a, E.q("b", "L", s)], out=a))(_ao(E, s))),
    ("np.nan_to_num", "numpy.nan_to_num", lambda N, E, s: N.nan_to_num(E.q("a", "L", s), copy=False)),
    ("np.sum-row", "numpy.sum", lambda N, E, s: (lambda a: N.sum(a, axis=0, out=_row(E, a)))(E.q("a", "L", s))),
    ("m.mean-row", "ndarray.mean", lambda N, E, s: (lambda a: a.mean(axis=0, out=_row(E, a)))(E.q("a", "L", s))),
    ("np.max-row", "numpy.max", lambda N, E, s: (lambda a: N.max(a, axis=0, out=_row(E, a)))(E.q("a", "L", s))),
    ("np.concatenate-halves", "numpy.concatenate", lambda N, E, s: (lambda a: N.concatenate([a[1:], a[:1]], out=a))(_ao(E, s))),
    ("np.dot-eye", "numpy.dot", lambda N, E, s: (lambda a: N.dot(a, E.const(np.eye(a.shape[-1]) if a.ndim else 1.0), out=a))(_ao(E, s))),
]


def alias_templates(tier):
    out = []
    for name, key, fn in ALIAS2:
        for rel in RELATIONS:
            for rk, shape in _AR.items():
                if rel == "rev" and rk == "0":
                    continue
                if name in _ALIAS_SMALL and rk == "2":
                    continue
                if name == "np.cov" and rk == "0":
                    continue  # one observation: the normalisation divides by zero
                if rel == "bview" and name.startswith(("np.array_equal", "np.array_equiv")):
                    continue  # a quantity and a bare array: the handlers deliberately answer False (different units, C19; see OUTSIDE)
                quick = (rel == "same" and rk == "1") or (name in _ALIAS_QUICK_WIDE and ((rel == "same") or (rel in ("view", "rev") and rk == "1")))
                if tier == "quick" and not quick:
                    continue

                def _mk(fn=fn, rel=rel, shape=shape):
                    def f(N, E):
                        a = E.q("a", "L", shape)
                        return fn(N, a, _related(E, a, rel))
                    return f
                out.append(Tpl(f"alias/{name}/{rel}/{rk}", key, _mk(), groups=("L",), c07=False, quick=quick, max_paths=400))
                # array_equal(equal_nan=True) makes NumPy call isnan, which has no object-dtype loop: typed buffers only (isclose / allclose
                # are formula models in the symbolic families, A4, and know equal_nan)
                out[-1].typed_only = name == "np.array_equal-equal_nan"
    for name, key, fn in ALIAS_OUT:
        for rk, shape in _AR.items():
            if name.endswith("-row") and rk != "2":
                continue
            if name in ("np.concatenate-halves", "np.dot-eye") and rk == "0":
                continue
            quick = rk == ("2" if name.endswith("-row") else "1")
            if tier == "quick" and not quick:
                continue
            out.append(Tpl(f"alias/{name}/out/{rk}", key, (lambda fn=fn, shape=shape: lambda N, E: fn(N, E, shape))(), groups=("L",), c07=False, quick=quick, max_paths=400))
    return out


# ----------------------------------------------------------------------------------------------------------- NaN payloads, solver-decided
# A1 takes NaN out of every claim made with a symbolic payload: x == x is a theorem for reals. A handler shortcut that is only wrong
# for unordered data (np.array_equal(a, a) answered True without looking) is therefore invisible to the families above. WHERE the
# NaNs sit is a discrete axis: this family puts an IEEE-NaN proxy at enumerated positions of every payload array (a `mask` kind) and
# keeps all other elements z3 reals, so each case is still decided for ALL real values of the remaining elements.
# SymNaN: unordered (==, <, <=, >, >= are False, != is True: plain python bools, no fork), absorbing under arithmetic and under every
# element method NumPy's object loops call. Anything that would need its z3 term raises Unsupported (path cut, counted).
# NumPy's own C kernels treat float NaN specially in places an object array cannot mimic (sort puts NaN last, maximum propagates it,
# unique collapses NaNs, isnan has no object loop): both runs of the differential see the SAME object semantics, so an agreement is
# an agreement of unyt's Python code with NumPy's Python code under "NaN is unordered"; the pinned run of this family is not compared
# with a float run (no conformance), but every counterexample is replayed with real float NaNs on plain unyt.
class SymNaN(core.SymReal):
    __slots__ = ()
    _symx_nan = True  # read by the closeness model of the A4 numpy proxy (symx/shims.py)

    def __init__(self):
        pass

    @property
    def t(self):
        raise core.Unsupported("a NaN payload element reached code that needs its value as a z3 term")

    def _self(self, *a, **k):
        return self

    def _false(self, o):
        return False

    __eq__ = __lt__ = __le__ = __gt__ = __ge__ = _false

    def __ne__(self, o):
        return True

    __hash__ = object.__hash__

    def __bool__(self):
        return True

    def __float__(self):
        return float("nan")

    def __int__(self):
        raise core.Unsupported("int() of a NaN payload element")

    def __pow__(self, p, mod=None):
        if not isinstance(p, SymNaN) and bool(p == 0):
            return 1.0
        return self

    def __rpow__(self, o):
        if bool(o == 1):
            return 1.0
        return self

    def __divmod__(self, o):
        return self, self

    __rdivmod__ = __divmod__

    def modf(self):
        return self, self

    def isnan(self):
        return True

    def isfinite(self):
        return False

    def isinf(self):
        return False

    def signbit(self):
        return False

    def is_integer(self):
        return False

    def __repr__(self):
        return "nan"

    def __format__(self, spec):
        return format(float("nan"), spec)


for _n in ("__add__", "__radd__", "__sub__", "__rsub__", "__mul__", "__rmul__", "__truediv__", "__rtruediv__", "__floordiv__", "__rfloordiv__",
           "__mod__", "__rmod__", "__neg__", "__pos__", "__abs__", "__floor__", "__ceil__", "__trunc__", "__round__", "sqrt", "cbrt", "square",
           "reciprocal", "fabs", "floor", "ceil", "trunc", "rint", "sign", "hypot", "arctan2", "logaddexp", "logaddexp2", "copysign", "nextafter",
           "heaviside", "fmod", "ldexp", "deg2rad", "rad2deg", "spacing", "conjugate", "conj", "sin", "cos", "tan", "arcsin", "arccos", "arctan",
           "sinh", "cosh", "tanh", "arcsinh", "arccosh", "arctanh", "exp", "exp2", "expm1", "log", "log2", "log10", "log1p"):
    setattr(SymNaN, _n, SymNaN._self)
NAN = SymNaN()

NAN_MASKS = {"quick": ["n0"], "thorough": ["n0", "nl", "na", "nb"]}
A13 = ("A13 NaN payload elements (family C06/nan/*): NaN is an unordered, absorbing element (SymNaN: every comparison False, != True, "
       "arithmetic and element methods return NaN, NaN**0 = 1 = 1**NaN); NumPy kernels run their object-dtype code on it, which differs from the "
       "float kernels where those special-case NaN (sort, maximum/minimum, unique, isnan); signs and payload bits of NaN, inf and -0.0 are "
       "not modelled (the typed family runs NaN / inf / -0.0 through the real float kernels, as an enumeration); this family is not part of "
       "the shim-conformance step; every counterexample is replayed with float NaNs on plain unyt")
ASSUMPTIONS = ASSUMPTIONS + [A13]


def _isnan_el(e):
    while isinstance(e, np.ndarray) and e.shape == ():  # ndarray.fill(0-d object array) stores the 0-d array itself as the element
        e = e.view(np.ndarray)[()]
    return isinstance(e, SymNaN) or (isinstance(e, (float, np.floating)) and e != e)


def leaves_equal_nan(x, y, exact=True):
    """leaves_equal with `NaN at the same position` counting as equal (as np.array_equal(..., equal_nan=True) does)"""
    xs, ys = leaf_elements(x), leaf_elements(y)
    if len(xs) != len(ys):
        return False
    conds = []
    for a, b in zip(xs, ys):
        na, nb = _isnan_el(a), _isnan_el(b)
        if na or nb:
            if not (na and nb):
                return False
            continue
        conds.append(elem_eq(a, b, exact))
    return And(*conds) if conds else True


class NanEnv(Env):
    def __init__(self, ctx, mode, reg=None, alias=False, mask="n0"):
        Env.__init__(self, ctx, mode, reg, alias=alias)
        self.mask = mask
        self._eligible = False
        self._order = 0
        self.nans = 0

    def _positions(self, n):
        first = self._order == 0
        if self.mask == "n0":
            return [0]
        if self.mask == "nl":
            return [n - 1] if n >= 2 else []
        if self.mask == "na":
            return [0] if first else []
        return [] if first else [n - 1]

    def _reals(self, name, shape, **kw):
        a = Env._reals(self, name, shape, **kw)
        if self._eligible:
            flat = list(np.ndindex(*shape))
            for i in self._positions(len(flat)):
                a[flat[i]] = NAN if self.ctx.symbolic else np.nan
                self.nans += 1
            self._order += 1
        return a

    def q(self, name, group="L", shape=(2,), pos=False, nonzero=False, increasing=False, lo=None, hi=None, pattern=None):
        # sorted / bounded / patterned payloads are preconditions of the call (searchsorted, histogram bins ...): they stay finite
        self._eligible = pattern is None and not increasing and lo is None and hi is None
        try:
            return Env.q(self, name, group, shape, pos=pos, nonzero=nonzero, increasing=increasing, lo=lo, hi=hi, pattern=pattern)
        finally:
            self._eligible = False


def operand_count(t):
    """number of payload arrays a template makes (dry run on float64 buffers without units): na / nb masks need two"""
    import warnings
    E = TypedEnv(None, "bare", None, "float64", 0)
    with warnings.catch_warnings(), np.errstate(all="ignore"):
        warnings.simplefilter("ignore")
        try:
            t.fn(np, E)
        except (Exception, core.Unsupported):
            pass
    if t.name.startswith("alias/"):
        return 1  # the second operand is derived from the first
    return len([n for n in E.made if n not in E.outs])


def make_nan_case(t, mask):
    envs = []

    def env(ctx, mode, reg=None, alias=False):
        e = NanEnv(ctx, mode, reg, alias=alias, mask=mask)
        envs.append(e)
        return e

    c = make_case(t, env=env, case_id=f"C06/nan/{mask}/{t.name}", conform=False, same=leaves_equal_nan, observe=False, allow_unsupported=True,
                  bounds="symbolic: every finite array element and bare scalar argument; enumerated: the positions that hold NaN (mask %s)" % mask)
    inner = c.fn

    def h(ctx):
        del envs[:]
        try:
            return inner(ctx)
        except (core.Unsupported, core.DomainExit):
            # a NaN reached an element operation that needs a z3 term, or a NumPy routine without an object-dtype loop (isnan ...),
            # or NumPy replaced it by +-inf (the nan-functions): the path is cut and counted
            ctx.require("NaN family: path cut where NaN needs a float kernel (engine limit)", True)
            raise

    c.fn = h
    return c


# ----------------------------------------------------------------------------------------------------------- argument spelling
# Every template above fixes ONE spelling of its call (which arguments are positional, which are keywords). A handler with the
# signature (a, *args, **kwargs) that re-binds `args` by name, reads `kwargs.get("axis")` only, or takes args[0] for some parameter
# is wrong for one spelling and right for the other. The spelling is a discrete axis that is derived MECHANICALLY here: the numpy
# namespace handed to a template is wrapped so that every call of an __array_function__-dispatched function is bound to NumPy's own
# public signature and re-issued, in the quantity run AND in the stripped run, as
#   pos: every argument NumPy accepts positionally IS passed positionally (gaps up to the last given one filled with NumPy's defaults),
#   kw : every argument but the first that NumPy accepts by keyword IS passed by keyword.
# A spelling case exists for a template iff the re-issued call differs from the template's own spelling (decided by a dry run on
# float buffers at case-generation time). Values stay symbolic, so two neighbouring optional arguments hold different numbers.
SPELLINGS = ("pos", "kw")
_SIGS = {}


def _signature(real):
    if real not in _SIGS:
        import inspect
        try:
            _SIGS[real] = inspect.signature(real)
        except (TypeError, ValueError):
            _SIGS[real] = None
    return _SIGS[real]


def respell(sig, args, kwargs, mode):
    """the same call in spelling `mode` -> (args, kwargs), or None where the spelling does not apply / changes nothing"""
    if sig is None:
        return None
    params = list(sig.parameters.values())
    if any(p.kind is p.VAR_POSITIONAL for p in params):
        return None
    try:
        given = sig.bind(*args, **kwargs).arguments
    except TypeError:
        return None
    pk = [p for p in params if p.kind in (p.POSITIONAL_ONLY, p.POSITIONAL_OR_KEYWORD)]
    new_kwargs = {}
    for p in params:
        if p.kind is p.VAR_KEYWORD and p.name in given:
            new_kwargs.update(given[p.name])
        elif p.kind is p.KEYWORD_ONLY and p.name in given:
            new_kwargs[p.name] = given[p.name]
    new_args = []
    if mode == "pos":
        last = max([i for i, p in enumerate(pk) if p.name in given], default=-1)
        for p in pk[:last + 1]:
            if p.name in given:
                new_args.append(given[p.name])
            elif p.default is not p.empty:
                new_args.append(p.default)
            else:
                return None
    else:
        for i, p in enumerate(pk):
            if p.name not in given:
                continue
            if p.kind is p.POSITIONAL_ONLY or i == 0:
                new_args.append(given[p.name])
            else:
                new_kwargs[p.name] = given[p.name]
    if len(new_args) == len(args) and set(new_kwargs) == set(kwargs):
        return None
    return tuple(new_args), new_kwargs


class Respell:
    """a numpy namespace (np, or the stripped run's BareNP) whose dispatched functions are called in another spelling"""

    def __init__(self, ns, real, mode, log=None):
        self._ns, self._real, self._mode, self._log = ns, real, mode, log

    def __getattr__(self, k):
        import inspect
        v, r = getattr(self._ns, k), getattr(self._real, k)
        if inspect.ismodule(r) and r.__name__.startswith("numpy"):
            return Respell(v, r, self._mode, self._log)
        if callable(r) and hasattr(r, "_implementation"):
            sig, mode, log = _signature(r), self._mode, self._log

            def f(*args, **kwargs):
                new = respell(sig, args, kwargs, mode)
                if log is not None:
                    log.append((getattr(r, "__name__", k), new is not None))
                if new is None:
                    return v(*args, **kwargs)
                return v(*new[0], **new[1])
            return f
        return v


def spelling_changes(t, mode):
    """dry run of the template on float buffers: does spelling `mode` re-issue any of its NumPy calls differently?"""
    import warnings
    log = []
    E = TypedEnv(None, "bare", None, "float64", 0)
    with warnings.catch_warnings(), np.errstate(all="ignore"):
        warnings.simplefilter("ignore")
        try:
            t.fn(Respell(np, np, mode, log), E)
        except (Exception, core.Unsupported):
            pass
    return any(ch for _, ch in log)


def spelled(t, mode):
    import copy
    s = copy.copy(t)
    s.name = f"spell/{mode}/{t.name}"
    s.fn = lambda N, E, fn=t.fn: fn(Respell(N, np, mode), E)
    s.conform = False
    return s


# neighbouring optional arguments of the same kind, BOTH given (a handler that binds them in the wrong order swaps two numbers) -
# C06-only templates; each runs as written and in every spelling that differs from it
_V = lambda E, n, s=(1,), g="L": E.q(n, g, s)
PAIRS = [
    ("np.ediff1d/both-kw", "numpy.ediff1d", lambda N, E: N.ediff1d(_V(E, "a", (3,)), to_end=_V(E, "b"), to_begin=_V(E, "c"))),
    ("np.ediff1d/both-pos", "numpy.ediff1d", lambda N, E: N.ediff1d(_V(E, "a", (3,)), _V(E, "b"), _V(E, "c"))),
    ("np.ediff1d/end-pos", "numpy.ediff1d", lambda N, E: N.ediff1d(_V(E, "a", (2,)), _V(E, "b", (2,)))),
    ("np.ediff1d/both-num", "numpy.ediff1d", lambda N, E: N.ediff1d(_V(E, "a", (2,)), E.num("v", "L"), E.num("w", "L"))),
    ("np.ediff1d/begin-kw-ragged", "numpy.ediff1d", lambda N, E: N.ediff1d(_V(E, "a", (2,)), to_begin=_V(E, "c", (2,)), to_end=_V(E, "b"))),
    ("np.diff/both-kw", "numpy.diff", lambda N, E: N.diff(_V(E, "a", (2,)), prepend=_V(E, "b"), append=_V(E, "c"))),
    ("np.diff/both-pos", "numpy.diff", lambda N, E: N.diff(_V(E, "a", (2,)), 1, -1, _V(E, "b"), _V(E, "c"))),
    ("np.diff/n-axis-pos", "numpy.diff", lambda N, E: N.diff(_V(E, "a", (3, 2)), 2, 0)),
    ("np.trapezoid/x-dx", "numpy.trapezoid", lambda N, E: N.trapezoid(_V(E, "a", (3,)), None, E.num("v", "T", pos=True))),
    ("np.trapezoid/x-pos", "numpy.trapezoid", lambda N, E: N.trapezoid(_V(E, "a", (3,)), _V(E, "b", (3,), "T"))),
    ("np.trapezoid/y-x-axis-kw", "numpy.trapezoid", lambda N, E: N.trapezoid(y=_V(E, "a", (2, 2)), x=_V(E, "b", (2,), "T"), axis=0)),
    ("np.where/xy-ragged", "numpy.where", lambda N, E: N.where(np.array([True, False, True]), _V(E, "a", (3,)), _V(E, "b", ()))),
    ("np.linspace/kw", "numpy.linspace", lambda N, E: N.linspace(start=_V(E, "a", ()), stop=_V(E, "b", ()), num=3)),
    ("np.linspace/all-pos", "numpy.linspace", lambda N, E: N.linspace(_V(E, "a", ()), _V(E, "b", ()), 3, False, True)),
    ("np.insert/kw", "numpy.insert", lambda N, E: N.insert(_V(E, "a", (3,)), obj=1, values=_V(E, "b", ()))),
    ("np.insert/axis-pos", "numpy.insert", lambda N, E: N.insert(_V(E, "a", (2, 2)), 0, _V(E, "b", (2,)), 1)),
    ("np.trace/all-pos", "numpy.trace", lambda N, E: N.trace(_V(E, "a", (2, 3, 2)), 1, 2, 1)),
    ("np.diagonal/all-pos", "numpy.diagonal", lambda N, E: N.diagonal(_V(E, "a", (2, 3, 2)), -1, 1, 2)),
    ("np.diagonal/kw", "numpy.diagonal", lambda N, E: N.diagonal(_V(E, "a", (2, 3, 2)), axis1=2, axis2=1)),
    ("np.swapaxes/kw", "numpy.swapaxes", lambda N, E: N.swapaxes(_V(E, "a", (1, 2, 3)), axis1=2, axis2=0)),
    ("np.moveaxis/kw", "numpy.moveaxis", lambda N, E: N.moveaxis(_V(E, "a", (1, 2, 3)), source=0, destination=2)),
    ("np.rollaxis/start", "numpy.rollaxis", lambda N, E: N.rollaxis(_V(E, "a", (1, 2, 3)), 2, 1)),
    ("np.roll/shift-axis-pos", "numpy.roll", lambda N, E: N.roll(_V(E, "a", (2, 3)), 1, 1)),
    ("np.take/axis-pos", "numpy.take", lambda N, E: N.take(_V(E, "a", (2, 3)), [1, 0], 1)),
    ("np.take/kw", "numpy.take", lambda N, E: N.take(_V(E, "a", (2, 3)), indices=[2, 0], axis=1)),
    ("np.repeat/axis-pos", "numpy.repeat", lambda N, E: N.repeat(_V(E, "a", (2, 2)), 2, 1)),
    ("np.cumsum/axis-pos", "numpy.cumsum", lambda N, E: N.cumsum(_V(E, "a", (2, 2)), 1)),
    ("np.sum/axis-out-pos", "numpy.sum", lambda N, E: N.sum(_V(E, "a", (2, 3)), 1, None, E.out("o", "L", (2,)))),
    ("np.mean/axis-keepdims", "numpy.mean", lambda N, E: N.mean(_V(E, "a", (2, 3)), 0, None, None, True)),
    ("np.std/ddof-pos", "numpy.std", lambda N, E: N.std(_V(E, "a", (3,)), None, None, None, 1)),
    ("np.var/axis-ddof-kw", "numpy.var", lambda N, E: N.var(_V(E, "a", (2, 2)), axis=1, ddof=1)),
    ("np.percentile/axis-pos", "numpy.percentile", lambda N, E: N.percentile(_V(E, "a", (2, 2)), 50, 1)),
    ("np.clip/pos-out", "numpy.clip", lambda N, E: N.clip(_V(E, "a", (2,)), _V(E, "b", ()), _V(E, "c", ()), E.out("o", "L", (2,)))),
    ("np.around/out-pos", "numpy.around", lambda N, E: N.around(_V(E, "a", (2,)), 1, E.out("o", "L", (2,)))),
    ("np.stack/axis-out", "numpy.stack", lambda N, E: N.stack([_V(E, "a", (2,)), _V(E, "b", (2,))], 1, E.out("o", "L", (2, 2)))),
    ("np.concatenate/axis-out-pos", "numpy.concatenate", lambda N, E: N.concatenate([_V(E, "a", (2, 1)), _V(E, "b", (2, 2))], 1, E.out("o", "L", (2, 3)))),
    ("np.append/axis-pos", "numpy.append", lambda N, E: N.append(_V(E, "a", (2, 1)), _V(E, "b", (2, 2)), 1)),
    ("np.tensordot/axes-pos", "numpy.tensordot", lambda N, E: N.tensordot(_V(E, "a", (2, 3)), _V(E, "b", (3, 2), "T"), 1)),
    ("np.cross/axes-pos", "numpy.cross", lambda N, E: N.cross(_V(E, "a", (3, 1)), _V(E, "b", (1, 3), "T"), 0, 1)),
    ("np.convolve/mode-pos", "numpy.convolve", lambda N, E: N.convolve(_V(E, "a", (3,)), _V(E, "b", (2,), "T"), "valid")),
    ("np.correlate/mode-kw", "numpy.correlate", lambda N, E: N.correlate(_V(E, "a", (3,)), v=_V(E, "b", (2,), "T"), mode="same")),
    ("np.searchsorted/side-pos", "numpy.searchsorted", lambda N, E: N.searchsorted(E.q("a", "L", (2,), increasing=True), _V(E, "b", ()), "right")),
    ("np.array_equal/kw", "numpy.array_equal", lambda N, E: N.array_equal(a1=_V(E, "a", (2,)), a2=_V(E, "b", (2,)))),
    ("np.fft.fft/n-axis-pos", "numpy.fft.fft", lambda N, E: N.fft.fft(E.q("a", "L", pattern=[[1, 2, 0], [0, 1, 3]]), 2, 0), 2),
    ("np.fft.ifft/n-kw", "numpy.fft.ifft", lambda N, E: N.fft.ifft(a=E.q("a", "L", pattern=[1, 2, 0, 1]), n=3), 2),
    ("np.fft.fftshift/axes-pos", "numpy.fft.fftshift", lambda N, E: N.fft.fftshift(_V(E, "a", (2, 3)), 1)),
    ("np.fft.ifftshift/axes-kw", "numpy.fft.ifftshift", lambda N, E: N.fft.ifftshift(x=_V(E, "a", (2, 3)), axes=0)),
]
_PAIRS_QUICK_OFF = ("np.percentile/axis-pos", "np.std/ddof-pos", "np.rollaxis/start", "np.repeat/axis-pos", "np.moveaxis/kw", "np.take/kw",
                    "np.diagonal/kw", "np.insert/kw", "np.linspace/kw")


def pair_templates(tier):
    out = []
    for row in PAIRS:
        name, key, fn = row[:3]
        if tier == "quick" and name in _PAIRS_QUICK_OFF:
            continue
        out.append(Tpl("args/" + name, key, fn, groups=("L", "T"), c07=False, tier=(row[3] if len(row) > 3 else 1), max_paths=400))
    return out


# ----------------------------------------------------------------------------------------------------------- stacked / broadcast operands
# The LAPACK-backed handlers and the matmul family take STACKS of matrices and broadcast the stack axes; NumPy decides from the operand
# ranks which computation that is (solve: b is ONE vector iff b.ndim == 1, otherwise a stack of matrices). A handler that reshapes an
# operand first (adds / drops an axis, treats (..., M) as a stack of vectors) asks NumPy for a different computation. The pair of operand
# shapes is a discrete axis; Tier-2 kernels are uninterpreted functions indexed by routine, bound arguments and PAYLOAD SHAPES, so a
# different shape reaching the routine is a different function (and a different result shape).
_M2 = [[2, 1], [1, 3]], [[1, 2], [3, 1]], [[1, 1], [0, 2]], [[3, 1], [2, 1]]


def _stackpat(shape):
    """a regular (every matrix / vector non-degenerate) concrete pattern of the given shape"""
    shape = tuple(shape)
    if len(shape) >= 2 and shape[-2:] == (2, 2):
        n = int(np.prod(shape[:-2], dtype=int))
        return np.array([_M2[i % 4] for i in range(n)], dtype=float).reshape(shape)
    n = int(np.prod(shape, dtype=int))
    return (np.arange(1, n + 1, dtype=float) * np.where(np.arange(n) % 3 == 2, -1.0, 1.0) + (np.arange(n) // 2)).reshape(shape)


def _P(E, name, shape, g="L"):
    return E.q(name, g, pattern=_stackpat(shape))


_SOLVE_PAIRS = [  # (a shape, b shape, quick)
    ((2, 2, 2), (2, 2), True), ((2, 2, 2), (2,), True), ((2, 2, 2), (2, 2, 1), True), ((2, 2, 2), (2, 1), False), ((2, 2, 2), (2, 2, 2), False),
    ((2, 2, 2), (1, 2, 2), False), ((2, 2, 2), (2, 3), False), ((3, 2, 2), (3, 2), True), ((3, 2, 2), (2,), False), ((3, 2, 2), (2, 3), True),
    ((3, 2, 2), (3, 2, 1), False), ((1, 2, 2), (2, 2), True), ((1, 2, 2), (1, 2), False), ((2, 2), (2, 1), True), ((2, 2), (2, 3), False),
    ((2, 2), (3, 2, 1), True), ((2, 2), (2, 2, 2), False), ((2, 2, 2, 2), (2, 2, 2), False), ((2, 1, 2, 2), (2, 2), False)]
_STACK1 = [  # LAPACK / matrix functions of ONE operand: (name, key, call on (N, a), tier)
    ("np.linalg.det", "numpy.linalg.det", lambda N, a: N.linalg.det(a), 2),
    ("np.linalg.inv", "numpy.linalg.inv", lambda N, a: N.linalg.inv(a), 2),
    ("np.linalg.pinv", "numpy.linalg.pinv", lambda N, a: N.linalg.pinv(a), 2),
    ("np.linalg.eig", "numpy.linalg.eig", lambda N, a: N.linalg.eig(a), 2),
    ("np.linalg.eigh", "numpy.linalg.eigh", lambda N, a: N.linalg.eigh(a), 2),
    ("np.linalg.eigvals", "numpy.linalg.eigvals", lambda N, a: N.linalg.eigvals(a), 2),
    ("np.linalg.eigvalsh", "numpy.linalg.eigvalsh", lambda N, a: N.linalg.eigvalsh(a, "U"), 2),
    ("np.linalg.svd", "numpy.linalg.svd", lambda N, a: N.linalg.svd(a), 2),
    ("np.linalg.svd-values", "numpy.linalg.svd", lambda N, a: N.linalg.svd(a, compute_uv=False), 2),
    ("np.linalg.norm-axes", "numpy.linalg.norm", lambda N, a: N.linalg.norm(a, "fro", (-2, -1)), 1),
    ("np.linalg.matrix_norm", "numpy.linalg.matrix_norm", lambda N, a: N.linalg.matrix_norm(a), 1),
    ("np.linalg.matrix_power", "numpy.linalg.matrix_power", lambda N, a: N.linalg.matrix_power(a, 2), 1),
    ("np.linalg.matrix_transpose", "numpy.linalg.matrix_transpose", lambda N, a: N.linalg.matrix_transpose(a), 1),
    ("np.linalg.trace", "numpy.linalg.trace", lambda N, a: N.linalg.trace(a), 1),
    ("np.linalg.diagonal", "numpy.linalg.diagonal", lambda N, a: N.linalg.diagonal(a), 1),
    ("np.linalg.tensorinv", "numpy.linalg.tensorinv", lambda N, a: N.linalg.tensorinv(a, ind=1), 2),
]
_STACK1_SHAPES = [((2, 2, 2), True), ((1, 2, 2), True), ((3, 2, 2), False), ((2, 1, 2, 2), False)]
_STACK2 = [  # the matmul family: (name, key, call on (N, a, b)), real object-dtype kernels (Tier 1)
    ("np.matmul", "numpy.matmul", lambda N, a, b: N.matmul(a, b)),
    ("op.matmul", "ndarray.__matmul__", lambda N, a, b: a @ b),
    ("np.linalg.matmul", "numpy.linalg.matmul", lambda N, a, b: N.linalg.matmul(a, b)),
    ("np.vecdot", "numpy.vecdot", lambda N, a, b: N.vecdot(a, b)),
    ("np.linalg.vecdot", "numpy.linalg.vecdot", lambda N, a, b: N.linalg.vecdot(a, b)),
    ("np.dot", "numpy.dot", lambda N, a, b: N.dot(a, b)),
    ("np.inner", "numpy.inner", lambda N, a, b: N.inner(a, b)),
    ("np.tensordot", "numpy.tensordot", lambda N, a, b: N.tensordot(a, b, 1)),
    ("np.linalg.multi_dot", "numpy.linalg.multi_dot", lambda N, a, b: N.linalg.multi_dot([a, b])),
    ("np.einsum-stack", "numpy.einsum", lambda N, a, b: N.einsum("...ij,...j->...i", a, b)),
]
_MM_PAIRS = [((2, 2, 2), (2, 2), True), ((2, 2, 2), (2,), True), ((2, 2), (2, 2, 2), False), ((2,), (2, 2, 2), False), ((2, 2, 2), (2, 2, 2), True),
             ((1, 2, 2), (2, 2, 2), False), ((2, 2, 2), (2, 2, 1), False)]


def stack_templates(tier):
    out = []
    sh = lambda s: "x".join(map(str, s))
    for sa, sb, quick in _SOLVE_PAIRS:
        if tier == "quick" and not quick:
            continue
        for gb in (("T", "bare") if quick else ("T",)):
            out.append(Tpl(f"stack/np.linalg.solve/{sh(sa)}-{sh(sb)}" + ("" if gb == "T" else "/bare-b"), "numpy.linalg.solve",
                           (lambda sa=sa, sb=sb, gb=gb: lambda N, E: N.linalg.solve(_P(E, "a", sa), _P(E, "b", sb, gb)))(),
                           groups=("L", "T"), c07=False, tier=2, quick=quick))
    for name, key, fn, tr in _STACK1:
        for s, quick in _STACK1_SHAPES:
            if (tier == "quick" and not quick) or (name == "np.linalg.tensorinv" and s != (2, 2, 2)):
                continue
            out.append(Tpl(f"stack/{name}/{sh(s)}", key, (lambda fn=fn, s=s: lambda N, E: fn(N, _P(E, "a", s)))(), groups=("L",), c07=False, tier=tr, quick=quick))
            # NumPy: "matrix_power not supported for stacks of object arrays" - typed buffers only
            out[-1].typed_only = name == "np.linalg.matrix_power"
    for name, key, fn in _STACK2:
        for sa, sb, quick in _MM_PAIRS:
            if tier == "quick" and not quick:
                continue
            out.append(Tpl(f"stack/{name}/{sh(sa)}-{sh(sb)}", key,
                           (lambda fn=fn, sa=sa, sb=sb: lambda N, E: fn(N, E.q("a", "L", sa), E.q("b", "T", sb)))(), groups=("L", "T"), c07=False, quick=quick))
    return out


_NO_SPELL = ("rank/", "alias/", "sweep/", "mix/", "round/", "stack/")


def spelling_templates(tier, base):
    out = []
    for t in base:
        if t.name.startswith(_NO_SPELL):
            continue
        for mode in SPELLINGS:
            if spelling_changes(t, mode):
                out.append(spelled(t, mode))
    return out


def cases(tier, mods):
    check_names(mods, NAMES)
    install_numpy_patches()
    extra = pair_templates(tier) + stack_templates(tier)
    spell = spelling_templates(tier, select(tier, "c06") + extra)
    base = select(tier, "c06") + alias_templates(tier)
    sel = base + extra + spell
    typed_sel, sel = base + extra, [t for t in sel if not getattr(t, "typed_only", False)]
    ints = [t for t in base if t.tier == 1 and not t.name.startswith("sweep/") and t.key not in INT_SKIP and not getattr(t, "typed_only", False)]
    nans = [(t, m) for t in ints for m in NAN_MASKS[tier] if m in ("n0", "nl") or operand_count(t) >= 2]
    return ([make_case(t) for t in sel] + [make_typed_case(t, tier) for t in typed_sel]
            + [make_int_case(t, dt) for dt in INT_DTYPES[tier] for t in ints]
            + [make_nan_case(t, m) for t, m in nans])


def coverage_extra(results, tier):
    from .catalogue_common import coverage_summary
    fam = lambda r: r["id"].split("/")[1] if r["id"].startswith(("C06/typed/", "C06/int/", "C06/nan/")) else "real"
    out = coverage_summary([r for r in results if fam(r) == "real"], tier, "c06")
    typed = [r for r in results if fam(r) == "typed"]
    ints = [r for r in results if fam(r) == "int"]
    out["typed_family"] = dict(cases=len(typed), dtypes=TYPED_DTYPES[tier], value_sets=TYPED_SETS[tier], value_table=VALUE_TABLE,
                               decided_by="enumeration: ground checks on typed buffers, no solver verdict")
    nans = [r for r in results if fam(r) == "nan"]
    out["nan_family"] = dict(cases=len(nans), masks=NAN_MASKS[tier], mask_kinds=NAN_MASK_TEXT, paths=sum(r["paths"] for r in nans),
                             paths_cut_engine_limit=sum(r["outcomes"].get("unsupported", 0) for r in nans),
                             cases_cut_on_every_path=sorted(r["id"] for r in nans if r["paths"] and r["outcomes"].get("unsupported", 0) == r["paths"]),
                             decided_by="z3, all real values of the finite elements; NaN positions enumerated (A13)")
    real = [r for r in results if fam(r) == "real" and "@after" not in r["id"]]
    out["spelling_family"] = dict(cases={m: len([r for r in real if r["id"].startswith(f"C06/spell/{m}/")]) for m in SPELLINGS}, spellings=list(SPELLINGS),
                                  two_neighbour_call_forms=len(PAIRS), derived="mechanically from inspect.signature of the NumPy function; dry run decides whether a spelling differs")
    out["stack_family"] = dict(cases=len([r for r in real if r["id"].startswith("C06/stack/")]), solve_shape_pairs=len(_SOLVE_PAIRS),
                               matrix_functions=len(_STACK1), stack_shapes=[s for s, _ in _STACK1_SHAPES], matmul_family=len(_STACK2), matmul_shape_pairs=len(_MM_PAIRS))
    out["alias_family"] = dict(cases=len([r for r in results if "/alias/" in r["id"] and "@after" not in r["id"]]), relations=list(RELATIONS) + ["out"],
                               two_operand_functions=len(ALIAS2), out_alias_forms=len(ALIAS_OUT))
    out["typed_family"]["non_finite_value_sets"] = TYPED_NONFINITE[tier]
    out["integer_family"] = dict(cases=len(ints), declared_dtypes=INT_DTYPES[tier], paths=sum(r["paths"] for r in ints),
                                 paths_cut_engine_limit=sum(r["outcomes"].get("unsupported", 0) for r in ints),
                                 cases_cut_on_every_path=sorted(r["id"] for r in ints if r["paths"] and r["outcomes"].get("unsupported", 0) == r["paths"]),
                                 decided_by="z3, all integer values (declared dtype: A12)")
    return out
