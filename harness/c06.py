"""C06 - NumPy functions compute the same numbers on quantities as on bare arrays (differential / translation validation)."""
import numpy as np

from symx import core
from .catalogue_common import (ASSUMPTIONS, GROUP_DIMS, NAMES, TEMPLATES, UNITS, Env, engine_refusal, flatten, handler_coverage,  # noqa: F401
                               install_numpy_patches, is_unyt, leaf_elements, leaf_shape, leaves_equal, make_registry, namespaces,
                               numeric_obs, select)
from .common import And, Case, call, check_names

LEVEL = "other"
MANIFEST = dict(
    category="other",
    text=("Bounded symbolic execution of the real __array_function__ dispatch, the @implements handlers and the ndarray-method "
          "overrides (symx): every call template of a shared catalogue is run on quantities and on the stripped payload in one "
          "path; z3 proves element-wise equality of every returned array, every out= buffer and every argument after the call, "
          "for ALL real element values (unsat of pc & not P per path). Kernels that refuse the symbolic payload (LAPACK, FFT, "
          "interp, histogram*) are uninterpreted functions named by the NumPy routine and its bound arguments, so the obligation "
          "there is that the handler forwards to the same routine with the same arguments. The catalogue sweeps operand rank "
          "(0-d / 1-d / 2-d pairs) x operand kind (quantity, bare array, bare number) for the two-operand handlers and the sign of "
          "`decimals` x call form for the rounding family. Payload type: an integer family repeats the differential with "
          "integer-valued symbols whose declared dtype is what unyt's own code reads (A12), z3 deciding for ALL integers; a typed "
          "family runs every template on real int / uint / float32 / complex buffers against bare NumPy on identical buffers "
          "(shape, dtype kind, bit-identical values, out= buffers) - that family is ENUMERATION of a dtype x value table, not a "
          "solver verdict. Bounded: catalogue of templates, shapes <= (2,3)/(2,2,2); IEEE rounding, integer wrap-around and "
          "complex payloads beyond the typed table are outside."),
    design="DESIGN.md section 4 C06",
    technique="differential symbolic execution of the real Python code over z3 real / integer-valued terms (quantity call vs stripped call); SMT obligations per path; uninterpreted-function model of opaque kernels; concrete typed-buffer differential over an enumerated dtype x value table; counterexample replay")
EXPLANATION = (
    "For each template F(*args) the real unyt_array.__array_function__ / handler / ndarray-method code is executed on "
    "quantities whose elements are z3 reals, then the same F on the stripped object arrays of the same symbols. Per path z3 "
    "decides pc & not(P) with P = same result structure, same shapes, element-wise equal values of every returned array, and "
    "element-wise equal final contents of every argument and out= buffer. A unyt-side exception is allowed by the property. "
    "Tier 2: LAPACK/FFT/interp/histogram kernels are uninterpreted functions K_F[bound non-payload arguments](payload): equality "
    "of the K_F applications means the handler forwards to the same routine with the same arguments. "
    "C06/rank/*: the two-operand handlers (dot, vdot, inner, outer, linalg.outer, kron, tensordot, einsum, convolve, correlate, "
    "ndarray.dot; the joining family; isclose/allclose/array_equal/array_equiv/where/isin/set functions/searchsorted; copyto/"
    "fill_diagonal/putmask/place/put) over all pairs of operand ranks 0-d/1-d/2-d and operand kinds quantity / bare ndarray / bare "
    "python number: a 0-d operand takes NumPy's scalar routes, which differ per function, and NumPy refusing the stripped call "
    "while the call on quantities returns is a violation. C06/round/*: decimals in {-2,-1,0,2} x positional/keyword/out=/0-d forms "
    "of np.around, np.round, ndarray.round. "
    "C06/int/<dtype>/*: the same obligations with INTEGER-valued symbols (unsigned: >= 0); the symbolic payload is an object array "
    "carrying a declared integer dtype that unyt's own Python code sees when it asks `.dtype` (A12), so a handler branch on the "
    "dtype kind is executed and its result compared by z3 for all integers; models are replayed on real int64/uint64 buffers. "
    "Paths on which unyt's integer branch needs a typed buffer (integer out= promotion in __array_ufunc__) are cut and counted. "
    "C06/typed/*: every template on real typed buffers (a fixed table of values with rounding ties, negatives, zero, values beyond "
    "8/16 bit; quarters for float/complex) through the real handler and through bare NumPy: same structure, shape, dtype kind, "
    "bit-identical values, same final out= buffers / arguments, out= buffers keep their dtype. No symbol is involved there: every "
    "obligation of that family is a ground check over the enumerated table (replayed on plain unyt like any counterexample).")
BOUNDS = {
    "quick": "the `quick` subset of the template catalogue (one or two forms per function), shapes (), (2,), (3,), (2,2), (2,3); rank sweep: "
             "rank pairs with a 0-d operand x all operand kinds; rounding: 11 of 32 decimals x form templates. Integer family: every Tier-1 "
             "template of this subset except np.unwrap, declared int64, all integers (solver). Typed family (ENUMERATION): every template x {int64, uint16, float32, "
             "complex128} x 2 value sets of a 28-entry table",
    "thorough": "the full template catalogue: positional / keyword / out= variants, equal and ragged extents, plus a shape x axis sweep of 25 "
                "single-operand functions over (), (1,), (0,), (2,3), (3,2), (1,2), (2,2,2); sorting-type functions with axis=None only up to 3 "
                "elements; rank sweep: all 9 rank pairs x all kinds (sorting-type functions: <= 3 elements); all 32 rounding templates. Integer "
                "family: every Tier-1 template except the shape x axis sweep and np.unwrap x declared {int64, uint64 (symbols >= 0)}, all integers (solver). Typed family (ENUMERATION): every template x {int8, int32, int64, uint8, uint16, uint64, "
                "float32, float64, complex64, complex128} x 4 value sets",
}
OUTSIDE = ("IEEE rounding (A1); integer wrap-around and the dtype WIDTH of results (only the dtype kind is compared, in the typed family); "
           "the typed family decides nothing beyond its value table: a dtype-dependent defect that needs a value outside the table AND is not "
           "visible to the integer family (which sees dtype reads made by unyt's own code on the operand, not e.g. np.asarray(a).dtype or "
           "np.result_type) is missed; complex and float32 payloads are only in the typed table (no solver verdict); integer out= buffers that "
           "reach __array_ufunc__ are re-typed to float by unyt (known finding, cf. C17) - those paths are cut in the integer family; numpy.ma; "
           "I/O functions (savetxt); "
           "correctness of NumPy itself; functions whose NumPy implementation refuses object arrays and that unyt does not wrap (gradient, "
           "bincount, digitize, corrcoef, real/imag, unwrapped LAPACK: cholesky, qr, cond, slogdet ...), reductions with where= and no "
           "initial=, histogram*(range=...) - all listed under not_covered* in the evidence (the typed family does run what is templated of "
           "them); np.array_equal/array_equiv of quantities "
           "with different units deliberately answer False (C19); Tier 2 proves forwarding (same routine, same bound arguments), "
           "not the kernel's numbers (the typed family compares the kernels' numbers on the table values)")
CONFORM = {"quick": 40, "thorough": 120}


def make_case(t, env=None, case_id=None, conform=None, **casekw):
    env = env or (lambda ctx, mode, reg=None, alias=False: Env(ctx, mode, reg, alias=alias))

    def h(ctx):
        reg = make_registry(ctx, t.groups, both=False)
        NQ, NB = namespaces(ctx)
        EQ = env(ctx, "q", reg)
        rq = call(t.fn, NQ, EQ)
        if rq[0] == "raise":
            if ctx.symbolic and engine_refusal(rq[1]):
                raise core.Unsupported(f"NumPy refused the symbolic payload in the quantity run: {type(rq[1]).__name__}: {rq[1]}"[:300])
            ctx.require("unyt raises (allowed by the property)", True)
            ctx.observe("outcome", "raise:" + type(rq[1]).__name__)
            return
        EB = env(ctx, "bare", alias=True)
        rb = call(t.fn, NB, EB)
        if rb[0] == "raise":
            if ctx.symbolic and engine_refusal(rb[1]):
                raise core.Unsupported(f"NumPy refused the symbolic payload in the stripped run: {type(rb[1]).__name__}: {rb[1]}"[:300])
            ctx.require("NumPy raises on the stripped data but the call on quantities returns", False,
                        numpy_error=f"{type(rb[1]).__name__}: {rb[1]}"[:200])
            return
        fq, fb = flatten(rq[1]), flatten(rb[1])
        kq = [(p, "a" if k == "u" else k, (o if k == "t" else None)) for p, k, o in fq]
        kb = [(p, "a" if k == "u" else k, (o if k == "t" else None)) for p, k, o in fb]
        # a 0-d result is a scalar on one side and a 0-d array on the other: both are 'numeric'
        norm = lambda ks: [(p, "a" if k in ("n", "b") else k, o) for p, k, o in ks]
        ok_struct = norm(kq) == norm(kb)
        ctx.require("structure", ok_struct, quantities=str(kq)[:200], stripped=str(kb)[:200])
        if ok_struct:
            shapes, vals = [], []
            for (p, k, x), (_, _, y) in zip(fq, fb):
                if k in ("u", "a", "n", "b"):
                    shapes.append(leaf_shape(x) == leaf_shape(y))
                    if shapes[-1]:
                        vals.append(leaves_equal(x, y, exact=True))
                elif k == "s" and not t.strings:
                    vals.append(x == y)
            ctx.require("shape", all(shapes), quantities=[leaf_shape(x) for _, k, x in fq if k in "uanb"], stripped=[leaf_shape(y) for _, k, y in fb if k in "uanb"])
            ctx.require("values", And(*vals) if vals else True, quantities=str(rq[1])[:250], stripped=str(rb[1])[:250])
        # arguments / out= buffers after the call
        after = []
        for name, x in EQ.made.items():
            y = EB.made.get(name)
            if y is None:
                after.append(False)
                continue
            after.append(leaf_shape(x) == leaf_shape(y))
            if after[-1]:
                after.append(leaves_equal(x, y, exact=True))
        ctx.require("arguments and out= buffers after the call", And(*after) if after else True,
                    quantities={n: str(v)[:80] for n, v in EQ.made.items()}, stripped={n: str(v)[:80] for n, v in EB.made.items()})
        if t.tier == 1:
            ctx.observe("result", numeric_obs(rq[1]))
            ctx.observe("args", [e for v in EQ.made.values() for e in numeric_obs(v)])

    return Case(case_id or f"C06/{t.name}", h, bounds=casekw.pop("bounds", "symbolic: every array element and bare scalar argument"), weight=t.weight,
                max_paths=t.max_paths, budget_s=600.0, conform=(t.conform if conform is None else conform), group=t.key, **casekw)


# ----------------------------------------------------------------------------------------------------------- integer payloads, solver-decided
# The same differential with INTEGER-valued symbols (ctx.real(integer=True); unsigned: >= 0): z3 decides equality for ALL integers
# (unbounded: wrap-around is outside). The payload of the symbolic run is still an object array, so that a handler which asks its
# operand for the dtype would see "O" and take the generic branch; A12 (install_declared_dtype) makes Python-level reads of `.dtype`
# BY UNYT CODE on a harness-made quantity answer the declared integer dtype, NumPy's own code keeps seeing the real (object) dtype.
# Replay runs on real int64 / uint64 buffers on plain unyt, so every reported counterexample is a typed differential.
INT_DTYPES = {"quick": ["int64"], "thorough": ["int64", "uint64"]}
# not in the integer family (the typed family runs them on integer buffers): the thorough shape x axis sweep (orthogonal to the payload
# type; sums of squares over 6-8 integer-constrained symbols take z3 minutes) and
INT_SKIP = {"numpy.unwrap": "floor/mod terms over integer-constrained symbols: z3 answers unknown on the path conditions"}
A12 = ("A12 declared dtype (integer family C06/int*): a quantity made by the harness from integer-valued symbols carries a declared integer "
       "dtype; `.dtype` read by code of the unyt package returns it (and it is inherited by views / copies of that quantity), any other "
       "reader and all C code see the real object dtype; element arithmetic is exact integer/real arithmetic: unsigned wrap-around, "
       "truncating stores into integer buffers and NumPy's casting refusals are not modelled (the pinned run of this family therefore "
       "is not compared with a typed run in the conformance step; the typed family C06/typed/* runs the same templates on real "
       "integer buffers). Every counterexample is replayed on real int64 / uint64 buffers on plain unyt")
ASSUMPTIONS = list(ASSUMPTIONS) + [A12]


def install_declared_dtype(mods):
    import sys
    UA = mods["UA"].unyt_array
    if "dtype" in vars(UA):
        return
    base = np.ndarray.dtype
    fin = UA.__array_finalize__

    def _get(self):
        d = self.__dict__.get("_symx_declared")
        if d is not None and str(sys._getframe(1).f_globals.get("__name__", "")).startswith("unyt"):
            return d
        return base.__get__(self)

    def _set(self, v):
        base.__set__(self, v)

    def __array_finalize__(self, obj):
        fin(self, obj)
        d = getattr(obj, "__dict__", None)
        d = d.get("_symx_declared") if d else None
        if d is not None and base.__get__(self).kind == "O":
            self.__dict__["_symx_declared"] = d

    UA.dtype = property(_get, _set)
    UA.__array_finalize__ = __array_finalize__


class IntEnv(Env):
    def __init__(self, ctx, mode, reg=None, alias=False, dtype="int64"):
        Env.__init__(self, ctx, mode, reg, alias=alias)
        self.dt = np.dtype(dtype)
        if ctx.symbolic and mode != "bare":
            install_declared_dtype(ctx.mods)

    def _kw(self, kw):
        kw = dict(kw, integer=True)
        if self.dt.kind == "u" and kw.get("lo") is None and not kw.get("pos"):
            kw["lo"] = 0
        return kw

    def _real(self, name, **kw):
        return Env._real(self, name, **self._kw(kw))

    def _reals(self, name, shape, **kw):
        a = np.empty(shape, dtype=object)
        for idx in np.ndindex(*shape):
            a[idx] = self._real(name + "".join(f"_{i}" for i in idx), **kw)
        return a if self.ctx.symbolic else a.astype(float).astype(self.dt)

    def _wrap(self, x, group):
        v = Env._wrap(self, x, group)
        if self.ctx.symbolic and is_unyt(v):
            v.__dict__["_symx_declared"] = self.dt
        return v

    def q(self, name, group="L", shape=(2,), pattern=None, **kw):
        if pattern is not None:
            raise core.Unsupported("integer family: a real-valued data pattern")
        v = Env.q(self, name, group, shape, **kw)
        if not self.ctx.symbolic:
            # `increasing` rebuilds the payload from python numbers: keep the declared dtype
            b = v.view(np.ndarray) if is_unyt(v) else np.asarray(v)
            if b.dtype != self.dt:
                v = self._wrap(b.astype(self.dt), group)
                self.made[name] = v
        return v

    def num(self, name, group="L", **kw):
        v = Env.num(self, name, group, **kw)
        return v if self.ctx.symbolic else int(v)

    def const(self, values, group=None):
        vals = np.asarray(values, dtype=float)
        if not np.all(vals == np.round(vals)):
            raise core.Unsupported("integer family: non-integer constants")
        if self.ctx.symbolic:
            return Env.const(self, values, group)
        return self._wrap(vals.astype(self.dt), group)


def make_int_case(t, dtype):
    c = make_case(t, env=lambda ctx, mode, reg=None, alias=False: IntEnv(ctx, mode, reg, alias=alias, dtype=dtype),
                  case_id=f"C06/int/{dtype}/{t.name}", conform=False, allow_unsupported=True,
                  bounds="symbolic: every array element and bare scalar argument, integer-valued (declared dtype %s)" % dtype)
    inner = c.fn

    def h(ctx):
        try:
            return inner(ctx)
        except core.Unsupported:
            # unyt's (or NumPy's) integer branch casts the payload to a float buffer, which cannot hold a term: the path is cut
            # (counted as `unsupported`, allowed for this family; the typed family runs the same template on real integer buffers)
            ctx.require("integer family: path cut where the integer branch needs a typed buffer (engine limit)", True)
            raise

    c.fn = h
    return c


# ----------------------------------------------------------------------------------------------------------- typed differential
# The symbolic payload is an object array of reals: a handler that looks at the dtype of its operand (integers "are already round",
# complex "has no order" ...) takes the float branch there. The typed differential runs the same template on REAL typed buffers
# (every dtype of TYPED_DTYPES) through the real dispatch / handler code and through bare NumPy on identical buffers, and demands the
# same structure, shape, dtype kind and bit-identical values (and the same final contents of every argument and out= buffer).
# A typed buffer cannot hold a z3 term: the value axis of THIS family is a stated finite enumeration (VALUE_TABLE), not a solver
# verdict; the solver-decided integer family is make_int_case below.
TYPED_DTYPES = {"quick": ["int64", "uint16", "float32", "complex128"],
                "thorough": ["int8", "int32", "int64", "uint8", "uint16", "uint64", "float32", "float64", "complex64", "complex128"]}
TYPED_SETS = {"quick": 2, "thorough": 4}
# integers with ones / tens / hundreds digits 5 (rounding ties to either side), negatives, zero, +-1, values beyond 8 and 16 bit
VALUE_TABLE = [7, -3, 15, 25, -15, 1234, -1772, 0, 1, -1, 5, -25, 100, 55, 1250, -449, 35, 2, -8, 64, 45, -35, 9, 650, -150, 70000, 3, -6]


def _table_value(i, dt):
    v = VALUE_TABLE[i % len(VALUE_TABLE)]
    if dt.kind in "iu" and dt.itemsize == 1:
        v = (abs(v) % 40) * (-1 if v < 0 else 1)
    elif dt.kind in "iu" and dt.itemsize == 2:
        v = (abs(v) % 3000) * (-1 if v < 0 else 1)
    if dt.kind == "u":
        v = abs(v)
    return v


class TypedEnv:
    """the argument factory of catalogue_common.Env over typed buffers with enumerated values"""

    def __init__(self, ctx, mode, reg, dtype, vset):
        self.ctx, self.mode, self.reg = ctx, mode, reg
        self.dt = np.dtype(dtype)
        self.vset = vset
        self.made, self.group, self.outs = {}, {}, {}

    def _start(self, name):
        return sum((i + 1) * ord(c) for i, c in enumerate(name)) * 5 + 11 * self.vset

    def _elem(self, i, pos=False, nonzero=False):
        dt = self.dt
        v = _table_value(i, dt)
        if dt.kind in "fc":
            v = v / 4.0  # dyadic: quarters and halves (rounding ties)
        if pos:
            v = abs(v) + 1
        if nonzero and v == 0:
            v = 3
        if dt.kind == "c" and not pos:
            v = complex(v, _table_value(i + 5, dt) / 4.0)
        return v

    def _array(self, name, shape, pos=False, nonzero=False, increasing=False):
        n = int(np.prod(shape)) if shape else 1
        s = self._start(name)
        vals = [self._elem(s + i, pos, nonzero) for i in range(n)]
        if increasing:
            acc, out = (vals[0].real if isinstance(vals[0], complex) else vals[0]), []
            for i, v in enumerate(vals):
                if i:
                    acc = acc + abs(v) + 1
                out.append(acc)
            vals = out
        return np.array(vals, dtype=self.dt).reshape(shape)

    def _wrap(self, x, group):
        if self.mode == "bare" or group in ("bare", None):
            return x
        unit = "dimensionless" if group == "1" else UNITS["A"][group]
        return self.ctx.quantity(x, unit, self.reg)

    def q(self, name, group="L", shape=(2,), pos=False, nonzero=False, increasing=False, lo=None, hi=None, pattern=None):
        if lo is not None or hi is not None:
            raise core.Unsupported("typed differential: bounded payloads are not tabulated")
        if pattern is not None:
            x = (np.asarray(pattern, dtype=float) * 3).astype(self.dt)
        else:
            x = self._array(name, tuple(shape), pos, nonzero, increasing)
        v = self._wrap(x, group)
        self.made[name], self.group[name] = v, group
        return v

    def raw(self, name, shape=(2,), **kw):
        return self.q(name, "bare", shape, **kw)

    def num(self, name, group="L", pos=False, nonzero=False, **kw):
        v = self._elem(self._start(name), pos, nonzero)
        v = v.real if isinstance(v, complex) else v
        return int(v) if self.dt.kind in "iu" else float(v)

    def out(self, name, group, shape):
        v = self._wrap(self._array(name, tuple(shape)), group)
        self.made[name], self.group[name] = v, group
        self.outs[name] = self.dt
        return v

    def const(self, values, group=None):
        return self._wrap(np.asarray(values).astype(self.dt), group)


def typed_registry(ctx, groups):
    D = ctx.mods["unyt"].dimensions
    reg = ctx.registry([])
    for i, g in enumerate(groups):
        if g not in ("1", "bare"):
            ctx.add_row(reg, UNITS["A"][g], getattr(D, GROUP_DIMS[g]), 2.0 + i)
    return reg


def _typed_leaf(x):
    if is_unyt(x):
        x = x.view(np.ndarray)
    return np.asarray(x)


def _typed_same(a, b):
    if a.dtype.kind in "fc" and b.dtype.kind in "fc":
        return bool(np.array_equal(a, b, equal_nan=True))
    return bool(np.array_equal(a, b))


TYPED_LABELS = ("typed: the call on quantities returns where NumPy raises on the stripped data", "typed: an out= buffer keeps its dtype",
                "typed structure", "typed shape", "typed dtype kind", "typed values", "typed arguments and out= buffers after the call")


def typed_compare(t, rq, rb, EQ, EB, outs):
    """-> {label: detail} of the obligations that FAIL for this run (empty: all hold)"""
    bad = {}
    # an out= buffer of the quantity run whose dtype is no longer the dtype it was made with: unyt re-typed the caller's buffer.
    # Everything else about this run (result dtype, values NumPy would have truncated into the buffer) follows from that, so
    # it is reported under this one label
    for name, dt0 in outs.items():
        a = _typed_leaf(EQ.made[name])
        if a.dtype != dt0 and _typed_leaf(EB.made[name]).dtype == dt0:
            bad[TYPED_LABELS[1]] = f"{name}: made as {dt0}, {a.dtype} after the call on quantities (NumPy: unchanged)"
            return bad
    fq, fb = flatten(rq), flatten(rb)
    norm = lambda f: [(p, "a" if k in ("u", "n", "b") else k, (o if k == "t" else None)) for p, k, o in f]
    if norm(fq) != norm(fb):
        bad["typed structure"] = f"unyt {norm(fq)} / numpy {norm(fb)}"[:300]
    else:
        for (p, k, x), (_, _, y) in zip(fq, fb):
            if k in ("u", "a", "n", "b"):
                a, b = _typed_leaf(x), _typed_leaf(y)
                d = f"{p}: unyt {a.dtype} {a.tolist()} / numpy {b.dtype} {b.tolist()}"[:260]
                if a.shape != b.shape:
                    bad.setdefault("typed shape", d)
                elif not _typed_same(a, b):
                    bad.setdefault("typed values", d)
                if a.dtype.kind != b.dtype.kind:
                    bad.setdefault("typed dtype kind", d)
            elif k == "s" and not t.strings and x != y:
                bad.setdefault("typed values", f"{p}: unyt {x!r} / numpy {y!r}"[:260])
    for name, x in EQ.made.items():
        y = EB.made.get(name)
        a, b = _typed_leaf(x), (_typed_leaf(y) if y is not None else None)
        if b is None or not (a.shape == b.shape and a.dtype == b.dtype and _typed_same(a, b)):
            bad.setdefault(TYPED_LABELS[6], f"{name}: unyt {a.dtype} {a.tolist()} / numpy " + (f"{b.dtype} {b.tolist()}" if b is not None else "missing"))
    return bad


def make_typed_case(t, tier):
    def h(ctx):
        import warnings
        reg = typed_registry(ctx, t.groups)
        for dtype in TYPED_DTYPES[tier]:
            failed, compared, raised = {}, 0, 0
            for vset in range(TYPED_SETS[tier]):
                with warnings.catch_warnings(), np.errstate(all="ignore"):
                    warnings.simplefilter("ignore")
                    try:
                        EQ = TypedEnv(ctx, "q", reg, dtype, vset)
                        rq = call(t.fn, np, EQ)
                        if rq[0] == "raise":
                            raised += 1
                            continue
                        EB = TypedEnv(ctx, "bare", None, dtype, vset)
                        rb = call(t.fn, np, EB)
                    except core.Unsupported:
                        continue
                    compared += 1
                    if rb[0] == "raise":
                        bad = {TYPED_LABELS[0]: f"{type(rb[1]).__name__}: {rb[1]}"[:200]}
                        for name, dt0 in EQ.outs.items():  # ... because unyt re-typed the out= buffer NumPy refuses to write to
                            if _typed_leaf(EQ.made[name]).dtype != dt0:
                                bad = {TYPED_LABELS[1]: f"{name}: made as {dt0}, {_typed_leaf(EQ.made[name]).dtype} after the call on quantities; NumPy: {bad[TYPED_LABELS[0]]}"[:300]}
                    else:
                        bad = typed_compare(t, rq[1], rb[1], EQ, EB, EQ.outs)
                    for label, detail in bad.items():
                        failed.setdefault(label, f"value set {vset}: {detail}"[:300])
            # one obligation per (label, dtype): it holds if it held for every value set of the table
            if compared == 0:
                ctx.require(f"typed: unyt raises for every value set (allowed by the property) or the template is not tabulated ({dtype})", True)
                continue
            for label in TYPED_LABELS:
                ctx.require(f"{label} ({dtype})", label not in failed, detail=failed.get(label, ""))
        # the table is fixed: the same buffers in the symbolic, pinned and replay runs

    return Case(f"C06/typed/{t.name}", h, bounds="enumerated: dtype x value table (typed buffers; no symbols)", weight=1, max_paths=8,
                budget_s=300.0, conform=False, group=t.key)


def cases(tier, mods):
    check_names(mods, NAMES)
    install_numpy_patches()
    sel = select(tier, "c06")
    ints = [t for t in sel if t.tier == 1 and not t.name.startswith("sweep/") and t.key not in INT_SKIP]
    return ([make_case(t) for t in sel] + [make_typed_case(t, tier) for t in sel]
            + [make_int_case(t, dt) for dt in INT_DTYPES[tier] for t in ints])


def coverage_extra(results, tier):
    from .catalogue_common import coverage_summary
    fam = lambda r: r["id"].split("/")[1] if r["id"].startswith(("C06/typed/", "C06/int/")) else "real"
    out = coverage_summary([r for r in results if fam(r) == "real"], tier, "c06")
    typed = [r for r in results if fam(r) == "typed"]
    ints = [r for r in results if fam(r) == "int"]
    out["typed_family"] = dict(cases=len(typed), dtypes=TYPED_DTYPES[tier], value_sets=TYPED_SETS[tier], value_table=VALUE_TABLE,
                               decided_by="enumeration: ground checks on typed buffers, no solver verdict")
    out["integer_family"] = dict(cases=len(ints), declared_dtypes=INT_DTYPES[tier], paths=sum(r["paths"] for r in ints),
                                 paths_cut_engine_limit=sum(r["outcomes"].get("unsupported", 0) for r in ints),
                                 cases_cut_on_every_path=sorted(r["id"] for r in ints if r["paths"] and r["outcomes"].get("unsupported", 0) == r["paths"]),
                                 decided_by="z3, all integer values (declared dtype: A12)")
    return out
