"""C06 - NumPy functions compute the same numbers on quantities as on bare arrays (differential / translation validation)."""
import numpy as np

from symx import core
from .catalogue_common import (ASSUMPTIONS, NAMES, TEMPLATES, Env, engine_refusal, flatten, handler_coverage,  # noqa: F401
                               install_numpy_patches, is_unyt, leaf_elements, leaf_shape, leaves_equal, make_registry, namespaces,
                               numeric_obs, select)
from .common import And, Case, call, check_names

LEVEL = "other"
MANIFEST = dict(
    category="other",
    text=("Bounded symbolic execution of the real __array_function__ dispatch, the @implements handlers and the ndarray-method "
          "overrides (symx): every call template of a shared catalogue is run on quantities and on the stripped payload in one "
          "path; z3 proves element-wise equality of every returned array, every out= buffer and every argument after the call, "
          "for ALL real element values (unsat of pc & not P per path). Kernels that refuse the symbolic payload (LAPACK, FFT, "
          "interp, histogram*) are uninterpreted functions named by the NumPy routine and its bound arguments, so the obligation "
          "there is that the handler forwards to the same routine with the same arguments. Bounded: catalogue of templates, "
          "shapes <= (2,3)/(2,2,2); dtype kinds, complex input, rounding are outside."),
    design="DESIGN.md section 4 C06",
    technique="differential symbolic execution of the real Python code over z3 real terms (quantity call vs stripped call); SMT obligations per path; uninterpreted-function model of opaque kernels; counterexample replay")
EXPLANATION = (
    "For each template F(*args) the real unyt_array.__array_function__ / handler / ndarray-method code is executed on "
    "quantities whose elements are z3 reals, then the same F on the stripped object arrays of the same symbols. Per path z3 "
    "decides pc & not(P) with P = same result structure, same shapes, element-wise equal values of every returned array, and "
    "element-wise equal final contents of every argument and out= buffer. A unyt-side exception is allowed by the property. "
    "Tier 2: LAPACK/FFT/interp/histogram kernels are uninterpreted functions K_F[bound non-payload arguments](payload): equality "
    "of the K_F applications means the handler forwards to the same routine with the same arguments.")
BOUNDS = {
    "quick": "the `quick` subset of the template catalogue (one or two forms per function), shapes (), (2,), (3,), (2,2), (2,3)",
    "thorough": "the full template catalogue: positional / keyword / out= variants, equal and ragged extents, plus a shape x axis sweep of 25 "
                "single-operand functions over (), (1,), (0,), (2,3), (3,2), (1,2), (2,2,2); sorting-type functions with axis=None only up to 3 elements",
}
OUTSIDE = ("dtype kind agreement, integer/complex payloads (object payload; C17); IEEE rounding (A1); numpy.ma; I/O functions (savetxt); "
           "correctness of NumPy itself; functions whose NumPy implementation refuses object arrays and that unyt does not wrap (gradient, "
           "bincount, digitize, corrcoef, real/imag, unwrapped LAPACK: cholesky, qr, cond, slogdet ...), reductions with where= and no "
           "initial=, histogram*(range=...) - all listed under not_covered* in the evidence; np.array_equal/array_equiv of quantities "
           "with different units deliberately answer False (C19); Tier 2 proves forwarding (same routine, same bound arguments), "
           "not the kernel's numbers")
CONFORM = {"quick": 40, "thorough": 120}


def make_case(t):
    def h(ctx):
        reg = make_registry(ctx, t.groups, both=False)
        NQ, NB = namespaces(ctx)
        EQ = Env(ctx, "q", reg)
        rq = call(t.fn, NQ, EQ)
        if rq[0] == "raise":
            if ctx.symbolic and engine_refusal(rq[1]):
                raise core.Unsupported(f"NumPy refused the symbolic payload in the quantity run: {type(rq[1]).__name__}: {rq[1]}"[:300])
            ctx.require("unyt raises (allowed by the property)", True)
            ctx.observe("outcome", "raise:" + type(rq[1]).__name__)
            return
        EB = Env(ctx, "bare", alias=True)
        rb = call(t.fn, NB, EB)
        if rb[0] == "raise":
            if ctx.symbolic and engine_refusal(rb[1]):
                raise core.Unsupported(f"NumPy refused the symbolic payload in the stripped run: {type(rb[1]).__name__}: {rb[1]}"[:300])
            ctx.require("NumPy raises on the stripped data but the call on quantities returns", False,
                        numpy_error=f"{type(rb[1]).__name__}: {rb[1]}"[:200])
            return
        fq, fb = flatten(rq[1]), flatten(rb[1])
        kq = [(p, "a" if k == "u" else k, (o if k == "t" else None)) for p, k, o in fq]
        kb = [(p, "a" if k == "u" else k, (o if k == "t" else None)) for p, k, o in fb]
        # a 0-d result is a scalar on one side and a 0-d array on the other: both are 'numeric'
        norm = lambda ks: [(p, "a" if k in ("n", "b") else k, o) for p, k, o in ks]
        ok_struct = norm(kq) == norm(kb)
        ctx.require("structure", ok_struct, quantities=str(kq)[:200], stripped=str(kb)[:200])
        if ok_struct:
            shapes, vals = [], []
            for (p, k, x), (_, _, y) in zip(fq, fb):
                if k in ("u", "a", "n", "b"):
                    shapes.append(leaf_shape(x) == leaf_shape(y))
                    if shapes[-1]:
                        vals.append(leaves_equal(x, y, exact=True))
                elif k == "s" and not t.strings:
                    vals.append(x == y)
            ctx.require("shape", all(shapes), quantities=[leaf_shape(x) for _, k, x in fq if k in "uanb"], stripped=[leaf_shape(y) for _, k, y in fb if k in "uanb"])
            ctx.require("values", And(*vals) if vals else True, quantities=str(rq[1])[:250], stripped=str(rb[1])[:250])
        # arguments / out= buffers after the call
        after = []
        for name, x in EQ.made.items():
            y = EB.made.get(name)
            if y is None:
                after.append(False)
                continue
            after.append(leaf_shape(x) == leaf_shape(y))
            if after[-1]:
                after.append(leaves_equal(x, y, exact=True))
        ctx.require("arguments and out= buffers after the call", And(*after) if after else True,
                    quantities={n: str(v)[:80] for n, v in EQ.made.items()}, stripped={n: str(v)[:80] for n, v in EB.made.items()})
        if t.tier == 1:
            ctx.observe("result", numeric_obs(rq[1]))
            ctx.observe("args", [e for v in EQ.made.values() for e in numeric_obs(v)])

    return Case(f"C06/{t.name}", h, bounds="symbolic: every array element and bare scalar argument", weight=t.weight,
                max_paths=t.max_paths, budget_s=600.0, conform=t.conform, group=t.key)


def cases(tier, mods):
    check_names(mods, NAMES)
    install_numpy_patches()
    return [make_case(t) for t in select(tier, "c06")]


def coverage_extra(results, tier):
    from .catalogue_common import coverage_summary
    out = coverage_summary(results, tier, "c06")
    return out
