"""C16 - scalars are quantities, arrays are arrays, views stay attached to their data.

Discrete axes (enumerated as cases): operand shape (rank 0..3, extents 0..2 quick / 0..3 thorough), operand class
(unyt_array incl. 0-d unyt_array, unyt_quantity incl. size-1 quantities of rank >= 1), operation / indexing form / accessor,
the UNIT FAMILY of the two operands of a binary operation (unrelated units; the same unit; commensurable units in different
scales; unit pairs whose product / quotient cancels to a numeric coefficient, to a coefficient and a unit, or to a scaled pure
number - the pairs for which the ufunc wrap-up leaves through its second, rescaling exit), and the ARGUMENT FORMS of the
constructors (class called x kind of input x units form x registry x dtype form x bypass_validation x name, as a full product)
and of the view / copy accessors that take optional arguments; WHICH UNIT an element of a coerced sequence carries (the same spelling
in two / three registries, before and after registry.modify(), compound / prefixed / power spellings over such a symbol) against
every place that coerces a sequence (constructor, item assignment, either operand of a binary operation, with the target / partner
spelled differently or alike); the NumPy-function handlers by what NumPy hands back for one number (scalar, 0-d ndarray, one-element
array) x call form (which operand is the unyt object, axes / mode / axis / keepdims spellings).
Continuous axes (z3 reals): every payload element, every value written through a view or into a copy, every unit scale
(cancelling unit factors are table units: sympy cannot hold a solver term).
Class and shape facts are concrete per explored path; the solver's share is the value-level statements
(write-through for all w, independence of copies, SI-equality of coerced / converted / unit-carrying writes, SI value of
products / quotients / contractions / sums whose units cancel).
"""
import copy as _copy
import itertools

import numpy as np

from .common import as_ufunc_global
from .common import And, Case, all_exact, band, call, check_names, close, distinct_scales, elements, exact_eq, payload, vabs

LEVEL = "other"
MANIFEST = dict(
    category="other",
    text=("Bounded symbolic execution of the real result-class, indexing, view/copy and coercion code (symx). Shapes (rank 0..3, "
          "extents 0..2 quick / 0..3 thorough, incl. (), (1,), (1,1), (0,), (2,0)), operand classes (unyt_array incl. 0-d, "
          "unyt_quantity incl. size-1 of rank>=1), operations, indexing forms, accessors and the unit family of a binary operation's "
          "operands (unrelated / same / commensurable in another scale / cancelling to a coefficient, to a coefficient and a unit, to a "
          "scaled pure number, exactly) are ENUMERATED, one case each; class and "
          "shape facts (shape () => unyt_quantity, more than one element => unyt_array and not unyt_quantity, indexed/iterated "
          "elements carry the parent's unit and name) are therefore concrete per explored path, checked on every path of the real "
          "code running on symbolic payloads. The solver's share is the value-level statements, decided by z3 for ALL real payload "
          "values, ALL written values w and ALL positive unit scales: a write of w through a slice / reshape / transpose / .d / "
          ".ndview / ndarray_view() / constructor-on-ndarray makes exactly the corresponding parent element equal to w (a "
          "unit-carrying write: equal in SI) and leaves the others unchanged - the constructor statement for EVERY form of its optional "
          "arguments (unyt_array / unyt_quantity x input a bare ndarray, a non-contiguous window on a larger ndarray, a unyt_array or "
          "unyt_quantity built on an ndarray x 8 units/registry forms x dtype omitted or naming the data's own dtype in 3 spellings x "
          "bypass_validation x name: up to 160 calls per shape and input kind, plus the same on float64/float32/int64 buffers of "
          "numerals as ground facts); writes into .v / .value / to_ndarray() / to_value() / "
          "copy() / to / in_units / in_base / ndarray*unit results leave every parent term unchanged (and vice versa); a list of "
          "quantities in mixed commensurable units is coerced to the first element's unit with equal SI magnitudes - also when the units "
          "are mixed without being SPELLED differently (the same symbol in two or three registries with independent symbolic scales, captured "
          "before / after registry.modify() to a symbolic new scale, inside xa/xs, xa**2, kxa), at every place that coerces a sequence "
          "(unyt_array(seq) list / tuple / registry=, x[:] = seq, x + seq, seq + x, x - seq, x * seq, seq * x, the target or partner spelled "
          "differently or like the sequence in a registry of its own); the class rule on about 75 further handler call forms chosen by what "
          "NumPy hands back for one number (tensordot / kron / dot / vdot / inner / einsum / convolve / correlate with the unyt operand "
          "left or right of a bare ndarray or a quantity, axes= as integer and as pair of lists, norm / var / average with axis / keepdims, "
          "where / choose / select / around / triu / insert / block / linspace); the result of "
          "multiply / divide / outer / matmul / vecdot / add / subtract / x*unit / x/unit on operands whose units cancel (km * 1/m, "
          "m**2 / cm, erg / (N*m) ...) denotes in SI what bare NumPy computes from the payloads times the scales of the harness' own "
          "unit table (so the coefficient is applied exactly once, to every output, whatever class the result has). Any model is "
          "replayed on plain unyt with float64 data."),
    design="DESIGN.md section 4 C16",
    technique="symbolic execution of the real Python code over z3 real terms held in NumPy object arrays (which share memory exactly "
              "like float arrays); SMT (QF_NRA) obligations per path; enumeration of the discrete shape/class/operation axes; "
              "counterexample replay")
EXPLANATION = (
    "The real unyt_array.__array_ufunc__ wrap-up (unary, binary, reduce, accumulate, outer, the modf/divmod tuple branch, "
    "_get_binary_op_return_class, and both exits of the binary branch: `return out_arr` and, for unit pairs that cancel, the rescaling "
    "`mul * out_arr` / the scaled-pure-number rescaling before the class decision, reached through _multiply_units/_divide_units -> "
    "simplify -> _cancel_mul -> as_coeff_unit), __getitem__/__setitem__/iteration, unyt_quantity.__new__ and reshape, unyt_array.__new__ (all four exits: bypass_validation, input already a "
    "unyt_array, list of quantities -> _coerce_iterable_units, and the general exit np.asarray(input, dtype=dtype).view(cls), each "
    "with every combination of the optional arguments units / registry / dtype / bypass_validation / name that reaches it), Unit.__mul__ with data, the NumPy-function handlers (incl. take / einsum "
    "which pick a class by ndim, and the `* units` wrap-up of the others), and the accessors value/v/d/ndview/ndarray_view/to_ndarray/"
    "to_value/copy/to/in_units/in_base/in_cgs/in_mks are executed on operands of every enumerated shape and class whose elements and "
    "unit scales are z3 reals. Per path: (class) every unyt result of shape () is a unyt_quantity, every unyt result with more than one "
    "element is a unyt_array and not a unyt_quantity, result shapes equal bare NumPy's, indexed/iterated elements carry the parent's "
    "unit object, name and element terms; (attachment) after writing fresh symbols through a view the parent's element terms are exactly "
    "the expected ones (index map computed by applying the same route to an integer index array with bare NumPy), after writing into a "
    "copy all parent terms are the original symbols, and z3 proves the SI statements for unit-carrying writes and converting copies; "
    "(coercion) z3 proves si(result_i) == si(input_i) for all values and scales; (cancelling unit pairs) the same class / shape / "
    "arity facts for every operand-kind combination, the dimension of the result's unit against an exponent-vector table written for "
    "this check, and z3 proves si(result_i) == (bare NumPy on the payloads)_i * (table scale of x) op (table scale of y) for all payloads; "
    "(unit identity) _coerce_iterable_units and its three callers (unyt_array.__new__, __setitem__, the binary branch of __array_ufunc__) are "
    "executed on sequences whose elements are spelled alike but live in different registries / registry states: z3 proves for all payloads and "
    "all scales of all registries that every element of the result (the assigned target, the sum / difference / product) denotes in SI what the "
    "input element denoted in ITS registry, and that the inputs keep payload, spelling and scale; (handlers) the class / shape / arity facts "
    "for the handler x call-form catalogue of family 3b.")
BOUNDS = {
    "quick": "shapes: all of rank 0..3 with extents 0..2 (40 shapes, incl. (), (1,), (1,1), (0,), (2,0)); operand classes A (unyt_array of "
             "every shape incl. 0-d) and Q (unyt_quantity of every shape of size 1: (), (1,), (1,1), (1,1,1)); per (shape, class) one case "
             "of each family: ufunc (11 unary ufuncs incl. modf, operators, add/subtract/remainder/fmod/divmod with 6 unyt partners in the "
             "same unit, multiply/divide/floor_divide/divmod with the same partners in another unit and bare ndarray / 2-element ndarray / "
             "list / scalar partners, both operand orders, outer, add/multiply reduce over every axis, tuple of all axes and keepdims, "
             "accumulate, one mixed-unit (xa + kxa) sum with its SI value), cancel (the unit-family axis: x in km against partners in 1/m "
             "[product = 1000] and in m [quotient = 1000] with the full partner set - same shape, 0-d unyt_array, 0-d quantity, one-element "
             "quantity, all-ones shapes, 2-vector - under multiply / divide / * / / both orders, outer, floor_divide, //, divmod, add, "
             "subtract, remainder, fmod, and as contractions to a lower rank or to shape (): matmul / @ with a vector from the right, "
             "from the left and a matrix (as unyt_array and one-element unyt_quantity), vecdot, np.dot / x.dot / inner / tensordot / vdot; "
             "7 further pairs - m*1/m [exact], cm**2*1/m [0.01 cm], (km/m)*s [operand a scaled pure number], km*xs*1/m "
             "[symbolic-scale bystander xs], m**2/cm [100 m], erg/(N*m) [scaled pure number, rescaled before the class decision], "
             "xa/xa - with the same-shape, one-element-quantity and 0-d unyt_array partners under multiply both orders, *, matmul, or "
             "divide both orders, /, floor_divide, divmod, add; every pair also against the bare Unit object: x*unit, unit*x, x/unit, "
             "unit/x; the 11 unary ufuncs, **2 and add/multiply reduce on x in km/m, km*xs, m/s), ordered (maximum/minimum/fmax/comparisons/clip/sort/median/"
             "amax/ptp/min/max on payloads that are strictly increasing by construction, plus free payloads for one element against a 0-d "
             "partner in the same unit and, km against m, against a 0-d unyt_array and a quantity in another scale), index (39..61 indexing forms by rank: (), ellipsis, newaxis, integers, slices, concrete boolean masks of every "
             "applicable shape, a value-dependent mask, integer arrays incl. repeated indices; iteration, nested iteration, unpacking), func "
             "(about 110 NumPy functions / ndarray methods / conversions / unit products, see func_catalogue), view (37 view routes: "
             "slices, reshapes, transposes, view(), the same with order= / axes / type arguments spelled out, .d/.ndview/ndarray_view(), "
             "unyt_array(x); fresh symbols written at up to 4 positions each "
             "way, one unit-carrying write), copy (35 copy routes, incl. the accessors with their optional arguments spelled out - to_value / to / in_units on the "
             "operand's own unit name and unit object, equivalence=None, copy(order=), astype(own dtype) - + ndarray*unit, unit*ndarray, "
             "ndarray*quantity), ctor (the constructor's argument forms, full product per shape: class called [unyt_array; unyt_quantity "
             "for one element] x input kind [nd: bare ndarray; ndstrided: non-contiguous window (transposed, every axis reversed) on a "
             "larger ndarray; ua / uq: a unyt_array / unyt_quantity built on an ndarray - the result must be attached to both and the "
             "input keeps class, unit object and name; typed: float64 / float32 / int64 buffers holding numerals, ground facts] x units "
             "[omitted; omitted + registry; name + registry; name in the default registry; Unit; Unit + its registry; Unit of another "
             "registry + registry; another Unit (relabels unyt input)] x dtype [omitted; the data's own dtype as dtype object, as name, "
             "as scalar type] x bypass_validation [False; True with the Unit forms] x name [omitted; given]: 80 forms per class; fresh "
             "symbols written at up to 3 positions through the result and 2 into the buffer per form, class / shape / dtype / unit / name "
             "of the result compared with the harness' reading of the signature); coercion of lists/tuples of 1..3 quantities in distinct / equal / SI-prefixed units and of 2 arrays. "
             "coerce-ident (which unit an element carries): 20 identities [xa in registries A,B / B,A / A,A,B / A,B,A / A,B,B / B,A,A / A,B,C; A before and after "
             "modify(): a,m / m,a / a,a,m / a,m,B; xa/xs, xa**2, kxa over the same; one element spelled differently beside a foreign one; control: same "
             "registry] all through unyt_array(list); the sites tuple, registry=, x[:] = list / tuple, x + seq, np.add(seq, x), x - seq, x * seq, "
             "np.multiply(seq, x) and the -alike sites (target / partner spelled like the sequence in a fourth registry) with the pairs A,B and a,m "
             "(+ A,B,A, compound, control on a subset); element shapes () and (2,); additive sites on positive payloads (their rounding band is "
             "relative to |operands|); handler (family 3b: 75 call forms of product / moment / selection handlers per shape and class). "
             "Unit scales xa, xb, xc, xd, xs are symbols > 0; in the view family xa and xb are exactly equal or more than 1e-3 apart",
    "thorough": "the same with extents 0..3 (85 shapes, payloads up to 27 symbols) and coercion lists of 1..4 quantities, 3 arrays, (1,2) arrays; "
                "cancel family: on the 40 shapes of the quick bound plus (3,), (1,3), (3,1), (3,3) only, with 7 more pairs (m/km, km*xs/m, km*1/km, "
                "(km/hr)*min [1/60], (km/hr)/(m/s) [1/3.6], (km/m)/(hr/min), km/km) and a 0-d quantity partner for every pair; coerce-ident: the full "
                "product 13 sites x 20 identities, element shapes (2,) and (1,2) on a subset",
}
# every case is also run pinned through the shimmed library and on plain unyt with float64 data (shim conformance): the class facts
# rest on object-dtype payloads taking the branches float payloads take
CONFORM = {"quick": 100000, "thorough": 100000}
OUTSIDE = ("IEEE rounding/overflow (A1); integer/complex payloads (C17; the constructor is run on int64 / float32 buffers of numerals for the "
           "memory relation only); constructor calls with dtype= naming ANOTHER dtype than the data has (a cast: NumPy defines it as a copy, "
           "the property's view clause does not apply) and, in symbolic runs, any dtype but the object dtype of the solver-term payload "
           "(dtype=float64 on float64 data is what the replay and the conformance runs execute); the optional constructor arguments passed "
           "positionally (they are passed by keyword; Python binds both to the same parameters); the class of size-0 results and of size-1 results of rank >= 1 (the "
           "property constrains only shape () and size > 1; their shape and units are still compared); results that carry no unit "
           "(comparisons: only their shape is compared; trigonometric/exp/log ufuncs and np.frexp, which has no object loop, are not run); "
           "numpy.flatiter / nditer / tolist / item (NumPy returns bare scalars by design); non-contiguous parents for reshape (NumPy itself "
           "copies there); out= forms and the in-place operators (C01/C04; this includes the out= half of the coefficient exit); cancelling "
           "unit factors with SYMBOLIC scales (unyt cancels them inside a sympy expression, which cannot hold a solver term: those atoms "
           "are table units km, m, cm, hr, min, s, erg, N; only the bystander xs and the pair xa/xa have symbolic scales there), unit pairs "
           "from different registries (the SymbolNotFoundError fallback of _multiply_units/_divide_units); x == 0 in the cancel family "
           "(x is also a divisor there); values of the flooring family on cancelling pairs (C04; class, shape and arity are checked); "
           "values returned by the function handlers np.dot/inner/vdot/tensordot on cancelling pairs (C06; class and shape are checked); "
           "to_value() of a one-element quantity of rank >= 1 (float() of a rank-1 array raises "
           "TypeError in NumPy 2); calls that fail for every operand class for reasons unrelated to the class decision and were left out "
           "of the catalogue: np.multiply.accumulate (TypeError), prod/multiply.reduce over a tuple of axes (TypeError in "
           "_apply_power_mapping), and calls that silently drop the unit (x.trace(), np.diag, np.copy without subok, np.broadcast_to: C07); "
           "coerced sequences: registry= naming ANOTHER registry than the first element's (unyt re-reads the spelling there: a relabel by design, as "
           "for unyt input), a first element without units, np.divide with a sequence (same-dimension symbolic scales would cancel inside sympy); "
           "handlers left out of family 3b because the solver-term payload cannot run them or the float path bypasses the ufunc the object path takes: "
           "np.std / x.std / x.var, np.interp, x.real / np.real / x.conj(), percentile / quantile, FFT / LAPACK handlers; np.apply_over_axes (raises "
           "AxisError in unyt for every rank >= 2 input, unrelated to the class decision: C06); np.round / x.round() on a 0-d unyt_array (drops the unit: C07); "
           "empty payloads are float64 arrays in every mode (they have no element to be symbolic; NumPy's object-dtype reductions return "
           "the int 0 for them)")

NAMES = ["xa", "xb", "xc", "xd", "xs"]
PNAME = "pname"


# ------------------------------------------------------------------------------------------------ shapes / operands

def shapes_of(tier):
    E = 2 if tier == "quick" else 3
    out = [()]
    for r in (1, 2, 3):
        out += list(itertools.product(range(E + 1), repeat=r))
    return out


def sid(shape):
    return "x".join(map(str, shape)) if shape else "0d"


def size_of(shape):
    n = 1
    for e in shape:
        n *= e
    return n


def classes_for(shape):
    return ["A", "Q"] if size_of(shape) == 1 else ["A"]


def placeholder(shape, start=1.0):
    n = size_of(shape)
    return (np.arange(n, dtype=float) * 0.5 + start).reshape(shape)


class Env:
    pass


class Chain:
    """strictly increasing payloads BY CONSTRUCTION (x0 = free, x_{k+1} = x_k + d_k, d_k > 0): order-sensitive operations then
    decide every comparison of two payload elements from the path condition instead of forking 3**n ways"""

    def __init__(self, ctx):
        self.ctx = ctx
        self.cur = ctx.real("chain_0")
        self.n = 0

    def array(self, shape):
        a = np.empty(shape, dtype=object if self.ctx.symbolic and size_of(shape) else float)
        for idx in np.ndindex(*shape):
            self.n += 1
            self.cur = self.cur + self.ctx.real(f"chain_d{self.n}", pos=True)
            a[idx] = self.cur
        return a


def setup(ctx, shape, cls, second_unit=False, chain=None, nonzero=False):
    """registry with harness units of symbolic scale, the operand under test x and its bookkeeping"""
    unyt = ctx.mods["unyt"]
    D = unyt.dimensions
    E = Env()
    E.ctx, E.unyt, E.UA, E.UQ = ctx, unyt, unyt.unyt_array, unyt.unyt_quantity
    E.reg = reg = ctx.registry([])
    E.sa = ctx.real("xa_s", pos=True)
    ctx.add_row(reg, "xa", D.length, E.sa, 0.0, prefixable=True)
    E.ss = ctx.real("xs_s", pos=True)
    ctx.add_row(reg, "xs", D.time, E.ss, 0.0)
    if second_unit:
        E.sb = ctx.real("xb_s", pos=True)
        ctx.add_row(reg, "xb", D.length, E.sb, 0.0)
        E.ub = unyt.Unit("xb", registry=reg)
    E.ua = unyt.Unit("xa", registry=reg)
    E.us = unyt.Unit("xs", registry=reg)
    E.shape, E.cls = shape, cls
    E.chain = chain
    E.p = chain.array(shape) if chain else reals(ctx, "x", shape, nonzero=nonzero)
    E.orig = list(elements(E.p))
    E.x = make(E, E.p, cls, E.ua, PNAME)
    E.me = cls + sid(shape)
    E.acc = {}
    return E


def make(E, data, cls, unit, name=None):
    """the constructor call an ordinary user makes; for ndarray input this is a view of `data`"""
    if cls == "A":
        return E.UA(data, unit, name=name)
    return E.UQ(data, unit, name=name)


def reals(ctx, name, shape, pos=False, nonzero=False):
    """payload symbols; an EMPTY payload has no element to be symbolic and is a float64 array in every mode (NumPy's object-dtype
    reductions return the Python int 0 for an empty operand where the float loops return float64(0.0))"""
    if size_of(shape) == 0:
        return np.empty(shape, dtype=float)
    return ctx.reals(name, shape, pos=pos, nonzero=nonzero)


def fresh(E, name, shape, pos=False):
    if E.chain is not None:
        return E.chain.array(shape)
    return reals(E.ctx, name, shape, pos=pos)


# ------------------------------------------------------------------------------------------------ the class obligations

def is_0d_array(E, a):
    return type(a) is E.UA and a.shape == ()


def kind_of(E, a):
    """operand kind as it matters to the class decision"""
    if isinstance(a, E.UQ):
        return "quantity"
    if isinstance(a, E.UA):
        return "0-d unyt_array" if a.shape == () else "unyt_array"
    if isinstance(a, np.ndarray):
        return "ndarray"
    if isinstance(a, (list, tuple)):
        return "list"
    return "scalar"


def record(E, key, ok, detail, value=False):
    """key = '<site>/<rule>'; ok: python bool (class/shape fact of this path) or a symbolic condition (value-level, for the solver).
    value=True: a value-level statement - it is one obligation under the label `key` in every mode (a python bool in replay mode),
    so that a model found by the solver is replayed under the same label"""
    fails, conds = E.acc.setdefault(key, ([], []))
    if value:
        conds.append(ok)
    elif isinstance(ok, (bool, np.bool_)):
        if not ok:
            fails.append(detail)
    else:
        conds.append(ok)


def _plain(s):
    """labels are matched with fnmatch patterns in known_findings.json: keep its special characters out of them"""
    return s.replace("[", "(").replace("]", ")").replace("*", "\u00b7").replace("?", "")


def flush(E):
    """one obligation per (site, rule) that holds; the sites that break a rule are reported as ONE obligation per rule whose
    label lists exactly those sites - the fingerprint of a finding is therefore the exact set of offending operations of the
    case, and any change of that set (a new offender, or one repaired) is a different, unlisted label"""
    broken = {}
    for key, (fails, conds) in E.acc.items():
        site, rule = key.rsplit("/", 1)
        if fails:
            broken.setdefault(rule, []).append((site, fails))
            if conds:
                E.ctx.require(_plain(key), And(*conds))
        else:
            E.ctx.require(_plain(key), And(*conds, True))
    grouped = {}
    for rule, items in broken.items():
        for site, fs in items:  # sites named '<group>:<op>' are reported per group (one decision site of unyt each)
            grouped.setdefault((rule, site.split(":")[0] if ":" in site else ""), []).append((site, fs))
    for (rule, _), items in grouped.items():
        sites = sorted(set(site for site, _ in items))
        detail = "; ".join(f for _, fs in items for f in fs)
        E.ctx.require(_plain(f"{rule} {{{', '.join(sites)}}}"), False, failing=detail[:600], n=sum(len(fs) for _, fs in items))
    E.acc = {}


def check_class(E, site, what, r, exp=None, unitful=True):
    """the property's class rule on one result; exp = bare NumPy's result for the same call on float placeholders"""
    UA, UQ = E.UA, E.UQ
    if isinstance(r, (tuple, list)):
        if exp is not None:
            record(E, f"{site}/arity as bare NumPy", isinstance(exp, (tuple, list)) and len(exp) == len(r), what)
        for i, ri in enumerate(r):
            check_class(E, site, f"{what}[{i}]", ri, exp[i] if isinstance(exp, (tuple, list)) and i < len(exp) else None, unitful)
        return
    if exp is not None:
        record(E, f"{site}/shape as bare NumPy", tuple(np.shape(r)) == tuple(np.shape(exp)), f"{what}: {np.shape(r)} vs {np.shape(exp)}")
    if not isinstance(r, UA):
        if unitful:
            record(E, f"{site}/carries units", False, f"{what}: {type(r).__name__}")
        return
    if unitful:
        record(E, f"{site}/carries units", True, what)
    if r.shape == ():
        record(E, f"{site}/shape () is unyt_quantity", isinstance(r, UQ), f"{what}: {type(r).__name__}")
    if r.size > 1:
        record(E, f"{site}/size>1 is unyt_array, not unyt_quantity", not isinstance(r, UQ), f"{what}: {type(r).__name__}{r.shape}")


def run_op(E, site, what, f, args, ref_args, unitful=True, ref=None, observe=True):
    """run f on the unyt operands and (for the expected shape) on bare float placeholders of the same shapes"""
    ctx = E.ctx
    rr = call(ref or f, *ref_args)
    if rr[0] == "raise":
        return None  # bare NumPy refuses this shape combination: no result to classify
    if len(args) >= 2:
        site = f"{site}({','.join(kind_of(E, a) for a in args)})"
    elif any(is_0d_array(E, a) for a in args):
        site = site + " on 0-d unyt_array"
    ur = call(f, *args)
    if ur[0] == "raise":
        record(E, f"{site}/returns (bare NumPy does)", False, f"{what}: {type(ur[1]).__name__}: {str(ur[1])[:80]}")
        return None
    record(E, f"{site}/returns (bare NumPy does)", True, what)
    check_class(E, site, what, ur[1], rr[1], unitful)
    if observe:
        obs = ur[1] if isinstance(ur[1], (tuple, list)) else [ur[1]]
        ctx.observe(what, [payload(o) for o in obs if isinstance(o, E.UA)])
    return ur[1]


# ------------------------------------------------------------------------------------------------ family 1: ufuncs

class ObjUfunc:
    """np.modf and np.divmod have no object-dtype loop, so NumPy itself refuses a symbolic payload before unyt's tuple branch is
    reached. In symbolic mode they are replaced by this stand-in: equal and hash-equal to the real ufunc (so every `ufunc in (...)`,
    `_ufunc_registry[ufunc]` of unyt answers as for the real one), its call applies SymReal.modf / SymReal.__divmod__ element-wise
    (np.frompyfunc: 0-d inputs give bare scalars, as the float loops do), and NumPy's override dispatch is emulated for the operand
    kinds used here (subclass first, then left to right). unyt's own __array_ufunc__ is executed unchanged."""

    def __init__(self, real, elem):
        self.real = real
        self.py = np.frompyfunc(elem, real.nin, real.nout)

    def __eq__(self, o):
        return o is self.real or o is self

    def __hash__(self):
        return hash(self.real)

    def __getattr__(self, k):
        return getattr(self.real, k)

    def __repr__(self):
        return repr(self.real)

    def __call__(self, *inputs, out=None, **kw):
        conv = [np.asarray(i, dtype=object) if isinstance(i, (list, tuple)) else i for i in inputs]
        return self.py(*conv)

    def dispatch(self, *inputs):
        cands = [i for i in inputs if isinstance(i, np.ndarray) and type(i) is not np.ndarray]
        cands.sort(key=lambda c: -len(type(c).__mro__))  # stable: subclasses first, ties left to right
        for c in cands:
            with as_ufunc_global(self.mods, self):
                r = c.__array_ufunc__(self, "__call__", *inputs)
            if r is not NotImplemented:
                return r
        if not cands:
            return self(*inputs)
        raise TypeError("operand type(s) all returned NotImplemented")


_OBJ_UFUNCS = {}


def ufunc_of(ctx, name):
    """the callable a user writes as np.<name>"""
    real = getattr(np, name)
    if ctx.symbolic and name in ("modf", "divmod"):
        if name not in _OBJ_UFUNCS:
            elem = (lambda a: a.modf()) if name == "modf" else (lambda a, b: divmod(a, b))
            _OBJ_UFUNCS[name] = ObjUfunc(real, elem)
            _OBJ_UFUNCS[name].mods = ctx.mods
        return _OBJ_UFUNCS[name].dispatch
    return real


UNARY = ["negative", "positive", "absolute", "fabs", "conjugate", "square", "floor", "ceil", "trunc", "reciprocal", "modf"]
ADDLIKE = ["add", "subtract", "remainder", "fmod", "divmod"]
MULLIKE = ["multiply", "divide", "floor_divide", "divmod"]
ORDERED = ["maximum", "minimum", "fmax", "less", "greater_equal", "equal", "not_equal"]
REDUCE = ["add", "multiply"]
TUPLE_SITE = "tuple-branch"


def site_of(n):
    return f"{TUPLE_SITE}:{n}" if n in ("modf", "divmod") else n


def partners(E, kind):
    """second operands: (tag, unyt-side object, float placeholder). kind 'same': in the unit of x; 'other': in unit xs or bare"""
    shape = E.shape
    nd = len(shape)
    out = []

    def arr(tag, shp, cls, unit):
        if any(t == cls + sid(shp) for t, _, _ in out):
            return
        y = fresh(E, "y" + tag + kind[0], shp, pos=True)
        out.append((cls + sid(shp), make(E, y, cls, unit), placeholder(shp, 7.0)))

    unit = E.ua if kind == "same" else E.us
    arr("s", shape, "A", unit)
    arr("q", (), "Q", unit)
    arr("z", (), "A", unit)
    ones = (1,) * max(nd, 1)
    if ones != shape:
        arr("o", ones, "A", unit)
        arr("r", ones, "Q", unit)
    if nd == 0 or shape[-1] in (1, 2):
        arr("t", (2,), "A", unit)
    if kind == "other":
        y = fresh(E, "yn", shape, pos=True)
        out.append(("nd" + sid(shape), y, placeholder(shape, 7.0)))
        if nd == 0 or shape[-1] in (1, 2):
            y2 = fresh(E, "ym", (2,), pos=True)
            out.append(("nd2", y2, placeholder((2,), 7.0)))
            out.append(("list2", list(y2), [7.0, 7.5]))
        yf = fresh(E, "yf", (), pos=True)[()]
        out.append(("float", yf, 7.0))
    return out


def make_ufunc_case(shape, cls):
    def h(ctx):
        E = setup(ctx, shape, cls)
        x, px, me = E.x, placeholder(shape), E.me
        for n in UNARY:
            run_op(E, site_of(n), f"{n}({me})", ufunc_of(ctx, n), (x,), (px,), ref=getattr(np, n))
        if size_of(shape) <= 4:
            xp = reals(ctx, "xp", shape, pos=True)
            run_op(E, "sqrt", f"sqrt({me})", np.sqrt, (make(E, xp, cls, E.ua),), (px,))
        # operators (the ndarray dunders end in the same wrap-up; __pos__ and __pow__ are unyt's own)
        run_op(E, "-x", f"-{me}", lambda a: -a, (x,), (px,))
        run_op(E, "+x", f"+{me}", lambda a: +a, (x,), (px,))
        run_op(E, "abs(x)", f"abs({me})", abs, (x,), (px,))
        run_op(E, "x**2", f"{me}**2", lambda a: a ** 2, (x,), (px,))
        run_op(E, "power(x,2)", f"power({me},2)", lambda a: np.power(a, 2), (x,), (px,))
        run_op(E, "x**0", f"{me}**0", lambda a: a ** 0, (x,), (px,))
        for kind, names in (("same", ADDLIKE), ("other", MULLIKE)):
            ps = partners(E, kind)
            for n in names:
                uf = ufunc_of(ctx, n)
                for tag, y, py in ps:
                    run_op(E, site_of(n), f"{n}({me},{tag})", uf, (x, y), (px, py), ref=getattr(np, n))
                    run_op(E, site_of(n), f"{n}({tag},{me})", uf, (y, x), (py, px), ref=getattr(np, n))
            if kind == "other":
                for tag, y, py in ps:
                    run_op(E, "x*y", f"{me}*{tag}", lambda a, b: a * b, (x, y), (px, py))
                    run_op(E, "x*y", f"{tag}*{me}", lambda a, b: b * a, (x, y), (px, py))
                    run_op(E, "x/y", f"{tag}/{me}", lambda a, b: b / a, (x, y), (px, py))
                    if not isinstance(y, list):
                        run_op(E, "multiply.outer", f"multiply.outer({me},{tag})", np.multiply.outer, (x, y), (px, py))
        # reductions / accumulations
        nd = len(shape)
        axes = [None] + list(range(nd)) + ([tuple(range(nd))] if nd > 1 else []) + ([-1] if nd > 1 else [])
        for n in REDUCE:
            uf = getattr(np, n)
            for ax in axes:
                if n == "multiply" and isinstance(ax, tuple):
                    continue  # a.prod(axis=(0,1)) raises TypeError in _apply_power_mapping for every operand: not a class question
                for kd in (False, True):
                    run_op(E, f"{n}.reduce", f"{n}.reduce({me},axis={ax},keepdims={kd})", lambda a: uf.reduce(a, axis=ax, keepdims=kd), (x,), (px,))
        if nd >= 1:
            run_op(E, "add.accumulate", f"add.accumulate({me},axis=0)", lambda a: np.add.accumulate(a, axis=0), (x,), (px,))
            run_op(E, "add.accumulate", f"add.accumulate({me},axis=-1)", lambda a: np.add.accumulate(a, axis=-1), (x,), (px,))
        flush(E)
        # one mixed-unit sum whose SI value the solver decides (kxa = 1000 xa through the real prefix lookup and conversion)
        yk = reals(ctx, "yk", shape)
        r = call(np.add, x, E.UA(yk, "kxa", registry=E.reg))
        ctx.require("add(x, y kxa)/returns", r[0] == "ok", exc=type(r[1]).__name__)
        if r[0] == "ok":
            check_class(E, "add(x, y kxa)", me, r[1], px)
            flush(E)
            got = [v * r[1].units.base_value for v in payload(r[1])]
            ys = elements(yk)
            ctx.require("add(x, y kxa)/SI value", len(got) == len(ys) and And(*[close(g, a * E.sa + b * (E.sa * 1000.0), extra=band(a * E.sa, b * E.sa * 1000.0))
                                                                              for g, a, b in zip(got, E.orig, ys)], True))
    return Case(f"C16/ufunc/{cls}{sid(shape)}", h, bounds="symbolic: payloads, unit scales", weight=2 + size_of(shape), budget_s=900, max_paths=4000)


def make_ordered_case(shape, cls):
    def h(ctx):
        E = setup(ctx, shape, cls, chain=Chain(ctx))
        x, px, me = E.x, placeholder(shape), E.me
        ps = partners(E, "same")
        for n in ORDERED:
            uf = getattr(np, n)
            unitful = n in ("maximum", "minimum", "fmax")
            for tag, y, py in ps:
                run_op(E, n, f"{n}({me},{tag})", uf, (x, y), (px, py), unitful=unitful, observe=unitful)
                run_op(E, n, f"{n}({tag},{me})", uf, (y, x), (py, px), unitful=unitful, observe=unitful)
        nd = len(shape)
        for n in ("maximum", "minimum"):
            uf = getattr(np, n)
            for ax in [None] + list(range(nd)):
                for kd in (False, True):
                    run_op(E, f"{n}.reduce", f"{n}.reduce({me},axis={ax},keepdims={kd})", lambda a: uf.reduce(a, axis=ax, keepdims=kd), (x,), (px,))
        if nd >= 1:
            run_op(E, "maximum.accumulate", f"maximum.accumulate({me})", lambda a: np.maximum.accumulate(a, axis=0), (x,), (px,))
        q0, pq0 = ps[1][1], ps[1][2]
        run_op(E, "np.clip", f"np.clip({me},Q0d,Q0d)", lambda a, lo, hi: np.clip(a, lo, hi), (x, q0, q0), (px, pq0, pq0))
        for name, f in ORDERED_FUNCS:
            run_op(E, name, f"{name}({me})", f, (x,), (px,))
        flush(E)
        # free (unordered) payloads: the explorer walks every ordering of one element against a 0-d partner
        if size_of(shape) == 1:
            xf = make(E, ctx.reals("xf", shape), cls, E.ua)
            yf = make(E, ctx.reals("yf", ()), "Q", E.ua)
            for n in ("maximum", "minimum", "less", "equal"):
                run_op(E, n + " (free payloads)", f"{n}({me},Q0d)", getattr(np, n), (xf, yf), (px, pq0), unitful=n in ("maximum", "minimum"))
            flush(E)
            # commensurable operands in different scales (table units km / m: the conversion branch in front of the same wrap-up),
            # partner a 0-d unyt_array and a quantity, both orders
            xk = make(E, ctx.reals("xk", shape), cls, E.unyt.Unit("km", registry=E.reg))
            ymv = ctx.reals("ym", ())  # one value for both partner classes: the orderings are walked once
            for ptag, pcls in (("A0d", "A"), ("Q0d", "Q")):
                ym = make(E, ymv.copy(), pcls, E.unyt.Unit("m", registry=E.reg))
                for n in ("maximum", "minimum", "fmin", "less"):
                    unitful = n != "less"
                    run_op(E, f"km~m:{n} (free payloads)", f"{n}({me} km,{ptag} m)", getattr(np, n), (xk, ym), (px, pq0), unitful=unitful, observe=unitful)
                    run_op(E, f"km~m:{n} (free payloads)", f"{n}({ptag} m,{me} km)", getattr(np, n), (ym, xk), (pq0, px), unitful=unitful, observe=unitful)
            flush(E)
    return Case(f"C16/ordered/{cls}{sid(shape)}", h, bounds="symbolic: payloads (strictly increasing by construction; free for the last block), unit scales",
                weight=2 + size_of(shape), budget_s=900, max_paths=4000)


ORDERED_FUNCS = [
    ("np.sort", lambda a: np.sort(a)),
    ("np.sort(axis=None)", lambda a: np.sort(a, axis=None)),
    ("np.amax", lambda a: np.amax(a)),
    ("np.amin(axis=0)", lambda a: np.amin(a, axis=0)),
    ("np.ptp", lambda a: np.ptp(a)),
    ("np.median", lambda a: np.median(a)),
    ("x.min()", lambda a: a.min()),
    ("x.max(axis=-1)", lambda a: a.max(axis=-1)),
    ("x.max(keepdims)", lambda a: a.max(keepdims=True)),
    ("builtin min", lambda a: min(a.ravel())),
]


# ------------------------------------------------------------------------------------------------ family 1b: unit pairs that cancel
#
# The wrap-up of a binary ufunc has a SECOND exit: when the unit rule of the product / quotient returns a numeric coefficient
# (`mul != 1`: km * 1/m -> 1000, m**2 / cm -> 100 m) the already classified result is rescaled on the way out, and when the
# simplified unit is a scaled pure number (erg / (N*m)) the raw result is rescaled before it is classified. Both exits are only
# taken for unit pairs that share a dimension factor in different scales, so they are an axis of their own: the UNIT FAMILY of
# the two operands. Same-dimension factors are cancelled by unyt inside a sympy expression, which cannot hold a solver term, so
# the cancelling atoms are table units with concrete scales (the harness has its own table below); payloads stay symbolic and a
# symbolic-scale bystander (xs, time) rides along in two pairs.

# exact definitions, written for this check: SI scale, exponents of (mass, length, time)
CANCEL_ATOMS = {"m": (1.0, (0, 1, 0)), "km": (1000.0, (0, 1, 0)), "cm": (0.01, (0, 1, 0)),
                "s": (1.0, (0, 0, 1)), "min": (60.0, (0, 0, 1)), "hr": (3600.0, (0, 0, 1)),
                "N": (1.0, (1, 1, -2)), "erg": (1e-7, (1, 2, -2)),
                "xa": ("sa", (0, 1, 0)), "xs": ("ss", (0, 0, 1))}

# (text handed to unyt, [(atom, exponent)])
CU = {
    "km": [("km", 1)], "m": [("m", 1)], "cm": [("cm", 1)], "1/m": [("m", -1)], "1/km": [("km", -1)], "cm**2": [("cm", 2)], "m**2": [("m", 2)],
    "km/hr": [("km", 1), ("hr", -1)], "m/s": [("m", 1), ("s", -1)], "min": [("min", 1)], "s": [("s", 1)], "km/m": [("km", 1), ("m", -1)],
    "km*xs": [("km", 1), ("xs", 1)], "erg": [("erg", 1)], "N*m": [("N", 1), ("m", 1)], "xa": [("xa", 1)], "hr/min": [("hr", 1), ("min", -1)],
}

# (unit of x, unit of the partner, what the product / quotient does). "mul": x*y cancels; "div": x/y (and y/x) cancels
CANCEL_PAIRS = [
    ("mul", "km", "1/m", "coefficient 1000, pure number", "quick"),
    ("div", "km", "m", "coefficient 1000, pure number", "quick"),
    ("mul", "m", "1/m", "cancels exactly (coefficient 1)", "quick"),
    ("mul", "cm**2", "1/m", "coefficient 0.01 and a unit left (cm)", "quick"),
    ("mul", "km/m", "s", "operand in a scaled pure number: coefficient 1000 and the partner's unit left", "quick"),
    ("mul", "km*xs", "1/m", "coefficient 1000 next to a symbolic-scale bystander", "quick"),
    ("div", "m", "km", "coefficient 0.001, pure number", "thorough"),   # quick: km~m in the other operand order
    ("div", "m**2", "cm", "coefficient 100 and a unit left (m)", "quick"),
    ("div", "erg", "N*m", "no factor cancels pairwise: scaled pure number, rescaled BEFORE the class decision", "quick"),
    ("div", "km*xs", "m", "coefficient 1000 next to a symbolic-scale bystander", "thorough"),
    ("div", "xa", "xa", "the same symbolic-scale unit: sympy cancels the shared symbol itself", "quick"),
    ("mul", "km", "1/km", "cancels exactly (coefficient 1)", "thorough"),
    ("mul", "km/hr", "min", "inexact coefficient 1/60 and a unit left (km)", "thorough"),
    ("div", "km/hr", "m/s", "two cancelling pairs, inexact coefficient 1/3.6", "thorough"),
    ("div", "km/m", "hr/min", "both operands scaled pure numbers", "thorough"),
    ("div", "km", "km", "the same table unit", "thorough"),
]


def cancel_shapes(tier):
    """the unit-family axis is crossed with the shapes of the quick bound in both tiers (the class decision looks at shape (), size 1,
    size > 1 only; the thorough tier spends its budget on more unit pairs and partners) plus a few shapes with an extent of 3"""
    return set(shapes_of("quick")) | ({(3,), (1, 3), (3, 1), (3, 3)} if tier != "quick" else set())


def cancel_pairs(tier):
    return [p[:4] for p in CANCEL_PAIRS if tier != "quick" or p[4] == "quick"]


COMPOUND_OPERAND_UNITS = ["km/m", "km*xs", "m/s"]   # unary ufuncs / reductions on an operand in a scaled pure number / compound unit
N_MAIN_PAIRS = 2   # these get the full partner set (as the ufunc family); the others the same-shape and 0-d partners


def cu_oracle(E, text):
    """independent scale and dimension of a catalogue unit: (numeric factor, {symbolic scale name: exponent}, exponent vector)"""
    num, syms, vec = 1.0, {}, [0, 0, 0]
    for atom, e in CU[text]:
        a, v = CANCEL_ATOMS[atom]
        if isinstance(a, str):
            syms[a] = syms.get(a, 0) + e
        else:
            num = num * a ** e
        vec = [p + e * q for p, q in zip(vec, v)]
    return num, syms, tuple(vec)


def scaled(E, t, num, syms, den_num=1.0, den_syms=None):
    """t * num * prod(symbolic scales) / (den_num * prod(symbolic scales of the divisor unit)), written the way the statement needs
    no reasoning about x/y * y or 1/(a*b) = 1/a * 1/b: the payload quotient is the same term on both sides, and a divisor unit with
    a symbolic scale enters as the reciprocal of its whole scale"""
    t = t * num
    for name, e in sorted(syms.items()):
        for _ in range(e):
            t = t * getattr(E, name)
    if den_syms:
        d = den_num
        for name, e in sorted(den_syms.items()):
            for _ in range(e):
                d = d * getattr(E, name)
        t = t * (1.0 / d)
    return t


def ratio(a, b, sign):
    """coefficient of a*b (sign=+1) or a/b (sign=-1) for `scaled`; a, b: cu_oracle results with non-negative symbolic exponents"""
    if sign > 0:
        syms = dict(a[1])
        for k, e in b[1].items():
            syms[k] = syms.get(k, 0) + e
        return (a[0] * b[0], syms)
    if not b[1]:
        return (a[0] / b[0], dict(a[1]))
    return (a[0], dict(a[1]), b[0], dict(b[1]))


def dims_of(E, vec):
    D = E.unyt.dimensions
    return D.mass ** vec[0] * D.length ** vec[1] * D.time ** vec[2]


def amap(f, a):
    """element-wise map over an ndarray payload (object or float), same shape and dtype"""
    a = np.asarray(a)
    out = np.empty(a.shape, dtype=a.dtype)
    for idx in np.ndindex(*a.shape):
        out[idx] = f(a[idx])
    return out


def absarr(a):
    return amap(vabs, a)


def si_value(E, site, what, r, want, extra=None, dims=None):
    """value-level statement for the solver: the result denotes, in SI, what bare NumPy computes from the operands' SI magnitudes
    (scales from the harness table) - a coefficient applied twice, not at all, or to the wrong output shows up here for ALL payloads.
    want / extra: callables (evaluated only when there is a unyt result) returning arrays / scalars / flat lists"""
    if not isinstance(r, E.UA):
        return
    if dims is not None:
        record(E, f"{site}/dimension of the result's unit", bool(r.units.dimensions == dims_of(E, dims)), f"{what}: {r.units.dimensions}")
    got = [v * r.units.base_value for v in payload(r)]
    want = list(elements(want()))
    ex = [e * 1e-6 for e in elements(extra())] if extra is not None else [0] * len(want)
    if len(got) != len(want):
        record(E, f"{site}/SI value", False, f"{what}: {len(got)} elements for {len(want)}", value=True)
        return
    record(E, f"{site}/SI value", And(*[close(g, w, extra=e) for g, w, e in zip(got, want, ex)], True), what, value=True)


def cancel_partners(E, unit, k, full, tier="quick"):
    """partners in `unit`: (tag, unyt object, float placeholder, bare payload). Always: the same shape as a unyt_array (and as a
    unyt_quantity where it has one element) and a 0-d unyt_array; full: also a 0-d quantity, all-ones shapes, a 2-vector"""
    shape, nd = E.shape, len(E.shape)
    out = []

    def arr(tag, shp, cls):
        key = cls + sid(shp)
        if any(t == key for t, _, _, _ in out):
            return
        y = fresh(E, f"y{k}{tag}", shp, pos=True)
        out.append((key, make(E, y, cls, unit), placeholder(shp, 7.0), y))

    arr("s", shape, "A")
    arr("z", (), "A")
    if size_of(shape) == 1:
        arr("p", shape, "Q")
    if full or tier != "quick":
        arr("q", (), "Q")
    if full:
        ones = (1,) * max(nd, 1)
        if ones != shape:
            arr("o", ones, "A")
            arr("r", ones, "Q")
        if nd == 0 or shape[-1] in (1, 2):
            arr("t", (2,), "A")
    return out


def contraction_partners(E, unit, k, full):
    """partners for matmul-like contractions of x: a vector over x's last axis (x @ v), one over the axis matmul contracts from the
    left (v @ x), a matrix (x @ M); as unyt_array and, where they have one element, as unyt_quantity"""
    shape, nd = E.shape, len(E.shape)
    if nd == 0:
        return []
    out = []
    forms = [("v", (shape[-1],), "right")]
    if full:
        forms += [("w", (shape[-2] if nd >= 2 else shape[0],), "left"), ("M", (shape[-1], 2), "right")]
    for tag, shp, side in forms:
        for cls in classes_for(shp):
            y = fresh(E, f"y{k}{tag}{cls}", shp, pos=True)
            out.append((f"{cls}{sid(shp)}", make(E, y, cls, unit), placeholder(shp, 7.0), y, side))
    return out


def make_cancel_case(shape, cls, tier):
    def h(ctx):
        E = setup(ctx, shape, cls, nonzero=True)  # x is also a divisor: x == 0 is outside (A1), no path is spent on it
        ctx.no_batch = True  # rational obligations (x/y scaled by a coefficient): one query each is decided at once, their conjunction is not
        px, me = placeholder(shape), E.me
        P = E.p
        units = {}

        def unit(text):
            if text not in units:
                units[text] = E.unyt.Unit(text, registry=E.reg)
            return units[text]

        mul_op = lambda u, v: u * v          # noqa: E731
        div_op = lambda u, v: u / v          # noqa: E731
        ident = lambda a: a                  # noqa: E731
        # the operand's own unit is compound / a scaled pure number: the one-operand wrap-up
        for tx in COMPOUND_OPERAND_UNITS:
            x = make(E, P, cls, unit(tx), PNAME)
            for n in UNARY:
                run_op(E, f"{tx}:{n}", f"{n}({me}) [{tx}]", ufunc_of(ctx, n), (x,), (px,), ref=getattr(np, n))
            run_op(E, f"{tx}:x··2", f"{me}**2 [{tx}]", lambda a: a ** 2, (x,), (px,))
            for n in REDUCE:
                for ax_ in [None] + ([0] if len(shape) else []):
                    run_op(E, f"{tx}:{n}.reduce", f"{n}.reduce({me},axis={ax_}) [{tx}]", lambda a: getattr(np, n).reduce(a, axis=ax_), (x,), (px,))
            flush(E)
        for k, (kind, tx, ty, _) in enumerate(cancel_pairs(tier)):
            full = k < N_MAIN_PAIRS
            pt = f"{tx}~{ty}"
            ox, oy = cu_oracle(E, tx), cu_oracle(E, ty)
            dx, dy = ox[2], oy[2]
            x = make(E, P, cls, unit(tx), PNAME)
            dmul = tuple(a + b for a, b in zip(dx, dy))
            ddiv = tuple(a - b for a, b in zip(dx, dy))
            drdiv = tuple(b - a for a, b in zip(dx, dy))
            cmul, cdiv, crdiv = ratio(ox, oy, +1), ratio(ox, oy, -1), ratio(oy, ox, -1)

            def si(raw, c):
                """SI magnitudes of what bare NumPy computes from the payloads, by the harness' own table"""
                return lambda: [scaled(E, t, *c) for t in elements(raw())]

            def op(name, f, a, b, pa, pb, ref=None, want=None, extra=None, dims=None, observe=True):
                site = f"{pt}:{name}"
                r = run_op(E, site, f"{name}({a[0]},{b[0]}) [{pt}]", f, (a[1], b[1]), (pa, pb), ref=ref, observe=observe)
                if r is not None and want is not None:
                    si_value(E, site, f"{a[0]},{b[0]}", r, want, extra, dims)
                return r

            for tag, y, py, Y in cancel_partners(E, unit(ty), k, full, tier):
                ax, ay = (me, x), (tag, y)
                if kind == "mul":
                    w = si(lambda: np.multiply(P, Y), cmul)
                    op("multiply", np.multiply, ax, ay, px, py, want=w, dims=dmul)
                    op("multiply", np.multiply, ay, ax, py, px, want=w, dims=dmul)
                    op("x*y", mul_op, ax, ay, px, py, want=w, dims=dmul)
                    if full:
                        op("x*y", mul_op, ay, ax, py, px, want=w, dims=dmul)
                        op("multiply.outer", np.multiply.outer, ax, ay, px, py, want=si(lambda: np.multiply.outer(P, Y), cmul), dims=dmul)
                        # the quotient by the reciprocal partner does not cancel (km / (1/m) = km*m): the neighbouring exit
                        op("divide", np.divide, ax, ay, px, py)
                else:
                    w = si(lambda: np.divide(P, Y), cdiv)
                    wr = si(lambda: np.divide(Y, P), crdiv)  # the partner divided by x: the reciprocal coefficient
                    op("divide", np.divide, ax, ay, px, py, want=w, dims=ddiv)
                    op("divide", np.divide, ay, ax, py, px, want=wr, dims=drdiv)
                    op("x/y", div_op, ax, ay, px, py, want=w, dims=ddiv)
                    # flooring family: discontinuous, so class, shape and arity only (values: C04)
                    # (not observed: at an exact multiple the float quotient may land on the other side of the step)
                    # (not next to the symbolic-scale bystander: unyt asks there whether 1000*xs equals 1, one more path for nothing)
                    if not ox[1] and not oy[1]:
                        op("floor_divide", np.floor_divide, ax, ay, px, py, observe=False)
                        op(site_of("divmod"), ufunc_of(ctx, "divmod"), ax, ay, px, py, ref=np.divmod, observe=False)
                    if full:
                        op("x/y", div_op, ay, ax, py, px, want=wr, dims=drdiv)
                        op("divide.outer", np.divide.outer, ax, ay, px, py, want=si(lambda: np.divide.outer(P, Y), cdiv), dims=ddiv)
                        op("floor_divide", np.floor_divide, ay, ax, py, px, observe=False)
                        op(site_of("divmod"), ufunc_of(ctx, "divmod"), ay, ax, py, px, ref=np.divmod, observe=False)
                        op("x//y", lambda u, v: u // v, ax, ay, px, py, observe=False)
                        # the product does not cancel (km * m): the neighbouring exit
                        op("multiply", np.multiply, ax, ay, px, py)
                    # the additive family on commensurable operands in different scales (conversion branch, same wrap-up)
                    if dx == dy and not ox[1] and not oy[1]:
                        X, Ysi = amap(lambda t: t * ox[0], P), amap(lambda t: t * oy[0], Y)
                        bandxy = lambda: absarr(X) + absarr(Ysi)   # noqa: E731
                        op("add", np.add, ax, ay, px, py, want=lambda: np.add(X, Ysi), extra=bandxy, dims=dx)
                        if full:
                            op("subtract", np.subtract, ay, ax, py, px, want=lambda: np.subtract(Ysi, X), extra=bandxy, dims=dx)
                            for n in ("remainder", "fmod"):
                                op(n, getattr(np, n), ax, ay, px, py, observe=False)
                                op(n, getattr(np, n), ay, ax, py, px, observe=False)
            # the partner is a bare Unit object (Unit.__mul__ with data / quantity(1, unit) / x: their own class decisions)
            uy = unit(ty)
            if kind == "mul":
                for name, f in (("x·unit", lambda a: a * uy), ("unit·x", lambda a: uy * a)):
                    r = run_op(E, f"{pt}:{name}", f"{name} on {me} [{pt}]", f, (x,), (px,), ref=ident)
                    si_value(E, f"{pt}:{name}", me, r, si(lambda: P, cmul), dims=dmul)
            else:
                r = run_op(E, f"{pt}:x/unit", f"x/unit on {me} [{pt}]", lambda a: a / uy, (x,), (px,), ref=ident)
                si_value(E, f"{pt}:x/unit", me, r, si(lambda: P, cdiv), dims=ddiv)
                r = run_op(E, f"{pt}:unit/x", f"unit/x on {me} [{pt}]", lambda a: uy / a, (x,), (px,), ref=ident)
                si_value(E, f"{pt}:unit/x", me, r, si(lambda: amap(lambda t: 1.0 / t, P), crdiv), dims=drdiv)
            # contractions: a shape-() or lower-rank result out of array operands
            if kind == "mul":
                for tag, y, py, Y, side in contraction_partners(E, unit(ty), k, full):
                    ax, ay = (me, x), (tag, y)
                    a, b, pa, pb, A, B = (ax, ay, px, py, P, Y) if side == "right" else (ay, ax, py, px, Y, P)
                    w = si(lambda: np.matmul(A, B), cmul)
                    wb = si(lambda: np.matmul(absarr(A), absarr(B)), cmul)
                    op("matmul", np.matmul, a, b, pa, pb, want=w, extra=wb, dims=dmul)
                    if full:
                        op("x@y", lambda u, v: u @ v, a, b, pa, pb, want=w, extra=wb, dims=dmul)
                        # function handlers and the ndarray method: `* units` wrap-up (values: C06)
                        op("np.dot", np.dot, a, b, pa, pb)
                        op("x.dot(y)", lambda u, v: u.dot(v), a, b, pa, pb)
                        op("np.inner", np.inner, a, b, pa, pb)
                        op("np.tensordot(axes=1)", lambda u, v: np.tensordot(u, v, axes=1), a, b, pa, pb)
                # same-shape partner: contraction of the last axis / of everything
                if full:
                    for tag, y, py, Y in cancel_partners(E, unit(ty), f"{k}c", False)[:1]:
                        ax, ay = (me, x), (tag, y)
                        op("vecdot", np.vecdot, ax, ay, px, py, want=si(lambda: np.vecdot(P, Y), cmul),
                           extra=si(lambda: np.vecdot(absarr(P), absarr(Y)), cmul), dims=dmul)
                        op("np.vdot", np.vdot, ax, ay, px, py)
                        op("np.tensordot(all axes)", lambda u, v: np.tensordot(u, v, axes=np.ndim(u)), ax, ay, px, py)
            flush(E)
    return Case(f"C16/cancel/{cls}{sid(shape)}", h, bounds="symbolic: payloads, bystander unit scales (cancelling atoms: table units)",
                weight=4 + 2 * size_of(shape), budget_s=900, max_paths=4000)


# ------------------------------------------------------------------------------------------------ family 2: indexing / iteration

def index_forms(shape):
    """(label, index) for every indexing form of the property on an operand of this shape; invalid ones are filtered at run time
    by bare NumPy raising on the placeholder"""
    nd = len(shape)
    n = size_of(shape)
    F = []
    K = [None]

    class _L(list):
        def __iadd__(self, items):
            for lab, idx in items:
                F.append((K[0], lab, idx))
            return self
    FF = _L()
    K[0] = "ellipsis/newaxis/()"
    FF += [("()", ()), ("...", Ellipsis), ("None", None), ("...,None", (Ellipsis, None)), ("None,...", (None, Ellipsis))]
    K[0] = "integer"
    FF += [("0", 0), ("-1", -1), ("(0,)*nd", (0,) * nd), ("(-1,)*nd", (-1,) * nd), ("0,...", (0, Ellipsis)), ("...,0", (Ellipsis, 0)),
          ("None,0", (None, 0)), ("0,None", (0, None)), ("np.int64(0)", np.int64(0))]
    if nd >= 2:
        FF += [("(0,)*(nd-1)", (0,) * (nd - 1)), ("0,-1", (0, -1)), (":,0", (slice(None), 0))]
    K[0] = "slice"
    FF += [(":", slice(None)), ("0:1", slice(0, 1)), ("1:", slice(1, None)), ("::-1", slice(None, None, -1)), ("::2", slice(None, None, 2)),
          ("0:0", slice(0, 0)), ("...,0:1", (Ellipsis, slice(0, 1))), (":,None", (slice(None), None)), ("0,:", (0, slice(None))),
          ("-1:", slice(-1, None))]
    if nd >= 2:
        FF += [(":,0:1", (slice(None), slice(0, 1))), ("0:1,0:1", (slice(0, 1), slice(0, 1))), ("::-1,::-1", (slice(None, None, -1),) * 2)]
    if nd >= 3:
        FF += [("0,:,0", (0, slice(None), 0)), ("...,None,:", (Ellipsis, None, slice(None)))]
    # boolean masks (concrete patterns; the mask's shape is a discrete axis)
    full_t = np.ones(shape, dtype=bool)
    full_f = np.zeros(shape, dtype=bool)
    alt = (np.arange(n) % 2 == 0).reshape(shape)
    K[0] = "boolean mask"
    FF += [("mask:all", full_t), ("mask:none", full_f), ("mask:alternate", alt), ("True", True), ("False", False), ("np.True_", np.True_)]
    if nd >= 1:
        FF += [("mask:axis0 all", np.ones(shape[0], dtype=bool)), ("mask:axis0 first", np.arange(shape[0]) == 0),
              ("mask:list", [True] * shape[0])]
    if nd >= 2:
        FF += [("mask:axis0,:", (np.ones(shape[0], dtype=bool), slice(None))), (":,mask:axis1", (slice(None), np.arange(shape[1]) == 0))]
    K[0] = "integer array"
    FF += [("[0]", [0]), ("[0,0]", [0, 0]), ("[0,-1]", [0, -1]), ("[-1,0,0]", [-1, 0, 0]), ("array([[0,0]])", np.array([[0, 0]])),
          ("array([],int)", np.array([], dtype=int)), ("array(0)", np.array(0)), ("([0],)", ([0],)), ("[0],None", ([0], None))]
    if nd >= 2:
        FF += [("[0],[0]", ([0], [0])), ("[0,0],[0,0]", ([0, 0], [0, 0])), (":,[0,0]", (slice(None), [0, 0])), ("[0,0],:", ([0, 0], slice(None))),
              ("0,[0,0]", (0, [0, 0])), ("[[0],[0]],[0,0]", ([[0], [0]], [0, 0]))]
    if nd >= 3:
        FF += [("[0],[0],[0]", ([0], [0], [0])), ("[0,0],:,[0,0]", ([0, 0], slice(None), [0, 0])), ("0,0,[0,0]", (0, 0, [0, 0]))]
    return F


def check_child(E, site, what, r, parent_payload_ref, exp):
    """an indexed / iterated element: class rule + the parent's unit object, name and element terms"""
    check_class(E, site, what, r, exp, unitful=True)
    if isinstance(r, E.UA):
        record(E, f"{site}/parent's units", r.units is E.x.units or bool(r.units == E.x.units), f"{what}: {r.units}")
        record(E, f"{site}/parent's name", r.name == PNAME, f"{what}: {r.name!r}")
        record(E, f"{site}/parent's element terms", all_exact(payload(r), elements(parent_payload_ref)), what)


def make_index_case(shape, cls):
    forms = index_forms(shape)

    def h(ctx):
        E = setup(ctx, shape, cls)
        x, px, me = E.x, placeholder(shape), E.me
        p0 = E.p.copy()  # bare payload terms, independent container
        for kind, lab, idx in forms:
            site = f"index:{kind} {lab}"
            rr = call(lambda a: a[idx], px)
            if rr[0] == "raise":
                continue
            if is_0d_array(E, x):
                site += " on 0-d unyt_array"
            ur = call(lambda a: a[idx], x)
            if ur[0] == "raise":
                record(E, f"{site}/returns (bare NumPy does)", False, f"{me}[{lab}]: {type(ur[1]).__name__}: {str(ur[1])[:80]}")
                continue
            record(E, f"{site}/returns (bare NumPy does)", True, lab)
            check_child(E, site, f"{me}[{lab}]", ur[1], p0[idx], rr[1])
            ctx.observe(f"[{lab}]", payload(ur[1]))
        # iteration
        if len(shape) >= 1:
            site = "iteration" + (" on 0-d unyt_array" if is_0d_array(E, x) else "")
            items = list(iter(x))
            record(E, f"{site}/length", len(items) == shape[0], f"{len(items)}")
            for i, it in enumerate(items):
                check_child(E, site, f"iter({me})[{i}]", it, p0[i], px[i])
                if len(shape) >= 2 and i == 0:
                    for j, jt in enumerate(it):
                        check_child(E, site, f"iter(iter({me})[0])[{j}]", jt, p0[0][j], px[0][j])
            if len(shape) == 1 and shape[0] >= 1:
                a, *rest = x  # unpacking
                check_child(E, site, f"unpack({me})[0]", a, p0[0], px[0])
        flush(E)
        # value-dependent boolean mask: the result's shape depends on the payload; the explorer walks the outcomes
        if 1 <= size_of(shape) <= 2:
            t = make(E, ctx.reals("thr", ()), "Q", E.ua)
            site = "index:value-dependent boolean mask" + (" on 0-d unyt_array" if is_0d_array(E, x) else "")
            m = x > t
            r = x[m]
            pm = np.asarray(m, dtype=bool)
            check_child(E, site, f"{me}[{me} > t]", r, p0[pm], px[pm])
            flush(E)
    return Case(f"C16/index/{cls}{sid(shape)}", h, bounds="symbolic: payloads, unit scale, mask threshold", weight=2 + size_of(shape), budget_s=900, max_paths=4000)


# ------------------------------------------------------------------------------------------------ family 3: NumPy functions, methods, unit products

def func_catalogue(E):
    """(site, f(x), ref(p) or None) - a representative set: every handler family that picks the class by ndim (take, einsum) or
    through `* units` (Unit.__mul__: shape == ()), the ndarray methods that bypass the handlers, the conversions, unit products"""
    ctx, nd, shape = E.ctx, len(E.shape), E.shape
    ident = lambda a: a  # noqa: E731
    bare = fresh(E, "b", shape)
    bq = make(E, fresh(E, "bq", ()), "Q", E.us)
    bz = make(E, fresh(E, "bz", ()), "A", E.us)
    F = []

    def add(site, f, ref=None, unitful=True):
        F.append((site, f, ref, unitful))

    add("np.sum", lambda a: np.sum(a))
    add("np.sum(axis=0)", lambda a: np.sum(a, axis=0))
    add("np.sum(axis=-1,keepdims)", lambda a: np.sum(a, axis=-1, keepdims=True))
    add("np.prod", lambda a: np.prod(a))
    add("np.mean", lambda a: np.mean(a))
    add("np.mean(axis=0)", lambda a: np.mean(a, axis=0))
    add("np.cumsum", lambda a: np.cumsum(a))
    add("np.diff", lambda a: np.diff(a))
    add("np.dot(x,x)", lambda a: np.dot(a, a))
    add("np.dot(x,x.T)", lambda a: np.dot(a, a.T))
    add("np.vdot", lambda a: np.vdot(a, a))
    add("np.inner", lambda a: np.inner(a, a))
    add("np.outer", lambda a: np.outer(a, a))
    add("np.tensordot(all axes)", lambda a: np.tensordot(a, a, axes=a.ndim))
    add("np.matmul(x,x.T)", lambda a: np.matmul(a, a.T))
    add("x @ x.T", lambda a: a @ a.T)
    add("np.trace", lambda a: np.trace(a))
    add("np.take(x,0)", lambda a: np.take(a, 0))
    add("np.take(x,[0])", lambda a: np.take(a, [0]))
    add("np.take(x,[0,0])", lambda a: np.take(a, [0, 0]))
    add("np.take(x,0,axis=0)", lambda a: np.take(a, 0, axis=0))
    add("np.einsum('...->')", lambda a: np.einsum("...->", a))
    add("np.einsum('...')", lambda a: np.einsum("...", a))
    add("np.einsum('i,i->')", lambda a: np.einsum("i,i->", a, a))
    add("np.einsum('ij->j')", lambda a: np.einsum("ij->j", a))
    add("np.concatenate", lambda a: np.concatenate([a, a]))
    add("np.stack", lambda a: np.stack([a, a]))
    add("np.hstack", lambda a: np.hstack([a, a]))
    add("np.vstack", lambda a: np.vstack([a, a]))
    add("np.where", lambda a: np.where(np.ones(np.shape(a), dtype=bool), a, a))
    add("to rank 0:" + "np.reshape(x,())", lambda a: np.reshape(a, ()))
    add("np.reshape(x,-1)", lambda a: np.reshape(a, -1))
    add("np.reshape(x,(1,)+shape)", lambda a: np.reshape(a, (1,) + np.shape(a)))
    add("to rank 0:" + "np.squeeze", lambda a: np.squeeze(a))
    add("to rank 0:" + "np.squeeze(axis=0)", lambda a: np.squeeze(a, axis=0))
    add("np.transpose", lambda a: np.transpose(a))
    add("np.ravel", lambda a: np.ravel(a))
    add("np.expand_dims", lambda a: np.expand_dims(a, 0))
    add("np.atleast_1d", lambda a: np.atleast_1d(a))
    add("np.atleast_2d", lambda a: np.atleast_2d(a))
    add("np.tile", lambda a: np.tile(a, 2))
    add("repeat:" + "np.repeat", lambda a: np.repeat(a, 2))
    add("repeat:" + "np.repeat(axis=0)", lambda a: np.repeat(a, 2, axis=0))
    add("np.append", lambda a: np.append(a, a))
    add("np.delete", lambda a: np.delete(a, 0))
    add("np.flip", lambda a: np.flip(a))
    add("np.roll", lambda a: np.roll(a, 1))
    add("np.pad", lambda a: np.pad(a, 1))
    add("np.trapezoid", lambda a: np.trapezoid(a))
    add("np.copy(subok=True)", lambda a: np.copy(a, subok=True))
    add("np.ones_like", lambda a: np.ones_like(a))
    add("np.zeros_like", lambda a: np.zeros_like(a))
    add("np.array(x,subok=True)", lambda a: np.array(a, subok=True))
    add("np.asanyarray", lambda a: np.asanyarray(a))
    add("np.swapaxes", lambda a: np.swapaxes(a, 0, -1))
    add("np.moveaxis", lambda a: np.moveaxis(a, 0, -1))
    add("np.resize", lambda a: np.resize(a, (2,)))
    add("np.broadcast_arrays", lambda a: np.broadcast_arrays(a, a)[0], unitful=False)
    add("np.array_split", lambda a: np.array_split(a, 2))
    # ndarray methods (most bypass the handlers)
    add("x.sum()", lambda a: a.sum())
    add("x.sum(axis=0)", lambda a: a.sum(axis=0))
    add("x.mean()", lambda a: a.mean())
    add("x.prod()", lambda a: a.prod())
    add("x.cumsum()", lambda a: a.cumsum())
    add("to rank 0:" + "x.squeeze()", lambda a: a.squeeze())
    add("to rank 0:" + "x.reshape(())", lambda a: a.reshape(()))
    add("x.reshape(-1)", lambda a: a.reshape(-1))
    add("x.reshape(1,-1)", lambda a: a.reshape(1, -1))
    add("x.reshape((1,)*3)", lambda a: a.reshape((1, 1, 1)))
    add("x.ravel()", lambda a: a.ravel())
    add("x.flatten()", lambda a: a.flatten())
    add("x.T", lambda a: a.T)
    add("x.transpose()", lambda a: a.transpose())
    add("x.swapaxes(0,-1)", lambda a: a.swapaxes(0, -1))
    add("x.dot(x.T)", lambda a: a.dot(a.T))
    add("x.take(0)", lambda a: a.take(0))
    add("x.take([0,0])", lambda a: a.take([0, 0]))
    add("repeat:" + "x.repeat(2)", lambda a: a.repeat(2))
    add("x.diagonal()", lambda a: a.diagonal())
    add("x.view()", lambda a: a.view())
    add("x.copy()", lambda a: a.copy())
    add("copy.copy(x)", lambda a: _copy.copy(a))
    add("copy.deepcopy(x)", lambda a: _copy.deepcopy(a))
    # conversions and unit-only properties (no bare analogue: same shape)
    add("x.to(kxa)", lambda a: a.to("kxa"), ident)
    add("x.in_units(xa)", lambda a: a.in_units("xa"), ident)
    add("x.in_base()", lambda a: a.in_base(), ident)
    add("x.in_cgs()", lambda a: a.in_cgs(), ident)
    add("x.in_mks()", lambda a: a.in_mks(), ident)
    add("x.ua / x.unit_array", lambda a: (a.ua, a.unit_array), lambda p: (p, p))
    add("x.uq / x.unit_quantity", lambda a: (a.uq, a.unit_quantity), lambda p: (np.float64(1), np.float64(1)))
    # products with units and with bare data
    add("ndarray*unit", lambda a: bare * E.ua, ident)
    add("unit*ndarray", lambda a: E.ua * bare, ident)
    add("list*unit", lambda a: bare.tolist() * E.ua, lambda p: np.asarray(p.tolist()))
    add("x*unit", lambda a: a * E.us, ident)
    add("unit*x", lambda a: E.us * a, ident)
    add("x/unit", lambda a: a / E.us, ident)
    add("unit/x", lambda a: E.us / a, ident)
    add("quantity*ndarray", lambda a: bq * bare, ident)
    add("ndarray*quantity", lambda a: bare * bq, ident)
    add("ndarray/quantity", lambda a: bare / bq, ident)
    add("0-d array*ndarray", lambda a: bz * bare, ident)
    add("ndarray*0-d array", lambda a: bare * bz, ident)
    add("quantity*list", lambda a: bq * bare.tolist(), lambda p: np.asarray(p.tolist()))
    return F


def make_func_case(shape, cls):
    def h(ctx):
        E = setup(ctx, shape, cls)
        x, px, me = E.x, placeholder(shape), E.me
        for site, f, ref, unitful in func_catalogue(E):
            run_op(E, site, f"{site} on {me}", f, (x,), (px,), unitful=unitful, ref=ref, observe=False)
        flush(E)
    return Case(f"C16/func/{cls}{sid(shape)}", h, bounds="symbolic: payloads, unit scales", weight=3 + size_of(shape), budget_s=900, max_paths=4000)


# ------------------------------------------------------------------------------------------------ family 3b: the handlers, by what NumPy hands back
#
# A NumPy-function handler gets NumPy's raw result and has to put a class on it. What NumPy hands back for ONE number differs by
# function and by call form: a NumPy scalar (np.dot, np.inner, np.vdot, np.einsum, np.trace, norm, var ...), a 0-d ndarray
# (np.tensordot with every axis contracted, np.kron / np.where / np.choose of 0-d operands, np.interp at a 0-d point ...), or a
# one-element array of rank >= 1 (np.convolve / np.correlate). A handler that decides by isinstance(ndarray), by ndim, by np.isscalar
# or by the class of an operand is right for some of these and wrong for others, so the axis walked here is handler x call form
# (which operand is the unyt object, which a bare ndarray / a quantity; the axes / mode / axis argument in its spellings) for every
# operand shape and class; sites are grouped '<group>:<call>' so that each group is one fingerprint.

def handler_catalogue(E):
    nd, shape = len(E.shape), E.shape
    bare = fresh(E, "hb", shape)
    pb = placeholder(shape, 2.0)
    bq = make(E, fresh(E, "hq", ()), "Q", E.us)
    allax = list(range(nd))
    F = []

    def add(site, f, ref=None, unitful=True):
        F.append((site, f, ref, unitful))

    # products: labelled `numpy result * units` or through a class picked by the handler
    add("product:np.tensordot(x,x,axes=(all,all))", lambda a: np.tensordot(a, a, axes=(allax, allax)))
    add("product:np.tensordot(x,x,axes=(all,reversed))", lambda a: np.tensordot(a, a.T, axes=(allax, allax[::-1])))
    add("product:np.tensordot(x,nd,axes=ndim)", lambda a: np.tensordot(a, bare, axes=nd), lambda p: np.tensordot(p, pb, axes=nd))
    add("product:np.tensordot(nd,x,axes=ndim)", lambda a: np.tensordot(bare, a, axes=nd), lambda p: np.tensordot(pb, p, axes=nd))
    add("product:np.tensordot(x,x,axes=0)", lambda a: np.tensordot(a, a, axes=0))
    add("product:np.tensordot(x,quantity,axes=0)", lambda a: np.tensordot(a, bq, axes=0), lambda p: np.tensordot(p, 2.0, axes=0))
    add("product:np.tensordot(quantity,x,axes=0)", lambda a: np.tensordot(bq, a, axes=0), lambda p: np.tensordot(2.0, p, axes=0))
    add("product:np.tensordot(x,x.T,axes=1)", lambda a: np.tensordot(a, a.T, axes=1))
    add("product:np.linalg.tensordot(x,x,axes=ndim)", lambda a: np.linalg.tensordot(a, a, axes=nd))
    add("product:np.kron(x,x)", lambda a: np.kron(a, a))
    add("product:np.kron(x,quantity)", lambda a: np.kron(a, bq), lambda p: np.kron(p, 2.0))
    add("product:np.kron(quantity,x)", lambda a: np.kron(bq, a), lambda p: np.kron(2.0, p))
    add("product:np.kron(x,nd)", lambda a: np.kron(a, bare), lambda p: np.kron(p, pb))
    add("product:np.outer(x,quantity)", lambda a: np.outer(a, bq), lambda p: np.outer(p, 2.0))
    add("product:np.linalg.outer(x,x)", lambda a: np.linalg.outer(a, a))
    add("product:np.dot(x,nd.T)", lambda a: np.dot(a, bare.T), lambda p: np.dot(p, pb.T))
    add("product:np.dot(nd,x.T)", lambda a: np.dot(bare, a.T), lambda p: np.dot(pb, p.T))
    add("product:np.dot(x,quantity)", lambda a: np.dot(a, bq), lambda p: np.dot(p, 2.0))
    add("product:np.vdot(nd,x)", lambda a: np.vdot(bare, a), lambda p: np.vdot(pb, p))
    add("product:np.vdot(x,nd)", lambda a: np.vdot(a, bare), lambda p: np.vdot(p, pb))
    add("product:np.inner(x,nd)", lambda a: np.inner(a, bare), lambda p: np.inner(p, pb))
    add("product:np.inner(nd,x)", lambda a: np.inner(bare, a), lambda p: np.inner(pb, p))
    add("product:np.inner(x,quantity)", lambda a: np.inner(a, bq), lambda p: np.inner(p, 2.0))
    add("product:np.einsum('...,...->',x,nd)", lambda a: np.einsum("...,...->", a, bare), lambda p: np.einsum("...,...->", p, pb))
    add("product:np.einsum('...,...->',nd,x)", lambda a: np.einsum("...,...->", bare, a), lambda p: np.einsum("...,...->", pb, p))
    add("product:np.einsum('...,...',x,x)", lambda a: np.einsum("...,...", a, a))
    add("product:np.einsum('i...->...')", lambda a: np.einsum("i...->...", a))
    add("product:np.convolve(x,x)", lambda a: np.convolve(a, a))
    add("product:np.convolve(x,x,'valid')", lambda a: np.convolve(a, a, "valid"))
    add("product:np.convolve(x,nd,mode='same')", lambda a: np.convolve(a, bare, mode="same"), lambda p: np.convolve(p, pb, mode="same"))
    add("product:np.convolve(x,quantity)", lambda a: np.convolve(a, bq), lambda p: np.convolve(p, 2.0))
    add("product:np.correlate(x,x)", lambda a: np.correlate(a, a))
    add("product:np.correlate(x,x,'full')", lambda a: np.correlate(a, a, "full"))
    add("product:np.correlate(nd,x)", lambda a: np.correlate(bare, a), lambda p: np.correlate(pb, p))
    add("product:np.cross(x,x)", lambda a: np.cross(a, a))
    add("product:np.linalg.vecdot(x,x)", lambda a: np.linalg.vecdot(a, a))
    add("product:np.linalg.matmul(x,x.T)", lambda a: np.linalg.matmul(a, a.T))
    add("product:np.linalg.trace", lambda a: np.linalg.trace(a))
    add("product:np.trace(offset=1)", lambda a: np.trace(a, offset=1))
    add("product:np.linalg.diagonal", lambda a: np.linalg.diagonal(a))
    add("product:np.trapezoid(x,axis=0)", lambda a: np.trapezoid(a, axis=0))
    add("product:np.trapezoid(x,dx=quantity)", lambda a: np.trapezoid(a, dx=bq), lambda p: np.trapezoid(p, dx=2.0))
    # norms and moments: NumPy hands back a scalar for one number
    add("moment:np.linalg.norm", lambda a: np.linalg.norm(a))
    add("moment:np.linalg.norm(axis=0)", lambda a: np.linalg.norm(a, axis=0))
    add("moment:np.linalg.norm(keepdims)", lambda a: np.linalg.norm(a, keepdims=True))
    add("moment:np.linalg.vector_norm", lambda a: np.linalg.vector_norm(a))
    add("moment:np.var", lambda a: np.var(a))
    add("moment:np.var(axis=0)", lambda a: np.var(a, axis=0))
    add("moment:np.var(keepdims)", lambda a: np.var(a, keepdims=True))
    add("moment:np.average", lambda a: np.average(a))
    add("moment:np.average(axis=0)", lambda a: np.average(a, axis=0))
    add("moment:np.average(weights=nd)", lambda a: np.average(a, weights=pb), lambda p: np.average(p, weights=pb))
    add("moment:np.nansum", lambda a: np.nansum(a))
    # selection / rearrangement handlers: NumPy hands back a 0-d ndarray for 0-d operands
    add("select:np.where(0-d condition,x,x)", lambda a: np.where(np.array(True), a, a))
    add("select:np.where(condition,x,quantity in the same unit)", lambda a: np.where(np.ones(np.shape(a), dtype=bool), a, make(E, fresh(E, "hw", ()), "Q", E.ua)),
        lambda p: np.where(np.ones(np.shape(p), dtype=bool), p, 2.0))
    add("select:np.choose(0,(x,x))", lambda a: np.choose(0, (a, a)))
    add("select:np.choose(index array,(x,x))", lambda a: np.choose(np.zeros(np.shape(a), dtype=int), (a, a)))
    add("select:np.select((mask),(x),default=x)", lambda a: np.select([np.ones(np.shape(a), dtype=bool)], [a], default=a))
    add("select:np.around", lambda a: np.around(a))
    add("select:np.triu", lambda a: np.triu(a))
    add("select:np.tril(k=-1)", lambda a: np.tril(a, k=-1))
    add("select:np.ediff1d", lambda a: np.ediff1d(a))
    add("select:np.diff(axis=0)", lambda a: np.diff(a, axis=0))
    add("select:np.insert(x,0,x)", lambda a: np.insert(a, 0, a))
    add("select:np.dstack", lambda a: np.dstack([a, a]))
    add("select:np.column_stack", lambda a: np.column_stack([a, a]))
    add("select:np.block", lambda a: np.block([a, a]))
    add("select:np.fft.fftshift", lambda a: np.fft.fftshift(a))
    add("select:np.linspace(x,x,3)", lambda a: np.linspace(a, a, 3))
    return F


def make_handler_case(shape, cls):
    def h(ctx):
        E = setup(ctx, shape, cls)
        x, px, me = E.x, placeholder(shape), E.me
        for site, f, ref, unitful in handler_catalogue(E):
            run_op(E, site, f"{site} on {me}", f, (x,), (px,), unitful=unitful, ref=ref, observe=False)
        flush(E)
    return Case(f"C16/handler/{cls}{sid(shape)}", h, bounds="symbolic: payloads, unit scales", weight=3 + size_of(shape), budget_s=900, max_paths=4000)


# ------------------------------------------------------------------------------------------------ family 4: attachment (views / copies)

def positions(shape, limit=4):
    idx = list(np.ndindex(*shape))
    if len(idx) <= limit:
        return idx
    return [idx[0], idx[len(idx) // 2], idx[-1]]


def view_routes(E):
    """(label, route(x) -> view, same route on an integer index array, unyt-typed?)"""
    shape, nd = E.shape, len(E.shape)
    R = []

    def add(lab, f, g=None, typed=True):
        R.append((lab, f, g or f, typed))

    for lab, idx in [(":", slice(None)), ("::-1", slice(None, None, -1)), ("1:", slice(1, None)), ("0:1", slice(0, 1)), ("::2", slice(None, None, 2)),
                     ("-1:", slice(-1, None)), ("...,0:1", (Ellipsis, slice(0, 1))), (":,None", (slice(None), None)), ("0,:", (0, slice(None))),
                     (":,0", (slice(None), 0)), ("::-1,::-1", (slice(None, None, -1),) * 2), ("1:,...,:1", (slice(1, None), Ellipsis, slice(None, 1))),
                     ("...", Ellipsis), ("None", None)]:
        add(f"slice x[{lab}]", (lambda i: lambda a: a[i])(idx))
    add("reshape x.reshape(-1)", lambda a: a.reshape(-1))
    add("reshape np.reshape(x,-1)", lambda a: np.reshape(a, -1))
    add("reshape x.reshape(shape[::-1])", lambda a: a.reshape(np.shape(a)[::-1]))
    add("reshape x.reshape((1,)+shape)", lambda a: a.reshape((1,) + np.shape(a)))
    add("reshape np.reshape(x,())", lambda a: np.reshape(a, ()))
    add("reshape x.ravel()", lambda a: a.ravel())
    add("reshape np.squeeze(x)", lambda a: np.squeeze(a))
    add("reshape np.expand_dims(x,0)", lambda a: np.expand_dims(a, 0))
    add("transpose x.T", lambda a: a.T)
    add("transpose np.transpose(x)", lambda a: np.transpose(a))
    add("transpose x.transpose()", lambda a: a.transpose())
    add("transpose x.swapaxes(0,-1)", lambda a: a.swapaxes(0, -1))
    add("transpose np.moveaxis(x,0,-1)", lambda a: np.moveaxis(a, 0, -1))
    add("x.view()", lambda a: a.view())
    # the same routes with their optional arguments spelled out
    add("x.view(type(x))", lambda a: a.view(type(a)))
    add("reshape x.reshape(-1, order='C')", lambda a: a.reshape(-1, order="C"))
    add("reshape x.reshape(1, -1) (several arguments)", lambda a: a.reshape(1, -1))
    add("reshape x.ravel(order='C')", lambda a: a.ravel(order="C"))
    add("transpose x.transpose(axes reversed)", lambda a: a.transpose(tuple(range(np.ndim(a)))[::-1]))
    add("x.d", lambda a: a.d, lambda i: i, typed=False)
    add("x.ndview", lambda a: a.ndview, lambda i: i, typed=False)
    add("x.ndarray_view()", lambda a: a.ndarray_view(), lambda i: i, typed=False)
    add("constructor unyt_array(x)", lambda a: E.UA(a), lambda i: i)
    return R


def copy_routes(E):
    """(label, route(x) -> independent data, unit scale of the result relative... oracle: (kind, scale) with kind in
    'same' (numbers unchanged), ('si', s) (numbers*s == x*sa), None (not compared))"""
    sa, sb = E.sa, E.sb
    R = [
        ("x.v", lambda a: a.v, "same"),
        ("x.value", lambda a: a.value, "same"),
        ("x.to_ndarray()", lambda a: a.to_ndarray(), "same"),
        ("x.to_value()", lambda a: a.to_value(), "same"),
        ("x.to_value(xb)", lambda a: a.to_value("xb"), ("si", sb)),
        ("x.copy()", lambda a: a.copy(), "same"),
        ("np.copy(x)", lambda a: np.copy(a), "same"),
        ("copy.copy(x)", lambda a: _copy.copy(a), "same"),
        ("copy.deepcopy(x)", lambda a: _copy.deepcopy(a), "same"),
        ("x.to(xb)", lambda a: a.to("xb"), ("si", sb)),
        ("x.to(xa) [same unit]", lambda a: a.to("xa"), "same"),
        ("x.to(x.units) [same unit object]", lambda a: a.to(a.units), "same"),
        ("x.in_units(xb)", lambda a: a.in_units("xb"), ("si", sb)),
        ("x.in_units(xa) [same unit]", lambda a: a.in_units("xa"), "same"),
        ("x.in_base()", lambda a: a.in_base(), ("si", 1.0)),
        ("x.in_cgs()", lambda a: a.in_cgs(), ("si", 0.01)),
        ("x.in_mks()", lambda a: a.in_mks(), ("si", 1.0)),
        ("x.to(kxa)", lambda a: a.to("kxa"), ("si", sa * 1000.0)),
        ("x.to_equivalent(xb, 'spectral') [same dimension]", lambda a: a.to_equivalent("xb", "spectral"), ("si", sb)),
        ("x.in_units(xb, equivalence='spectral')", lambda a: a.in_units("xb", equivalence="spectral"), ("si", sb)),
        ("x.flatten()", lambda a: a.flatten(), "same"),
        # the same accessors with their optional arguments spelled out, naming what the operand already is / has
        ("x.to_value(xa) [own unit]", lambda a: a.to_value("xa"), "same"),
        ("x.to_value(x.units) [own unit object]", lambda a: a.to_value(a.units), "same"),
        ("x.to_value(xb, equivalence=None)", lambda a: a.to_value("xb", equivalence=None), ("si", sb)),
        ("x.to(xa, equivalence=None) [same unit]", lambda a: a.to("xa", equivalence=None), "same"),
        ("x.in_units(x.units) [same unit object]", lambda a: a.in_units(a.units), "same"),
        ("x.copy(order='C')", lambda a: a.copy(order="C"), "same"),
        ("x.copy(order='K')", lambda a: a.copy(order="K"), "same"),
        ("x.astype(own dtype)", lambda a: a.astype(a.dtype), "same"),
        ("np.array(x, dtype=own dtype)", lambda a: np.array(a, dtype=a.dtype), "same"),
        ("x.flatten(order='C')", lambda a: a.flatten(order="C"), "same"),
        ("np.array(x)", lambda a: np.array(a), "same"),
        ("x[integer arrays]", lambda a: a[tuple(np.indices(np.shape(a)))] if np.ndim(a) else NotImplemented, "same"),
        ("x[mask] (boolean index)", lambda a: a[np.ones(np.shape(a), dtype=bool)], "same"),
        ("x*unit", lambda a: a * E.unyt.Unit("dimensionless", registry=E.reg), "same"),
    ]
    return R


def read(x):
    """flat list of the current payload terms of an array/quantity/scalar"""
    return list(payload(x))


def write_at(target, pos, value):
    if np.ndim(target) == 0:
        target[()] = value
    else:
        target[pos] = value


def write_quantity_at(E, target, pos, w, unit):
    """assign a unit-carrying value to one element: array-to-array assignment of a one-element unyt_array (an object-dtype
    buffer would store a 0-d quantity OBJECT under scalar assignment where a float buffer stores its number)"""
    nd = np.ndim(target)
    val = np.empty((1,) * nd, dtype=object if E.ctx.symbolic else float)
    val[(0,) * nd] = w
    q = E.UA(val, unit)
    if nd == 0:
        target[...] = q
    else:
        target[tuple(slice(i, i + 1) for i in pos)] = q


def make_view_case(shape, cls):
    def h(ctx):
        E = setup(ctx, shape, cls, second_unit=True)
        distinct_scales(ctx, E.sa, E.sb)
        x = E.x
        n = size_of(shape)
        I = np.arange(n).reshape(shape)
        expected = list(E.orig)
        k = 0
        for lab, f, g, typed in view_routes(E):
            gi = call(g, I)
            if gi[0] == "raise":
                continue
            vi = call(f, x)
            if vi[0] == "raise":
                ctx.require(f"{lab}/returns (bare NumPy does)", False, exc=type(vi[1]).__name__, msg=str(vi[1])[:100])
                continue
            v, imap = vi[1], np.asarray(gi[1])
            ok_shape = tuple(np.shape(v)) == tuple(imap.shape)
            ctx.require(f"{lab}/shape as bare NumPy", ok_shape, got=np.shape(v), want=imap.shape)
            if not ok_shape or imap.size == 0:
                continue
            ctx.require(f"{lab}/np.shares_memory with the parent", bool(np.shares_memory(v, x)))
            if typed:
                ctx.require(f"{lab}/parent's units", isinstance(v, E.UA) and (v.units is x.units or bool(v.units == x.units)))
            # reads agree before any write
            ctx.require(f"{lab}/reads the parent's elements", all_exact(read(v), [expected[j] for j in imap.ravel()]))
            # write fresh symbols through the view: exactly the corresponding parent elements change
            for pos in positions(imap.shape):
                k += 1
                w = ctx.real(f"w{k}")
                write_at(v, pos, w)
                expected[int(imap[pos])] = w
            ctx.require(f"{lab}/write through: parent element == w, others unchanged", all_exact(read(x), expected))
            ctx.require(f"{lab}/write through: visible in the bare payload the array was built on", all_exact(elements(E.p), expected))
            # write into the parent: the view sees it
            for pos in positions(shape, 2):
                k += 1
                w = ctx.real(f"w{k}")
                write_at(x, pos, w)
                expected[int(I[pos])] = w
            ctx.require(f"{lab}/parent write is visible through the view", all_exact(read(v), [expected[j] for j in imap.ravel()]))
            # unit-carrying write (unyt_array.__setitem__ converts): equal in SI, decided by the solver
            if typed:
                pos = positions(imap.shape)[-1]
                k += 1
                w = ctx.real(f"w{k}")
                write_quantity_at(E, v, pos, w, E.ub)
                j = int(imap[pos])
                now = read(x)
                ctx.require(f"{lab}/unit-carrying write: parent element equals the written quantity in SI",
                            And(close(now[j] * E.sa, w * E.sb), all_exact([t for i, t in enumerate(now) if i != j], [t for i, t in enumerate(expected) if i != j])))
                expected[j] = now[j]
            ctx.observe(lab, read(x))
    return Case(f"C16/view/{cls}{sid(shape)}", h, bounds="symbolic: payloads, written values, both unit scales", weight=3 + size_of(shape), budget_s=900, max_paths=4000)


def make_copy_case(shape, cls):
    def h(ctx):
        E = setup(ctx, shape, cls, second_unit=True)
        x = E.x
        orig = E.orig
        k = 0
        for lab, f, oracle in copy_routes(E):
            if lab.startswith("x.to_value") and cls == "Q" and shape != ():
                continue  # float() of a one-element rank>=1 array: NumPy raises TypeError (not a class or memory question)
            ri = call(f, x)
            if ri[0] == "raise":
                ctx.require(f"{lab}/returns", False, exc=type(ri[1]).__name__, msg=str(ri[1])[:100])
                continue
            r = ri[1]
            if r is NotImplemented:
                continue
            before = read(r)
            ctx.require(f"{lab}/element count", len(before) == len(orig), got=len(before))
            if len(before) != len(orig):
                continue
            if oracle == "same":
                ctx.require(f"{lab}/same numbers", all_exact(before, orig))
            elif oracle is not None:
                s = oracle[1]
                ctx.require(f"{lab}/same SI magnitudes", And(*[close(b * s, a * E.sa) for a, b in zip(orig, before)], True))
            if isinstance(r, np.ndarray):
                ctx.require(f"{lab}/not np.shares_memory with the parent", not bool(np.shares_memory(r, x)))
                # write into the result: no parent term changes
                for pos in positions(np.shape(r)):
                    k += 1
                    write_at(r, pos, ctx.real(f"w{k}"))
                ctx.require(f"{lab}/write into the result leaves every parent element unchanged", And(all_exact(read(x), orig), all_exact(elements(E.p), orig)))
                r2 = f(x)
                after_r = read(r)
                # write into the parent: the result keeps its numbers
                for pos in positions(shape):
                    k += 1
                    write_at(x, pos, ctx.real(f"w{k}"))
                ctx.require(f"{lab}/write into the parent leaves the earlier result unchanged", And(all_exact(read(r), after_r), all_exact(read(r2), before)))
                # restore
                for pos, t in zip(np.ndindex(*shape), orig):
                    write_at(x, pos, t)
            else:
                ctx.require(f"{lab}/immutable scalar result", not isinstance(r, (list, tuple)))
            ctx.observe(lab, before)
        # ndarray * unit, unit * ndarray: a copy of the ndarray; list * unit: fresh data
        prods = (("ndarray*unit", lambda b: b * E.ua), ("unit*ndarray", lambda b: E.ua * b), ("ndarray*quantity", lambda b: b * make(E, ctx.reals("one", ()), "Q", E.ua)))
        for bi, (lab, f) in enumerate(prods):
            b = reals(ctx, f"b{bi}", shape)
            borig = list(elements(b))
            r = f(b)
            ctx.require(f"{lab}/carries units", isinstance(r, E.UA))
            ctx.require(f"{lab}/not np.shares_memory with the ndarray", not bool(np.shares_memory(r, b)))
            before = read(r)
            if lab != "ndarray*quantity":
                ctx.require(f"{lab}/same numbers", all_exact(before, borig))
            for pos in positions(np.shape(r)):
                k += 1
                write_at(r, pos, ctx.real(f"w{k}"))
            ctx.require(f"{lab}/write into the product leaves the ndarray unchanged", all_exact(elements(b), borig))
            r2 = f(b)
            before2 = read(r2)
            for pos in positions(shape):
                k += 1
                write_at(b, pos, ctx.real(f"w{k}"))
            ctx.require(f"{lab}/write into the ndarray leaves the product unchanged", all_exact(read(r2), before2))
    return Case(f"C16/copy/{cls}{sid(shape)}", h, bounds="symbolic: payloads, written values, both unit scales", weight=3 + size_of(shape), budget_s=900, max_paths=4000)


# ------------------------------------------------------------------------------------------------ family 4b: the constructor's call forms
#
# "Building an array from a NumPy array with the constructor is a view" is a statement about unyt_array.__new__ /
# unyt_quantity.__new__, whose signature is (input, units=None, registry=None, dtype=None, *, bypass_validation=False, name=None)
# and which leaves through four exits (bypass_validation; input already a unyt_array; a list of quantities; the general exit).
# Which exit is taken, and what happens to the buffer on the way, depends on WHICH ARGUMENTS ARE GIVEN AND IN WHAT FORM - so the
# argument forms are an axis: class called x kind of input x units form x registry given x dtype form x bypass_validation x name,
# walked as a full product. The dtype forms all name the dtype the data already has (a request for another dtype is a cast, which
# NumPy defines as a copy): in symbolic runs that is the object dtype of the solver-term payload, in the replay float64.

CTOR_KINDS = ["nd", "ndstrided", "ua", "uq", "typed"]
CTOR_DTYPE_FORMS = [("", None),
                    (", dtype=<own dtype object>", lambda b: b.dtype),
                    (", dtype=<own dtype name>", lambda b: b.dtype.name),
                    (", dtype=<own scalar type>", lambda b: b.dtype.type)]
TYPED_DTYPES = ["float64", "float32", "int64"]


def ctor_kinds_for(shape):
    n = size_of(shape)
    out = ["nd", "ua", "typed"]
    if n >= 1 and len(shape) >= 1:
        out.append("ndstrided")
    if n == 1:
        out.append("uq")
    return out


def ctor_unit_forms(S, from_unyt):
    """(text, keyword arguments, (name, dimensions, scale or None) the result must carry, usable with bypass_validation).
    The expectation is the harness' own reading of the documented signature: a units argument names the unit, no units argument
    means dimensionless for bare data and the input's own unit for unyt input; registry= only says where a NAME is looked up"""
    D = S.unyt.dimensions
    xa = ("xa", D.length, S.sa)
    own = xa if from_unyt else ("dimensionless", D.dimensionless, 1.0)
    return [
        ("", {}, own, False),
        (", registry=reg", dict(registry=S.reg), own, False),
        (", 'xa', registry=reg", dict(units="xa", registry=S.reg), xa, False),
        (", 'km'", dict(units="km"), ("km", D.length, 1000.0), False),
        (", Unit", dict(units=S.ua), xa, True),
        (", Unit, registry=<its registry>", dict(units=S.ua, registry=S.reg), xa, True),
        (", Unit of another registry, registry=reg", dict(units=S.ua2, registry=S.reg), ("xa", D.length, None), False),
        (", <another Unit>", dict(units=S.ub), ("xb", D.length, S.sb), True),
    ]


def ctor_forms(S, kind, shape):
    """the full product of the optional arguments: (label, class, keyword-argument builder(b), expected unit, expected name)"""
    from_unyt = kind in ("ua", "uq")
    classes = [("unyt_array", S.UA)] + ([("unyt_quantity", S.UQ)] if size_of(shape) == 1 else [])
    src = {"nd": "nd", "ndstrided": "strided nd", "ua": "unyt_array(nd,Unit)", "uq": "unyt_quantity(nd,Unit)"}[kind]
    out = []
    for cname, cls in classes:
        for utext, ukw, want, bypass_ok in ctor_unit_forms(S, from_unyt):
            for dtext, dt in CTOR_DTYPE_FORMS:
                for bypass in ((False, True) if bypass_ok else (False,)):
                    for name in (None, "n"):
                        lab = f"{cname}({src}{utext}{dtext}{', bypass_validation=True' if bypass else ''}{', name' if name else ''})"

                        def kw(b, ukw=ukw, dt=dt, bypass=bypass, name=name):
                            k = dict(ukw)
                            if dt is not None:
                                k["dtype"] = dt(b)
                            if bypass:
                                k["bypass_validation"] = True
                            if name is not None:
                                k["name"] = name
                            return k
                        out.append((lab, cls, kw, want, name))
    return out


def strided_window(root):
    """a non-contiguous window on a larger buffer: the transposed buffer, every axis walked backwards without its first slot"""
    return root.T[tuple(slice(None, 0, -1) for _ in range(root.ndim))]


def make_ctor_case(shape, kind):
    """unyt_array(ndarray, ...) / unyt_quantity(ndarray, ...) is a view of the ndarray for every form of the optional arguments;
    kind: what is handed over - a bare ndarray, a non-contiguous window on a larger ndarray, a unyt_array / unyt_quantity that was
    itself built on an ndarray (then the result is attached to both), or (typed) float64 / float32 / int64 buffers of numerals"""
    n = size_of(shape)

    def h(ctx):
        unyt = ctx.mods["unyt"]
        D = unyt.dimensions
        S = Env()
        S.unyt, S.UA, S.UQ = unyt, unyt.unyt_array, unyt.unyt_quantity
        S.reg, S.reg2 = ctx.registry([]), ctx.registry([])
        S.sa, S.sb, sa2 = ctx.real("xa_s", pos=True), ctx.real("xb_s", pos=True), ctx.real("xa2_s", pos=True)
        ctx.add_row(S.reg, "xa", D.length, S.sa, 0.0)
        ctx.add_row(S.reg, "xb", D.length, S.sb, 0.0)
        ctx.add_row(S.reg2, "xa", D.length, sa2, 0.0)
        S.ua, S.ub = unyt.Unit("xa", registry=S.reg), unyt.Unit("xb", registry=S.reg)
        S.ua2 = unyt.Unit("xa", registry=S.reg2)

        def buffers():
            """[(tag, root ndarray, the object handed to the constructor, index map of that object into root, intermediate or None,
            the intermediate's unit object)]"""
            if kind == "typed":
                out = []
                for dt in TYPED_DTYPES:
                    root = (np.arange(n) + 1).astype(dt).reshape(shape)
                    out.append((f" on a {dt} buffer of numerals", root, root, np.arange(n).reshape(shape), None, None))
                return out
            if kind == "ndstrided":
                root = reals(ctx, "b", tuple(e + 1 for e in shape[::-1]))
                I = np.arange(root.size).reshape(root.shape)
                return [("", root, strided_window(root), strided_window(I), None, None)]
            root = reals(ctx, "b", shape)
            I = np.arange(n).reshape(shape)
            if kind == "nd":
                return [("", root, root, I, None, None)]
            src = (S.UA if kind == "ua" else S.UQ)(root, S.ua, name="src")
            return [("", root, src, I, src, src.units)]

        k = [0]

        def value():
            k[0] += 1
            return float(70 + k[0] % 50) if kind == "typed" else ctx.real(f"w{k[0]}")

        for tag, root, b, imap, src, src_units in buffers():
            flat = imap.ravel()
            for lab, cls, kw, (uname, udims, uscale), name in ctor_forms(S, "nd" if kind == "typed" else kind, shape):
                lab = lab + tag
                expected = list(elements(root))  # whatever the form before did, this one starts from what the buffer holds now
                ri = call(lambda: cls(b, **kw(b)))
                ctx.require(f"{lab}/returns", ri[0] == "ok", exc=type(ri[1]).__name__, msg=str(ri[1])[:100])
                if ri[0] != "ok":
                    continue
                r = ri[1]
                ctx.require(f"{lab}/exactly the class that was called", type(r) is cls, got=type(r).__name__)
                ctx.require(f"{lab}/shape", tuple(r.shape) == tuple(shape), got=tuple(r.shape))
                ctx.require(f"{lab}/dtype of the data", r.dtype == b.dtype, got=str(r.dtype))
                units = getattr(r, "units", None)
                ctx.require(f"{lab}/unit", And(isinstance(units, unyt.Unit) and str(units) == uname and bool(units.dimensions == udims),
                                                True if uscale is None or not isinstance(units, unyt.Unit) else exact_eq(units.base_value, uscale)),
                            got=str(units))
                if name is not None:
                    ctx.require(f"{lab}/name", r.name == name, got=repr(r.name))
                if src is not None:
                    ctx.require(f"{lab}/the unyt input keeps its class, unit and name",
                                type(src) is (S.UA if kind == "ua" else S.UQ) and src.units is src_units and src.name == "src" and r is not src)
                if n == 0 or tuple(r.shape) != tuple(shape):
                    continue
                ctx.require(f"{lab}/np.shares_memory with the ndarray", bool(np.shares_memory(r, root)) and (src is None or bool(np.shares_memory(r, src))))
                ctx.require(f"{lab}/reads the ndarray's elements", all_exact(read(r), [expected[j] for j in flat]))
                for pos in positions(shape, 3):
                    w = value()
                    write_at(r, pos, w)
                    expected[int(imap[pos])] = w
                ctx.require(f"{lab}/write through the unyt object reaches the ndarray", all_exact(elements(root), expected))
                if src is not None:
                    ctx.require(f"{lab}/write through the unyt object reaches the unyt input", all_exact(read(src), [expected[j] for j in flat]))
                for pos in positions(shape, 2):
                    w = value()
                    write_at(b if src is None else root, pos, w)
                    expected[int(imap[pos])] = w
                ctx.require(f"{lab}/write into the ndarray is visible through the unyt object", all_exact(read(r), [expected[j] for j in flat]))
            ctx.observe("buffer" + tag, list(elements(root)))
    return Case(f"C16/ctor/{kind}/{sid(shape)}", h, bounds="symbolic: payloads, written values, unit scales (typed: numerals, ground facts)",
                weight=3 + size_of(shape), budget_s=900, max_paths=4000)


# ------------------------------------------------------------------------------------------------ family 5: coercion of quantity lists

COERCE_UNITS = ["xa", "xb", "xc", "xd"]


def make_coerce_case(n, form, elem_shape=()):
    def h(ctx):
        unyt = ctx.mods["unyt"]
        D = unyt.dimensions
        reg = ctx.registry([])
        scales = []
        for u in COERCE_UNITS[:max(n, 2)]:
            s = ctx.real(u + "_s", pos=True)
            ctx.add_row(reg, u, D.length, s, 0.0, prefixable=True)
            scales.append(s)
        names = [COERCE_UNITS[i] for i in range(n)]
        if form == "prefixed":  # the second element in k<first unit>
            names = [names[0], "k" + names[0]] + names[2:]
            scales = [scales[0], scales[0] * 1000.0] + scales[2:]
        if form == "equal":
            names = [names[0]] * n
            scales = [scales[0]] * n
        xs, qs = [], []
        for i, u in enumerate(names):
            v = ctx.reals(f"x{i}", elem_shape)
            xs.append(list(elements(v)))
            qs.append(unyt.unyt_quantity(v, u, registry=reg) if elem_shape == () else unyt.unyt_array(v, u, registry=reg))
        seq = tuple(qs) if form == "tuple" else list(qs)
        r = unyt.unyt_array(seq)
        UA, UQ = unyt.unyt_array, unyt.unyt_quantity
        ctx.require("coerce/is unyt_array, not unyt_quantity", isinstance(r, UA) and (not isinstance(r, UQ) or r.size <= 1), got=type(r).__name__)
        ctx.require("coerce/shape", tuple(r.shape) == (n,) + tuple(elem_shape), got=r.shape)
        first = unyt.Unit(names[0], registry=reg)
        ctx.require("coerce/first element's unit", And(str(r.units) == names[0], r.units.dimensions == first.dimensions, exact_eq(r.units.base_value, scales[0])), got=str(r.units))
        got = np.asarray(r.d).reshape(n, -1) if n else np.asarray(r.d)
        ok = []
        for i in range(n):
            for g, xv in zip(list(got[i]), xs[i]):
                ok.append(close(g * scales[0], xv * scales[i]))
        ctx.require("coerce/si(result_i) == si(input_i)", And(*ok, True))
        ctx.require("coerce/inputs untouched", And(*[all_exact(payload(q), xv) for q, xv in zip(qs, xs)], *[str(q.units) == u for q, u in zip(qs, names)], True))
        ctx.observe("coerced", payload(r))
        # independent data: writing into the result leaves the inputs alone
        if r.size:
            r[(0,) * r.ndim] = ctx.real("w")
            ctx.require("coerce/result is fresh data", And(*[all_exact(payload(q), xv) for q, xv in zip(qs, xs)], True))
    tag = f"{form}{n}" + ("" if elem_shape == () else "x" + sid(elem_shape))
    return Case(f"C16/coerce/{tag}", h, bounds="symbolic: values, all unit scales", weight=5 * n, budget_s=900, max_paths=4000)


# ------------------------------------------------------------------------------------------------ family 5b: WHICH unit an element carries
#
# "the same unit" is a statement about the unit (scale, dimension), not about how it is spelled: two elements can be spelled alike and
# be different units - the same symbol defined in two registries (code units of two data sets), the same symbol of one registry
# captured before and after registry.modify(), a compound / SI-prefixed spelling over such a symbol. The identity axis walks these
# against every place that coerces a sequence of quantities (_coerce_iterable_units): the constructor (with and without registry=),
# item assignment of a sequence, and a sequence as either operand of a binary operation. Every scale is a solver symbol.

COERCE_IDENT = {
    # tag: (spelling, [home of element i: 'a' registry A, 'b' registry B, 'c' registry C, 'm' registry A after modify(), 'o' other spelling in A])
    "tworeg/ab": ("xa", "ab"), "tworeg/ba": ("xa", "ba"), "tworeg/aab": ("xa", "aab"), "tworeg/aba": ("xa", "aba"),
    "tworeg/abb": ("xa", "abb"), "tworeg/baa": ("xa", "baa"), "threereg/abc": ("xa", "abc"),
    "modified/am": ("xa", "am"), "modified/ma": ("xa", "ma"), "modified/aam": ("xa", "aam"), "modified/amb": ("xa", "amb"),
    "compound/ab": ("xa/xs", "ab"), "compound/aab": ("xa/xs", "aab"), "compound/am": ("xa/xs", "am"),
    "power/ab": ("xa**2", "ab"), "prefixed/ab": ("kxa", "ab"), "prefixed/am": ("kxa", "am"),
    "withother/abo": ("xa", "abo"), "withother/aob": ("xa", "aob"),
    "samereg/aa": ("xa", "aa"),
}
COERCE_SITES = ["ctor", "ctor-tuple", "ctor-registry", "setitem", "setitem-tuple", "add-x-seq", "add-seq-x", "sub-x-seq", "mul-x-seq", "mul-seq-x",
                "setitem-alike", "add-x-seq-alike", "add-seq-x-alike"]  # -alike: the target / partner is SPELLED like the sequence, in a registry of its own
COERCE_QUICK = [  # (site, identity, element shape): every identity through the constructor, every site with the two-registry pairs
    *[("ctor", i, ()) for i in COERCE_IDENT],
    *[(s, i, ()) for s in COERCE_SITES[1:] for i in ("tworeg/ab", "modified/am")],
    *[(s, "tworeg/aba", ()) for s in ("ctor-tuple", "setitem", "add-seq-x", "mul-x-seq")],
    *[(s, "compound/ab", ()) for s in ("setitem", "add-x-seq", "mul-seq-x", "setitem-alike")],
    *[(s, "samereg/aa", ()) for s in ("setitem-alike", "add-x-seq-alike", "add-seq-x-alike", "setitem", "add-x-seq")],
    ("ctor", "tworeg/ab", (2,)), ("ctor", "modified/am", (2,)), ("setitem", "tworeg/ab", (2,)), ("mul-x-seq", "tworeg/ab", (2,)),
    ("ctor", "compound/ab", (2,)),
]


def make_coerce_ident_case(site, ident, elem_shape=()):
    spelling, homes = COERCE_IDENT[ident]
    n = len(homes)

    additive = site.startswith(("add", "sub"))  # their rounding band is relative to |operands|: positive payloads keep |.| from forking

    def h(ctx):
        unyt = ctx.mods["unyt"]
        D = unyt.dimensions
        UA, UQ = unyt.unyt_array, unyt.unyt_quantity
        regs, sc = {}, {}
        for r in sorted(set(homes) - {"m", "o"} | {"a"}):
            regs[r] = ctx.registry([])
            sc[r] = (ctx.real(f"xa_{r}", pos=True), ctx.real(f"xs_{r}", pos=True))
            ctx.add_row(regs[r], "xa", D.length, sc[r][0], 0.0, prefixable=True)
            ctx.add_row(regs[r], "xs", D.time, sc[r][1], 0.0)
        sb = ctx.real("xb_a", pos=True)
        ctx.add_row(regs["a"], "xb", D.length, sb, 0.0)
        sa_new = ctx.real("xa_m", pos=True)

        def scale_of(xa, xs, text):  # the harness' own reading of the spelling
            return {"xa": xa, "xa/xs": xa / xs, "xa**2": xa * xa, "kxa": xa * 1000.0, "xb": sb}[text]

        # the elements are built in order; registry A is modified when the first 'm' element is reached ('a' elements AFTER it
        # keep the unit object they were given before, like a quantity that was created before the edit)
        pre = {}
        for i, hm in enumerate(homes):
            if hm == "a":
                pre[i] = unyt.Unit(spelling, registry=regs["a"])
        qs, xs, scales, texts, modified = [], [], [], [], False
        for i, hm in enumerate(homes):
            v = ctx.reals(f"x{i}", elem_shape, pos=additive)
            xs.append(list(elements(v)))
            if hm == "m" and not modified:
                regs["a"].modify("xa", sa_new)
                modified = True
            text = "xb" if hm == "o" else spelling
            if hm == "a":
                unit, s = pre[i], scale_of(*sc["a"], text)
            elif hm == "m":
                unit, s = unyt.Unit(text, registry=regs["a"]), scale_of(sa_new, sc["a"][1], text)
            elif hm == "o":
                unit, s = unyt.Unit("xb", registry=regs["a"]), sb
            else:
                unit, s = unyt.Unit(text, registry=regs[hm]), scale_of(*sc[hm], text)
            qs.append((UQ if elem_shape == () else UA)(v, unit))
            scales.append(s)
            texts.append(text)
        seq = tuple(qs) if "tuple" in site else list(qs)
        dim_first = {"xa": D.length, "xa/xs": D.length / D.time, "xa**2": D.length ** 2, "kxa": D.length}[spelling]
        full = (n,) + tuple(elem_shape)

        def untouched():
            return And(*[all_exact(payload(q), xv) for q, xv in zip(qs, xs)], *[str(q.units) == t for q, t in zip(qs, texts)],
                       *[close(q.units.base_value, s) for q, s in zip(qs, scales)], True)

        if site.startswith("ctor"):
            kw = dict(registry=qs[0].units.registry) if "registry" in site else {}
            r = UA(seq, **kw)
            ctx.require("coerce/is unyt_array, not unyt_quantity", isinstance(r, UA) and (not isinstance(r, UQ) or r.size <= 1), got=type(r).__name__)
            ctx.require("coerce/shape", tuple(r.shape) == full, got=r.shape)
            ctx.require("coerce/first element's unit", And(str(r.units) == texts[0], bool(r.units.dimensions == dim_first),
                                                           close(r.units.base_value, scales[0])), got=str(r.units))
            got = np.asarray(r.d).reshape(n, -1)
            ctx.require("coerce/si(result_i) == si(input_i)",
                        And(*[close(g * scales[0], xv * scales[i]) for i in range(n) for g, xv in zip(list(got[i]), xs[i])], True))
            ctx.require("coerce/inputs untouched", untouched())
            ctx.observe("coerced", payload(r))
            r[(0,) * r.ndim] = ctx.real("w")
            ctx.require("coerce/result is fresh data", untouched())
            return
        # the other sites: a target / partner x of the sequence's full shape in the spelling over xb (another scale, registry A)
        xtext, sx = {"xa": ("xb", sb), "kxa": ("xb", sb), "xa/xs": ("xb/xs", sb / sc["a"][1]), "xa**2": ("xb**2", sb * sb)}[spelling]
        xreg = regs["a"]
        if site.endswith("-alike"):
            xreg = ctx.registry([])
            st = (ctx.real("xa_t", pos=True), ctx.real("xs_t", pos=True))
            ctx.add_row(xreg, "xa", D.length, st[0], 0.0, prefixable=True)
            ctx.add_row(xreg, "xs", D.time, st[1], 0.0)
            xtext, sx = spelling, scale_of(*st, spelling)
        px = ctx.reals("t", full, pos=additive)
        x0 = list(elements(px))
        x = UA(px, unyt.Unit(xtext, registry=xreg))
        if site.startswith("setitem"):
            x[:] = seq
            ctx.require("setitem/target keeps class, shape and unit", And(type(x) is UA and tuple(x.shape) == full and str(x.units) == xtext,
                                                                                close(x.units.base_value, sx)), got=f"{type(x).__name__}{x.shape} {x.units}")
            got = np.asarray(x.d).reshape(n, -1)
            ctx.require("setitem/si(target_i) == si(input_i)",
                        And(*[close(g * sx, xv * scales[i]) for i in range(n) for g, xv in zip(list(got[i]), xs[i])], True))
            ctx.require("setitem/inputs untouched", untouched())
            ctx.observe("assigned", payload(x))
            return
        op = {"add-x-seq": lambda: x + seq, "add-seq-x": lambda: np.add(seq, x), "sub-x-seq": lambda: x - seq,
              "mul-x-seq": lambda: x * seq, "mul-seq-x": lambda: np.multiply(seq, x)}[site.replace("-alike", "")]
        r = op()
        ctx.require("binary/is unyt_array of the broadcast shape", isinstance(r, UA) and not isinstance(r, UQ) and tuple(r.shape) == full,
                    got=f"{type(r).__name__}{r.shape}")
        want_dims = dim_first * dim_first if site.startswith("mul") else dim_first
        ctx.require("binary/dimension of the result", bool(r.units.dimensions == want_dims), got=str(r.units.dimensions))
        su = r.units.base_value
        got = np.asarray(r.d).reshape(n, -1)
        xr = np.asarray(x0, dtype=object).reshape(n, -1)
        ok = []
        for i in range(n):
            for j, (g, xv) in enumerate(zip(list(got[i]), xs[i])):
                a, b = xr[i][j] * sx, xv * scales[i]
                if site.startswith("add"):
                    ok.append(close(g * su, a + b, extra=band(a, b)))
                elif site.startswith("sub"):
                    ok.append(close(g * su, a - b, extra=band(a, b)))
                else:
                    ok.append(close(g * su, a * b))
        ctx.require("binary/si(result_i) == si(x_i) op si(input_i)", And(*ok, True))
        ctx.require("binary/operands untouched", And(untouched(), all_exact(payload(x), x0)))
        ctx.observe("result", payload(r))
    tag = "" if elem_shape == () else "x" + sid(elem_shape)
    return Case(f"C16/coerce-ident/{site}/{ident}{tag}", h, bounds="symbolic: values, every unit scale of every registry, the modified scale",
                weight=5 * n, budget_s=900, max_paths=4000)


def coerce_ident_cases(tier):
    if tier == "quick":
        combos = list(COERCE_QUICK)
    else:
        combos = [(s, i, ()) for s in COERCE_SITES for i in COERCE_IDENT]
        combos += [(s, i, (2,)) for s in ("ctor", "setitem", "add-x-seq", "mul-x-seq") for i in ("tworeg/ab", "modified/am", "tworeg/aba", "prefixed/ab")]
        combos += [("ctor", "compound/ab", (2,)), ("ctor", "tworeg/ab", (1, 2))]
    seen, out = set(), []
    for c in combos:
        if c not in seen:
            seen.add(c)
            out.append(make_coerce_ident_case(*c))
    return out


# ------------------------------------------------------------------------------------------------ cases

def cases(tier, mods):
    check_names(mods, NAMES)
    out = []
    for shape in shapes_of(tier):
        for cls in classes_for(shape):
            out.append(make_ufunc_case(shape, cls))
            if shape in cancel_shapes(tier):
                out.append(make_cancel_case(shape, cls, tier))
            out.append(make_ordered_case(shape, cls))
            out.append(make_index_case(shape, cls))
            out.append(make_func_case(shape, cls))
            out.append(make_handler_case(shape, cls))
            if size_of(shape) >= 1:
                out.append(make_view_case(shape, cls))
                out.append(make_copy_case(shape, cls))
        for kind in ctor_kinds_for(shape):
            out.append(make_ctor_case(shape, kind))
    nmax = 3 if tier == "quick" else 4
    for n in range(1, nmax + 1):
        for form in ("list", "tuple"):
            out.append(make_coerce_case(n, form))
        if n >= 2:
            out.append(make_coerce_case(n, "prefixed"))
            out.append(make_coerce_case(n, "equal"))
    out.append(make_coerce_case(2, "list", (2,)))
    out.append(make_coerce_case(2, "prefixed", (2,)))
    out += coerce_ident_cases(tier)
    if tier != "quick":
        out.append(make_coerce_case(3, "list", (2,)))
        out.append(make_coerce_case(2, "list", (1, 2)))
    return out


def coverage_extra(results, tier):
    fam = {}
    for r in results:
        fam[r["group"]] = fam.get(r["group"], 0) + 1
    return dict(cases_per_family=fam, shapes=len(shapes_of(tier)),
                note="class/shape facts are concrete per path (ground checks); the solver decides the value-level obligations "
                     "(write-through, independence, SI equality of unit-carrying writes / conversions / coercion)")
