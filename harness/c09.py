"""C09 - equivalence conversions are mutually inverse, pure, and match their formulas."""
import ast
import contextlib
import io
import itertools
import sys

import numpy as np

from .common import And, Case, Not, Or, all_close, all_exact, call, check_names, close, elements, exact_eq, payload, vabs

LEVEL = "other"
MANIFEST = dict(
    category="other",
    text=("Bounded symbolic execution of the real equivalence code (symx): for each of the 9 built-in equivalences, every ordered "
          "pair (and triple) of member dimensions, every entry point and enumerated table units, z3 proves for ALL real values "
          "in the formula's domain (and all mu, gamma > 0) that the SI result equals the closed-form formula, that "
          "there-and-back is the identity, via-intermediate equals direct, copy forms leave the input untouched, in-place "
          "forms equal copy forms, and uncovered requests raise InvalidUnitEquivalence. Input unit scales are concrete table units; the "
          "target may be a user-defined unit whose scale is a z3 real (all positive scales at once). The same battery is re-proved "
          "after every enumerated history of 1-3 earlier requests in one process state (successful, refused and failing copying / "
          "in-place requests, on the same and on a sibling equivalence), and across equivalences: the same (from, to) pair of dimensions is "
          "requested through an equivalence that covers it and through one that holds `from` but not `to` (pairs read from the equivalences' "
          "own _dims tables), in both orders in one path - the uncovered request must raise on all 8 entry points and leave its operand "
          "untouched, the covered one must give the formula. The dtype axis (all integer widths, float32 and float64 itself; "
          "array and 0-d quantity) runs on real typed buffers with enumerated values: there only the target scale and mu, gamma are "
          "symbolic. The size axis asks whether the amount of data changes the route: symbolic payloads of 1, 2, 3, 5/17 and 2x3 "
          "elements; real float64/float32/int64 buffers of 1025, 2**16+1, 2**20+1 elements and of t, t+1 elements for every integer "
          "constant t in the current source of the anchored modules (enumerated numbers, purity decided on every byte); and every "
          "module-/class-level integer constant the library's code refers to is re-bound to 2, so that its large-input route runs on "
          "the symbolic payloads. The layout axis hands the conversions a VIEW of a larger buffer (every second element, a column, reversed, "
          "transposed, Fortran order, offset tail, a 0-d unyt_array that is not a quantity) or a read-only buffer, both as object buffers of z3 "
          "reals (for all values of the view AND of its neighbours) and as real float64 buffers (symbolic target scale, mu, gamma): copying "
          "forms must leave the whole parent buffer untouched and share no memory with it, in-place forms must rewrite the view's elements "
          "only; the call-form axis passes the target as string / Unit object and every argument positionally / by keyword on all 8 entries. "
          "Real float64 buffers meet every input unit of the cover."),
    design="DESIGN.md section 4 C09",
    technique="symbolic execution of the real Python code over z3 real terms; SMT (QF_NRA, root witnesses) obligations per path; counterexample replay")
EXPLANATION = (
    "The real Equivalence.convert, the nine _convert bodies (with out=None and with out=input, i.e. the aliasing in-place chains), "
    "unyt_array.to/in_units/to_value/to_equivalent/convert_to_units/convert_to_equivalent/convert_to_base/cgs/mks(equivalence=), "
    "Unit.has_equivalent/list_equivalencies run on quantities whose value(s) and keyword parameters mu, gamma are z3 reals "
    "constrained to the formula's domain. Per path z3 decides pc & not(P) for: SI(result) == closed-form formula with constants read "
    "from unyt.physical_constants (roots stated implicitly: y>=0 & y^2 == radicand, sigma*T^4 == F), result unit == requested unit, "
    "all entry points agree, there-and-back == input, via-intermediate == direct, input elements/unit untouched by copy forms, "
    "in-place == copy. Uncovered (from,to) requests must raise InvalidUnitEquivalence on every entry point. "
    "Three further axes: (1) target unit = a user-defined unit of the target dimension whose scale is a z3 real > 0 (copying and "
    "in-place forms; the SI result term is value * scale symbol). (2) call histories: 1, 2 or 3 earlier requests of 16 kinds "
    "(copying / in-place / direct Equivalence(in_place=True).convert, forward and backward, has_equivalent queries; refused: uncovered "
    "target inside convert(), source without the equivalence; failing inside the chain: unexpected keyword, read-only buffer, degC "
    "input) on the same or a sibling equivalence run in ONE path (caches and module state are reset only at path start), then the "
    "whole battery must hold as in a fresh process; refused steps must raise InvalidUnitEquivalence and leave their operand "
    "untouched. (2b) histories ACROSS equivalences: for every ordered pair (E1, E2) of different equivalences and every (from, to) that E1 "
    "covers while E2 holds `from` but not `to` (enumerated at run time from the classes' own _dims tables; the independent table EQ_DIMS must "
    "agree), one path makes the covered request through E1 (copying and in-place entries) and then the request through E2 on all 8 entry "
    "points: each must raise InvalidUnitEquivalence (a returned None or value, or any other exception, fails) and the operand's element "
    "terms, unit object, unit string and shape must be unchanged (copying AND in-place forms); has_equivalent(E2) stays True for the source "
    "and False for the target. Mirrored order: the E2 requests first, then the E1 request must succeed with the closed-form value and the "
    "requested unit (a verdict about a pair of dimensions must not outlive the equivalence it was made for). Values, mu, gamma symbolic. "
    "(3) dtype: the payload is a real NumPy buffer of an integer dtype (8 widths/signs) or float32, as array and as 0-d "
    "quantity, with values over the decades the dtype (and its square / fourth power where the formula has one) holds exactly: the "
    "integer loops of multiply/power/reciprocal and the casts of out= buffers run as in production; copying forms are checked "
    "against the formula for all target scales and all mu, gamma, must leave dtype, bytes and unit of the input untouched; in-place "
    "forms on 8-byte buffers must equal the copying form and the formula (concrete table target, mu = 1.25, gamma = 1.5). "
    "(4) size: which route a conversion takes may depend on how much data it gets (scratch buffers, blockwise loops, in-place short "
    "cuts for large inputs). (a) the symbolic payload also has 3, 2x3 and 17 (non-linear formulas: 5) elements, each its own z3 real; "
    "(b) REAL typed buffers (float64, float32, int64; shapes (n,), (n,1), (2,n/2)) with n = 1025, 2**16+1, 2**20+1 and n = t, t+1 for "
    "every integer-valued constant 16 <= t <= 2**21 that occurs anywhere in the CURRENT source of unyt/array.py, equivalencies.py, "
    "unit_object.py (literals and constant expressions such as 1 << 16, folded from the AST at start-up): a tiling of enumerated "
    "in-domain values, fixed mu/gamma, table target; all copying and in-place entries, there-and-back and via-intermediate are "
    "checked against the formula (first and last tile, and every element equal to its tile position), and purity is decided on "
    "every byte of the input (dtype, shape, bytes, unit object) plus np.shares_memory(result, input) == False; (c) every module-level "
    "or class-level plain integer >= 16 defined in those modules and referred to by name in their code is re-bound to 2 for the "
    "duration of a case (each constant alone and all together; the configuration is part of the case id `C09/lowthr/<names>/...`): "
    "the pair battery on 3 and 2 symbolic elements, the symbolic-target case and the typed float64/int64/float32 cases then run "
    "through the large-input route with all obligations decided by z3 for all values. The unchanged tree defines no such constant, "
    "so (c) contributes no case on it. Every copying entry of every family also proves that its result shares no memory with its input. "
    "(5) layout / aliasing: the operand is sel(parent) for 9 layouts (whole, parent[1::2], parent[::-1], parent[:, 1], parent.T, Fortran-ordered "
    "2x2, parent[1:], parent.reshape(()) [0-d unyt_array], read-only); kind `sym`: parent is an object buffer whose EVERY element (view and "
    "neighbours) is a z3 real in the formula's domain, table target, symbolic mu/gamma; kind `f8`: a real float64 buffer of enumerated non-zero "
    "values (0 is a fixed point of most formulas and would hide a neighbour converted along), first a pass with table target and fixed "
    "keywords, then the copying forms to a target of symbolic scale with symbolic mu/gamma. Obligations per entry: formula, unit, shape of "
    "the result == shape of the view, result shares memory neither with the view nor with the parent, every element of the parent and the "
    "units of view and parent untouched (copying forms); in-place forms: r is the view, numbers == copying form, formula, the parent's other "
    "elements exactly untouched and the parent's unit kept; there-and-back through the view. (6) call form: target as str / as Unit object / "
    "`altkw` (to(u, eq), in_units(u, eq), to_value(u, eq), convert_to_units(u, eq) with the equivalence positional; to_equivalent(unit=, "
    "equivalence=), convert_to_equivalent(unit=, equivalence=), convert(x=, new_dims=) by keyword): the first layout of a layout case meets all "
    "three, the others rotate (thorough: all). (7) the real float64 dtype cases meet every input x target unit of the cover (as int64 does) and the "
    "table-target pass of the dtype cases decides formula and unit for every copying entry with the fixed keywords (mu = 1.25, gamma = 1.5)."
)
BOUNDS = {
    "quick": "9 equivalences x all ordered dimension pairs x a covering subset of input/target table units x 9 entry points; "
             "scalar and 2-element payloads; selected triples of spectral and sound_speed; uncovered-request matrix on one unit per dimension; "
             "symbolic-scale target: every ordered pair x 1 input unit x 8 entry points; histories: every step kind once on the same and "
             "once on a sibling equivalence for all 9 equivalences (probed direction/units rotate), all 256 ordered pairs of step kinds for "
             "thermal and a rotating 1/16 slice of them for the other 8, 98 three-step histories (failing in-place request first) for thermal; "
             "across equivalences: one (from, to) per ordered pair (E1, E2) that has one (25 pairs; every E1 and E2 with a shared dimension), "
             "covered-first with one copying + one in-place E1 entry (rotating) x all 8 E2 entries, refused-first for a third of them and at "
             "least once per E1 and per E2, scalar / 2-element payload alternating, units rotate; "
             "dtype: {int64, float64, int32, uint8, float32, uint64} x every ordered pair (int64: every unit of the cover, others rotate) x "
             "{array of <= 5 values, 0-d quantity} (int64 and float64 both, the others alternate) x 5 copying entries (table target with fixed "
             "keywords, then symbolic-scale target) and there-and-back (+ 3 in-place entries for 8-byte dtypes); "
             "size: symbolic-scale target with one of the shapes (3,), (2,3), (17,) [non-linear: (5,)] per ordered pair; real buffers: float64 x "
             "2**20+1 elements for every ordered pair plus two rotating points of {float64, float32, int64} x {1025, 2**16+1, 2**20+1, t, t+1 "
             "for the integer constants t of the current source (unchanged tree: 16, 128, 2049, 10000)}, shape forms and units rotate; "
             "lowered constants (none on the unchanged tree): per ordered pair the pair battery on 3 symbolic elements and the typed "
             "float64/int64/float32 cases, each constant alone (sharing the pairs) and all together; "
             "layout axis: per ordered pair one f8 case with all 9 layouts (one unit pair of the cover, rotating; first layout x 3 call forms, the "
             "others one call form each) and one sym case with 2 of the 9 layouts (rotating; lorentz: the 2x2 layouts only as f8); float64 dtype "
             "cases on every unit pair of the cover",
    "thorough": "9 equivalences x all ordered dimension pairs x all enumerated input x target table units (3-4 per dimension) x 9 entry "
                "points x scalar and 2-element payloads; all ordered triples of spectral and sound_speed; full uncovered-request matrix; "
                "symbolic-scale target: every ordered pair x every input unit x both shapes; histories: every step kind on same/sibling "
                "equivalence x up to 4 ordered pairs, all 256 ordered pairs of step kinds for thermal and number_density and the 49 pairs of "
                "the 7 core kinds for the other seven, all 343 three-step histories of the core kinds for thermal and 98 for mass_energy, "
                "number_density; across equivalences: every (E1, E2, from, to) x both orders x scalar and 2-element payload x all 8 E1 entries x "
                "all 8 E2 entries (units rotate); dtype: 8 integer dtypes + float32 + float64 x every ordered pair ({int64, float64, int32, uint8, float32}: every unit of "
                "the cover, the other five rotate through it); size: symbolic-scale target x all of (3,), (2,3), (17,) [non-linear: (5,)] per "
                "ordered pair; real buffers: every point of {float64, float32, int64} x {1025, 2**16+1, 2**20+1, t, t+1 for the source's constants} "
                "for every ordered pair (units and shape forms rotate); lowered constants: pair battery on 3 and 2 elements, symbolic-target "
                "case on 3 elements and the typed cases over every unit of the cover, each constant alone and all together; "
                "layout axis: f8 cases with all 9 layouts (first layout x 3 call forms, the others one each) on every unit pair of the cover, sym cases "
                "with all layouts in groups of 3 per ordered pair (linear formulas: every layout x 3 call forms; non-linear: first layout of a group "
                "x 3, the others one each; lorentz: 2x2 layouts only as f8)",
}
OUTSIDE = ("IEEE rounding/overflow (A1: e.g. gamma-1 underflow for v << c); the INPUT unit's scale is a concrete table value "
           "(the _convert bodies cancel same-dimension units through sympy, which cannot hold z3 terms); values outside the formula's domain "
           "(negative temperatures/masses, v >= c, gamma < 1); direct calls of Equivalence.convert with new_dims equal to the input's own "
           "dimensions (not reachable through the public entry points, which short-cut same-dimension requests); dtype axis: the VALUES of "
           "typed buffers are an enumeration over decades (a typed buffer cannot hold a term), integers whose square / fourth power "
           "overflows their dtype, in-place requests on buffers narrower than 8 bytes (they become float32/float16, whose range the "
           "constants exceed; 1-byte buffers have no float of their size), float16, complex, bool, longdouble payloads; histories longer "
           "than 3 earlier requests or mixing more than two equivalences; cross-equivalence histories with more than one covered and one "
           "uncovered kind of request, or whose two requests use different (from, to) pairs; number_density shares no dimension with "
           "another equivalence, so it has no cross-equivalence case; state carried across processes or threads; size axis: payloads of "
           "more than 2**20+1 elements (2**21+1 where the source names such a constant), symbolic payloads of more than 17 elements (an object "
           "array costs about 0.1 ms per element and operation, so the numbers of the large buffers are enumerated, not symbolic: tiled decades, "
           "fixed mu/gamma, table target); size limits the library computes at run time instead of writing them down as an integer "
           "constant are met only if they lie below the top of the ladder; constants kept in containers (dict/tuple values) are not re-bound, "
           "only walked as real sizes; layout axis: views of rank > 2, views with more than 4 elements, overlapping (as_strided) and zero-stride "
           "(broadcast) views, views of integer / float32 buffers, in-place requests on read-only buffers (they raise; not judged), "
           "symbolic 2x2 layouts for lorentz (walked on real float64 buffers only); call forms: equivalence given as anything but its name")
CONFORM = {"quick": 48, "thorough": 96}
ASSUMPTIONS = [
    "C09: input unit scales are the concrete table values (value symbols are written as SI magnitude / scale); the SI magnitude of a result is value * Unit.base_value (minus base_offset for degC/degF targets), read from the Unit object, never through unyt's conversion code; for the user-defined target unit it is value * the scale symbol the harness registered",
    "C09: typed (integer, float32) payloads carry enumerated values; the 1e-6 band of the obligations covers the float64 rounding of the real run (float32 inputs: the rounding of their own 4-byte intermediates, values chosen exactly representable)",
    "C09: size axis: the large typed buffers hold a tiling of <= 5 enumerated values, so the formula is decided on the first and the last tile and every other element is required to equal the element at its tile position (1e-6 band); purity is compared byte by byte with a reference buffer that is never handed to unyt",
    "C09: lowered-constant configurations re-bind plain integer module/class attributes of unyt.array, unyt.equivalencies, unyt.unit_object to 2 inside the case (shimmed library and replay alike); the claim made there is about the library WITH that binding",
    "C09: the constants of the closed-form oracle are read from unyt.physical_constants at run time as value * unit scale",
    "C09: lorentz obligations grant the 1e-6 band either to the value or to its image (forward or backward error): gamma(v) for v -> c and v(gamma) for gamma -> 1 have unbounded condition numbers, so the float rounding of a unit factor (e.g. 0.01 for percent) is amplified without bound in exact arithmetic",
    "C09: an input on an offset temperature scale (degC, degF) may be refused with a unit exception (the formulas are documented for absolute scales); a returned value must be the formula of the absolute temperature",
]

# --------------------------------------------------------------------------- independent tables (written for this check)

# membership of dimensions in each equivalence, and which keyword parameters it takes
EQ_DIMS = {
    "thermal": ["temperature", "energy"],
    "spectral": ["length", "rate", "energy", "spatial_frequency"],
    "mass_energy": ["mass", "energy"],
    "lorentz": ["dimensionless", "velocity"],
    "schwarzschild": ["mass", "length"],
    "compton": ["mass", "length"],
    "number_density": ["density", "number_density"],
    "sound_speed": ["velocity", "temperature", "energy"],
    "effective_temperature": ["flux", "temperature"],
}
EQ_KW = {"number_density": ["mu"], "sound_speed": ["mu", "gamma"]}
# the line each equivalence prints in list_equivalencies (documented in the class docstrings)
EQ_STR = {
    "thermal": "thermal: temperature <-> energy",
    "spectral": "spectral: length <-> spatial_frequency <-> frequency <-> energy",
    "mass_energy": "mass_energy: mass <-> energy",
    "lorentz": "lorentz: velocity <-> dimensionless",
    "schwarzschild": "schwarzschild: mass <-> length",
    "compton": "compton: mass <-> length",
    "number_density": "number density: density <-> number density",
    "sound_speed": "sound_speed (ideal gas): velocity <-> temperature <-> energy",
    "effective_temperature": "effective_temperature: flux <-> temperature",
}

UNITS = {
    "temperature": ["K", "R", "mK"],
    "energy": ["J", "erg", "keV", "Ry"],
    "length": ["m", "cm", "angstrom", "km"],
    "rate": ["Hz", "GHz", "1/s"],
    "spatial_frequency": ["1/cm", "1/m"],
    "mass": ["kg", "g", "Msun", "me"],
    "velocity": ["m/s", "km/s", "c"],
    "flux": ["W/m**2", "erg/s/cm**2"],
    "density": ["g/cm**3", "Msun/pc**3"],
    "number_density": ["cm**-3", "m**-3"],
    "dimensionless": ["dimensionless", "percent"],
}
# dimensions used only as uncovered partners
EXTRA_UNITS = {"time": ["s"], "pressure": ["Pa"], "angle": ["rad"], "power": ["W"]}


def dim_obj(mods, name):
    return getattr(mods["unyt"].dimensions, name)


def consts(mods):
    """SI magnitudes of the library's own constants, read at run time as value * unit scale (no conversion call)"""
    pc = mods["unyt"].physical_constants

    def si(q):
        return float(q.d) * float(q.units.base_value)
    return dict(kb=si(pc.kboltz), c=si(pc.clight), h=si(pc.h_mks), G=si(pc.G), mh=si(pc.mh), sigma=si(pc.stefan_boltzmann_constant_mks))


# --------------------------------------------------------------------------- closed-form oracle (SI in, SI out)

def formula_holds(eq, da, db, X, Y, K, mu, gamma):
    """P(X, Y): Y (SI magnitude, dimension db) is the value the equivalence `eq` assigns to X (SI, dimension da).
    Roots are stated implicitly (y >= 0 and y^2 == radicand), so the oracle needs no root of its own."""
    kb, c, h, G, mh, sg = K["kb"], K["c"], K["h"], K["G"], K["mh"], K["sigma"]
    pair = (da, db)
    if eq == "thermal":
        return close(Y, X * kb) if pair == ("temperature", "energy") else close(Y, X / kb)
    if eq == "mass_energy":
        return close(Y, X * (c * c)) if pair == ("mass", "energy") else close(Y, X / (c * c))
    if eq == "schwarzschild":
        return close(Y, X * (2.0 * G / (c * c))) if pair == ("mass", "length") else close(Y, X * (c * c / (2.0 * G)))
    if eq == "compton":
        return close(Y, (h / c) / X)
    if eq == "number_density":
        return close(Y, X * mu * mh) if pair == ("number_density", "density") else close(Y, X / (mu * mh))
    if eq == "spectral":
        # photon energy of the input, then the requested member
        E = {"energy": lambda: X, "rate": lambda: X * h, "length": lambda: (h * c) / X, "spatial_frequency": lambda: X * (h * c)}[da]()
        want = {"energy": lambda: E, "rate": lambda: E / h, "length": lambda: (h * c) / E, "spatial_frequency": lambda: E / (h * c)}[db]()
        return close(Y, want)
    if eq == "lorentz":
        # gamma(v) is ill-conditioned for v -> c and v(gamma) for gamma -> 1: the band is granted either to the result
        # (forward error) or to the input (backward error) - a rounding of 1e-16 in a unit factor is one or the other
        if pair == ("velocity", "dimensionless"):
            b2 = (X / c) * (X / c)
            return And(Y > 0, Or(close(Y * Y * (1 - b2), 1.0), close(1 - 1 / (Y * Y), b2)))
        b2 = (Y / c) * (Y / c)
        return And(Y >= 0, Or(close(b2, 1 - 1 / (X * X)), close(X * X * (1 - b2), 1.0)))
    if eq == "effective_temperature":
        if pair == ("temperature", "flux"):
            return close(Y, X * X * X * X * sg)
        return And(Y >= 0, close(Y * Y * Y * Y * sg, X))
    if eq == "sound_speed":
        m = mu * mh
        if pair == ("temperature", "energy"):
            return close(Y, X * kb)
        if pair == ("energy", "temperature"):
            return close(Y, X / kb)
        if pair == ("temperature", "velocity"):
            return And(Y >= 0, close(Y * Y, X * kb * gamma / m))
        if pair == ("energy", "velocity"):
            return And(Y >= 0, close(Y * Y, X * gamma / m))
        if pair == ("velocity", "temperature"):
            return close(Y, X * X * m / (gamma * kb))
        if pair == ("velocity", "energy"):
            return close(Y, X * X * m / gamma)
    raise KeyError((eq, pair))


def same_values(eq, da, got, want, s, K):
    """round-trip equality up to the rounding band. For lorentz the band is granted in the value or in its image
    (beta^2 resp. 1/gamma^2): the intermediate carries the rounding of a unit factor, and the way back amplifies it
    without bound for v -> c / gamma -> 1 (condition number, not a defect)."""
    if eq != "lorentz":
        return all_close(got, want)
    c = K["c"]
    out = []
    for g, w in zip(got, want):
        if da == "velocity":
            img = close(1 - (g * s / c) * (g * s / c), 1 - (w * s / c) * (w * s / c))
        else:
            img = And(g > 0, close(1 - 1 / ((g * s) * (g * s)), 1 - 1 / ((w * s) * (w * s))))
        out.append(Or(close(g, w), img))
    return And(*out)


def input_symbols(ctx, eq, da, shape, K, prefix="x"):
    """payload symbols in SI-like natural magnitude, constrained to the formula's domain; returns the SI magnitudes"""
    n = int(np.prod(shape)) if shape else 1
    out = []
    for i in range(n):
        nm = f"{prefix}_{i}"
        if eq == "lorentz" and da == "velocity":
            # 0 <= v < c, written v = c*(1-d), 0 < d <= 1
            d = ctx.real(nm, pos=True, hi=1)
            out.append((1 - d) * K["c"])
        elif eq == "lorentz":
            out.append(ctx.real(nm, lo=1))  # gamma >= 1
        elif eq in ("spectral", "compton"):
            out.append(ctx.real(nm, pos=True))  # reciprocals: lambda, nu, E, m > 0
        else:
            out.append(ctx.real(nm, lo=0))  # T, m, E, R, rho, n, F, cs >= 0
    return out


NONLINEAR = ("lorentz", "sound_speed", "effective_temperature")


def kwargs_for(ctx, eq):
    if eq in NONLINEAR:
        ctx.no_batch = True  # root witnesses: z3 decides each obligation in milliseconds, their conjunction in seconds
    kw = {}
    for k in EQ_KW.get(eq, []):
        kw[k] = ctx.real(k, pos=True)
    return kw


COPY_ENTRIES = ["to", "in_units", "to_equivalent", "to_value", "Equivalence.convert"]
INPLACE_ENTRIES = ["convert_to_units", "convert_to_equivalent", "Equivalence(in_place).convert"]


SPELLS = ("str", "unitobj", "altkw")


def request(ctx, q, ustr, eq, kw, entry, spell="str"):
    """one request through one entry point; returns the object holding the result (None: the entry point returned nothing).
    `spell` is the call form: "str" - target as a string, arguments as the docs write them; "unitobj" - the target is a Unit
    object (of the input's registry); "altkw" - every argument the default form passes by keyword is passed positionally and
    vice versa (to(u, eq), in_units(u, eq), to_value(u, eq), convert_to_units(u, eq); to_equivalent(unit=, equivalence=),
    convert_to_equivalent(unit=, equivalence=))."""
    unyt = ctx.mods["unyt"]
    tgt_arg = unyt.Unit(ustr, registry=q.units.registry) if spell == "unitobj" else ustr
    alt = spell == "altkw"
    if entry == "to":
        return q.to(tgt_arg, eq, **kw) if alt else q.to(tgt_arg, equivalence=eq, **kw)
    if entry == "in_units":
        return q.in_units(tgt_arg, eq, **kw) if alt else q.in_units(tgt_arg, equivalence=eq, **kw)
    if entry == "to_equivalent":
        return q.to_equivalent(unit=tgt_arg, equivalence=eq, **kw) if alt else q.to_equivalent(tgt_arg, eq, **kw)
    if entry == "to_value":
        return q.to_value(tgt_arg, eq, **kw) if alt else q.to_value(tgt_arg, equivalence=eq, **kw)
    if entry == "Equivalence.convert":
        tgt = unyt.Unit(ustr, registry=q.units.registry)
        E = ctx.mods["UE"].equivalence_registry[eq]
        r = E(in_place=False).convert(x=q, new_dims=tgt.dimensions, **kw) if alt else E().convert(q, tgt.dimensions, **kw)
        return None if r is None else r.in_units(tgt)
    if entry == "convert_to_units":
        if alt:
            q.convert_to_units(tgt_arg, eq, **kw)
        else:
            q.convert_to_units(tgt_arg, equivalence=eq, **kw)
        return q
    if entry == "convert_to_equivalent":
        if alt:
            q.convert_to_equivalent(unit=tgt_arg, equivalence=eq, **kw)
        else:
            q.convert_to_equivalent(tgt_arg, eq, **kw)
        return q
    if entry == "Equivalence(in_place).convert":
        tgt = unyt.Unit(ustr, registry=q.units.registry)
        E = ctx.mods["UE"].equivalence_registry[eq]
        r0 = E(True).convert(x=q, new_dims=tgt.dimensions, **kw) if alt else E(in_place=True).convert(q, tgt.dimensions, **kw)
        if r0 is None:
            return None
        # what convert_to_equivalent does: the converted data are in q itself; the returned wrapper must say the same
        same = (np.array_equal(np.asarray(r0.d), np.asarray(q.d)) if np.asarray(q.d).dtype != object else all_exact(payload(r0), payload(q)))
        ctx.require("in-place convert: returned wrapper == mutated input", And(same, r0.units == q.units, str(r0.units) == str(q.units)))
        q.convert_to_units(tgt)
        return q
    raise KeyError(entry)


def run_entry(ctx, q, ustr, eq, kw, entry, spell="str"):
    """one request through one entry point; returns (flat values, result unit or None, the object holding the result)"""
    r = request(ctx, q, ustr, eq, kw, entry, spell)
    if r is None:
        return None, None, None
    if entry == "to_value":
        return elements(r), None, r
    return payload(r), r.units, r


def independent(r, q):
    """the result of a copying form is an object of its own that shares no memory with the input (a later edit of either one
    must not show in the other)"""
    if r is q:
        return False
    if isinstance(r, np.ndarray) and isinstance(q, np.ndarray):
        return not np.shares_memory(np.asarray(r), np.asarray(q))
    return True


def unit_is(ctx, u, ustr):
    """the result carries exactly the requested unit"""
    want = ctx.mods["unyt"].Unit(ustr)
    return And(u == want, u.dimensions == want.dimensions, float(u.base_value) == float(want.base_value), str(u) == str(want),
               u.base_offset == want.base_offset)


def make_quantity(ctx, X, ua, shape):
    """quantity in unit `ua` whose SI magnitudes are X (list); returns (q, element list as stored)"""
    s = float(ctx.mods["unyt"].Unit(ua).base_value)
    k = 1.0 / s
    vals = [x * k for x in X]
    if shape == ():
        arr = vals[0]
        if not ctx.symbolic:
            arr = float(arr)
        q = ctx.quantity(arr, ua)
    else:
        arr = np.empty(shape, dtype=object if ctx.symbolic else float)
        for i, idx in enumerate(np.ndindex(*shape)):
            arr[idx] = vals[i]
        q = ctx.quantity(arr, ua)
    return q, vals, s


def check_listing(ctx, q, dim_name):
    """has_equivalent / list_equivalencies agree with the independent membership table"""
    want = [e for e in EQ_DIMS if dim_name in EQ_DIMS[e]]
    for e in EQ_DIMS:
        ctx.require(f"has_equivalent({e})", q.has_equivalent(e) == (e in want) and q.units.has_equivalent(e) == (e in want))
    buf = io.StringIO()
    with contextlib.redirect_stdout(buf):
        r = q.list_equivalencies()
    lines = [l for l in buf.getvalue().splitlines() if l.strip()]
    ctx.require("list_equivalencies", sorted(lines) == sorted(EQ_STR[e] for e in want), got=lines)


def shape_tag(shape):
    return "shape" + ("x".join(map(str, shape)) or "0")


def pair_battery(ctx, eq, da, db, ua, ub, shape):
    """every obligation of one (equivalence, ordered dimension pair, input unit, target unit, shape) configuration: all copying and
    in-place entry points against the closed form, purity, in-place == copy, there-and-back, same-dimension requests.
    Called on a fresh process state by the pair cases and AFTER a prefix of other calls by the call-history cases."""
    mods = ctx.mods
    K = consts(mods)
    kw = kwargs_for(ctx, eq)
    mu, gamma = kw.get("mu"), kw.get("gamma")
    X = input_symbols(ctx, eq, da, shape, K)
    q, xs, sa = make_quantity(ctx, X, ua, shape)
    sb = float(mods["unyt"].Unit(ub).base_value)
    u_before = q.units
    d_before = q.d
    check_listing(ctx, q, da)
    si_in = [v * sa for v in xs]
    ref = None
    for e in COPY_ENTRIES:
        vals, u, r = run_entry(ctx, q, ub, eq, kw, e)
        ctx.require(f"returns a value/{e}", vals is not None and len(vals) == len(xs))
        if vals is None:
            continue
        ctx.observe(f"{e}", vals)
        ctx.require(f"formula/{e}", And(*[formula_holds(eq, da, db, xi, y * sb, K, mu, gamma) for xi, y in zip(si_in, vals)]), entry=e)
        if u is not None:
            ctx.require(f"unit/{e}", unit_is(ctx, u, ub), got=str(u))
        ctx.require(f"fresh object/{e}", independent(r, q))
        if ref is None:
            ref = vals
        else:
            ctx.require(f"entry points agree/{e}", all_close(vals, ref))
        # purity of the copying form
        ctx.require(f"input untouched/{e}", And(all_exact(payload(q), xs), q.units is u_before, unit_is(ctx, q.units, ua), all_exact(elements(d_before), xs)))
    # in-place forms on copies
    for e in INPLACE_ENTRIES:
        c = q.copy()
        vals, u, r = run_entry(ctx, c, ub, eq, kw, e)
        ctx.require(f"returns a value/{e}", vals is not None and len(vals) == len(xs))
        if vals is None:
            continue
        ctx.observe(f"{e}", vals)
        ctx.require(f"in-place is in place/{e}", r is c)
        ctx.require(f"in-place == copy numbers/{e}", all_close(payload(c), ref), entry=e)
        ctx.require(f"in-place == copy unit/{e}", unit_is(ctx, c.units, ub), got=str(c.units))
        ctx.require(f"formula/{e}", And(*[formula_holds(eq, da, db, xi, y * sb, K, mu, gamma) for xi, y in zip(si_in, payload(c))]), entry=e)
        ctx.require(f"input untouched/{e}", And(all_exact(payload(q), xs), q.units is u_before))
    # there and back
    there = q.to_equivalent(ub, eq, **kw)
    back = there.to_equivalent(ua, eq, **kw)
    ctx.require("there-and-back", And(same_values(eq, da, payload(back), xs, sa, K), unit_is(ctx, back.units, ua)))
    ctx.observe("back", payload(back))
    c = q.copy()
    c.convert_to_equivalent(ub, eq, **kw)
    c.convert_to_equivalent(ua, eq, **kw)
    ctx.require("there-and-back in place", And(same_values(eq, da, payload(c), xs, sa, K), unit_is(ctx, c.units, ua)))
    # same-dimension request with an equivalence named: plain conversion, and the base-system forms
    same = q.to_equivalent(ua, eq, **kw)
    ctx.require("same unit request is the identity", And(all_close(payload(same), xs), unit_is(ctx, same.units, ua), same is not q))
    for fn, tgt in (("convert_to_base", None), ("convert_to_cgs", "cgs"), ("convert_to_mks", "mks")):
        c = q.copy()
        getattr(c, fn)(equivalence=eq, **kw)
        want_u = q.units.get_base_equivalent(tgt) if tgt else q.units.get_base_equivalent()
        sw = float(want_u.base_value)
        ctx.require(f"{fn}(equivalence=) keeps the physical value", And(*[close(y * sw, xi) for xi, y in zip(si_in, payload(c))]))
        ctx.require(f"{fn}(equivalence=) unit", c.units == want_u and c.units.dimensions == u_before.dimensions)
    ctx.require("input untouched", And(all_exact(payload(q), xs), q.units is u_before, unit_is(ctx, q.units, ua)))


def make_pair_case(eq, da, db, ua, ub, shape):
    def h(ctx):
        pair_battery(ctx, eq, da, db, ua, ub, shape)

    return Case(f"C09/{eq}/{da}>{db}/{ua}>{ub}/{shape_tag(shape)}", h, bounds="symbolic: value(s), mu, gamma; concrete table units",
                budget_s=1800 if eq in NONLINEAR else 600, weight=20 if eq == "lorentz" else (5 if eq in NONLINEAR else 1))


def make_triple_case(eq, da, db, dc, ua, ub, uc, shape):
    """via-intermediate equals direct: A -> B -> C against A -> C, copy chain and in-place chain"""
    def h(ctx):
        mods = ctx.mods
        K = consts(mods)
        kw = kwargs_for(ctx, eq)
        mu, gamma = kw.get("mu"), kw.get("gamma")
        X = input_symbols(ctx, eq, da, shape, K)
        q, xs, sa = make_quantity(ctx, X, ua, shape)
        sc = float(mods["unyt"].Unit(uc).base_value)
        u_before = q.units
        si_in = [v * sa for v in xs]
        direct = q.to_equivalent(uc, eq, **kw)
        via = q.to_equivalent(ub, eq, **kw).to_equivalent(uc, eq, **kw)
        ctx.observe("direct", payload(direct))
        ctx.observe("via", payload(via))
        ctx.require("via-intermediate == direct", And(all_close(payload(via), payload(direct)), unit_is(ctx, via.units, uc), unit_is(ctx, direct.units, uc)))
        ctx.require("via-intermediate formula", And(*[formula_holds(eq, da, dc, xi, y * sc, K, mu, gamma) for xi, y in zip(si_in, payload(via))]))
        c = q.copy()
        c.convert_to_equivalent(ub, eq, **kw)
        c.convert_to_equivalent(uc, eq, **kw)
        ctx.require("via-intermediate in place == direct", And(all_close(payload(c), payload(direct)), unit_is(ctx, c.units, uc)))
        c2 = q.copy()
        c2.convert_to_units(ub, equivalence=eq, **kw)
        r2 = c2.to(uc, equivalence=eq, **kw)
        ctx.require("via-intermediate mixed entry points == direct", And(all_close(payload(r2), payload(direct)), unit_is(ctx, r2.units, uc), unit_is(ctx, c2.units, ub)))
        # the whole cycle closes
        cyc = via.to_equivalent(ua, eq, **kw)
        ctx.require("A->B->C->A", And(same_values(eq, da, payload(cyc), xs, sa, K), unit_is(ctx, cyc.units, ua)))
        ctx.require("input untouched", And(all_exact(payload(q), xs), q.units is u_before, unit_is(ctx, q.units, ua)))

    return Case(f"C09/{eq}/{da}>{db}>{dc}/{ua}>{ub}>{uc}/{shape_tag(shape)}", h, bounds="symbolic: value(s), mu, gamma; concrete table units",
                budget_s=1800 if eq in NONLINEAR else 600, weight=5 if eq in NONLINEAR else 1)


def make_default_kw_case(eq, da, db, ua, ub, shape):
    """keyword parameters left out: the documented defaults mu = 0.6, gamma = 5/3"""
    def h(ctx):
        mods = ctx.mods
        K = consts(mods)
        X = input_symbols(ctx, eq, da, shape, K)
        q, xs, sa = make_quantity(ctx, X, ua, shape)
        sb = float(mods["unyt"].Unit(ub).base_value)
        si_in = [v * sa for v in xs]
        for e in COPY_ENTRIES + INPLACE_ENTRIES:
            c = q.copy() if e in INPLACE_ENTRIES else q
            vals, u, r = run_entry(ctx, c, ub, eq, {}, e)
            ctx.require(f"returns a value/{e}", vals is not None and len(vals) == len(xs))
            if vals is None:
                continue
            ctx.observe(e, vals)
            ctx.require(f"formula with default mu, gamma/{e}", And(*[formula_holds(eq, da, db, xi, y * sb, K, 0.6, 5.0 / 3.0) for xi, y in zip(si_in, vals)]), entry=e)
        ctx.require("input untouched", And(all_exact(payload(q), xs), unit_is(ctx, q.units, ua)))

    return Case(f"C09/defaults/{eq}/{da}>{db}/{ua}>{ub}/{shape_tag(shape)}", h, bounds="symbolic: value(s); mu, gamma defaulted")


def make_history_case(eq, da, db, ua, ub, vary):
    """history independence: the same request repeated in one process with other keyword values (and once with the
    defaults) must follow the formula with the keywords of THAT call - nothing may be remembered from an earlier call
    (memoised helper values keyed on too little). Caches are only cleared at path start, so all calls share one history."""
    def h(ctx):
        mods = ctx.mods
        K = consts(mods)
        if eq in NONLINEAR:
            ctx.no_batch = True
        X = input_symbols(ctx, eq, da, (), K)
        sb = float(mods["unyt"].Unit(ub).base_value)
        kws = []
        base = {k: ctx.real(k, pos=True) for k in EQ_KW[eq]}
        kws.append(dict(base))
        second = dict(base)
        second[vary] = ctx.real(vary + "2", pos=True)
        kws.append(second)
        kws.append({})          # documented defaults
        kws.append(dict(base))  # and the first request again
        for i, kw in enumerate(kws):
            q, xs, sa = make_quantity(ctx, X, ua, ())
            for e in ("to", "convert_to_units"):
                vals, u, r = run_entry(ctx, q.copy(), ub, eq, kw, e)
                ctx.require(f"returns a value/call{i}/{e}", vals is not None and len(vals) == 1)
                if vals is None:
                    continue
                ctx.observe(f"call{i}/{e}", vals)
                mu = kw.get("mu", 0.6)
                gamma = kw.get("gamma", 5.0 / 3.0)
                ctx.require(f"formula with the keywords of this call/call{i}/{e}",
                            formula_holds(eq, da, db, xs[0] * sa, vals[0] * sb, K, mu, gamma), entry=e)

    return Case(f"C09/history/{eq}/{da}>{db}/{ua}>{ub}/vary-{vary}", h, bounds="symbolic: value, mu, gamma, second keyword value; 4 calls in one history",
                budget_s=1800, weight=8)


ALL_DIM_UNITS = dict(UNITS, **EXTRA_UNITS)


def make_uncovered_case(eq, da, ua, shape):
    """requests the equivalence does not relate: every entry point raises InvalidUnitEquivalence
    (same-dimension requests are plain conversions and are not part of this matrix)"""
    members = EQ_DIMS[eq]

    def h(ctx):
        mods = ctx.mods
        IUE = mods["unyt"].exceptions.InvalidUnitEquivalence
        n = int(np.prod(shape)) if shape else 1
        X = [ctx.real(f"x_{i}", pos=True) for i in range(n)]
        q, xs, sa = make_quantity(ctx, X, ua, shape)
        u_before = q.units
        check_listing(ctx, q, da)
        nreq = 0
        for db, ubs in ALL_DIM_UNITS.items():
            if db == da or (da in members and db in members):
                continue
            ub = ubs[0]
            for e in COPY_ENTRIES + INPLACE_ENTRIES:
                c = q.copy() if e in INPLACE_ENTRIES else q
                r = call(run_entry, ctx, c, ub, eq, {}, e)
                if r[0] == "ok":
                    ctx.require(f"uncovered request raises/{e}", False, to=ub, got="returned " + ("None" if r[1][0] is None else "a value"))
                else:
                    ctx.require(f"uncovered request raises/{e}", isinstance(r[1], IUE), to=ub, got=type(r[1]).__name__ + ": " + str(r[1])[:120])
                nreq += 1
            ctx.require("input untouched by refused requests", And(all_exact(payload(q), xs), q.units is u_before))
        ctx.observe("refused", nreq)

    return Case(f"C09/uncovered/{eq}/{da}/{ua}/{shape_tag(shape)}", h, bounds="symbolic value (irrelevant to the outcome); all other dimensions as targets")


OFFSET_UNITS = ["degC", "degF"]
T_EQS = [("thermal", "energy", "J"), ("thermal", "energy", "keV"), ("sound_speed", "energy", "erg"), ("sound_speed", "velocity", "km/s"),
         ("effective_temperature", "flux", "W/m**2"), ("effective_temperature", "flux", "erg/s/cm**2")]


def _offset_unit(ctx, name):
    u = ctx.mods["unyt"].Unit(name)
    return float(u.base_value), float(u.base_offset)


def make_offset_target_case(eq, da, ua, ub, shape):
    """target is an offset temperature scale (degC, degF): reading y means (y - o)*s kelvin"""
    def h(ctx):
        mods = ctx.mods
        K = consts(mods)
        kw = kwargs_for(ctx, eq)
        mu, gamma = kw.get("mu"), kw.get("gamma")
        X = input_symbols(ctx, eq, da, shape, K)
        q, xs, sa = make_quantity(ctx, X, ua, shape)
        sb, ob = _offset_unit(ctx, ub)
        u_before = q.units
        si_in = [v * sa for v in xs]
        ref = None
        for e in COPY_ENTRIES + INPLACE_ENTRIES:
            c = q.copy() if e in INPLACE_ENTRIES else q
            vals, u, r = run_entry(ctx, c, ub, eq, kw, e)
            ctx.require(f"returns a value/{e}", vals is not None and len(vals) == len(xs))
            if vals is None:
                continue
            ctx.observe(e, vals)
            # the band includes the offset's magnitude (an offset is subtracted)
            ctx.require(f"offset target: formula/{e}", And(*[Or(formula_holds(eq, da, "temperature", xi, (y - ob) * sb, K, mu, gamma),
                                                                 formula_holds(eq, da, "temperature", xi, (y - ob * (1 + 1e-6)) * sb, K, mu, gamma),
                                                                 formula_holds(eq, da, "temperature", xi, (y - ob * (1 - 1e-6)) * sb, K, mu, gamma))
                                                              for xi, y in zip(si_in, vals)]), entry=e)
            if u is not None:
                ctx.require(f"offset target: unit/{e}", unit_is(ctx, u, ub), got=str(u))
            if ref is None:
                ref = vals
            else:
                ctx.require(f"offset target: entry points agree/{e}", all_close(vals, ref, extra=1e-6 * abs(ob)))
        ctx.require("input untouched", And(all_exact(payload(q), xs), q.units is u_before, unit_is(ctx, q.units, ua)))

    return Case(f"C09/offset-target/{eq}/{da}>temperature/{ua}>{ub}/{shape_tag(shape)}", h, bounds="symbolic: value(s), mu, gamma")


def make_offset_input_case(eq, db, ua, ub, shape):
    """input on an offset temperature scale: the formulas are stated for absolute temperatures, so a refusal is accepted
    (any unyt unit exception); what is not accepted is a value that is not the formula of the absolute temperature"""
    def h(ctx):
        mods = ctx.mods
        K = consts(mods)
        exc = mods["unyt"].exceptions
        kw = kwargs_for(ctx, eq)
        mu, gamma = kw.get("mu"), kw.get("gamma")
        n = int(np.prod(shape)) if shape else 1
        T = [ctx.real(f"x_{i}", lo=0) for i in range(n)]  # absolute temperature in K
        sa, oa = _offset_unit(ctx, ua)
        vals_in = [t * (1.0 / sa) + oa for t in T]
        if shape == ():
            q = ctx.quantity(vals_in[0] if ctx.symbolic else float(vals_in[0]), ua)
        else:
            arr = np.empty(shape, dtype=object if ctx.symbolic else float)
            for i, idx in enumerate(np.ndindex(*shape)):
                arr[idx] = vals_in[i]
            q = ctx.quantity(arr, ua)
        sb = float(mods["unyt"].Unit(ub).base_value)
        u_before = q.units
        holds = {"copying forms": [], "in-place forms": []}
        for e in COPY_ENTRIES + INPLACE_ENTRIES:
            c = q.copy() if e in INPLACE_ENTRIES else q
            r = call(run_entry, ctx, c, ub, eq, kw, e)
            if r[0] == "raise":
                ctx.require(f"offset input: refusal is a unit error/{e}", isinstance(r[1], (exc.InvalidUnitOperation, exc.InvalidUnitEquivalence, exc.UnitOperationError)),
                            got=type(r[1]).__name__)
                ctx.observe(e, type(r[1]).__name__)
                continue
            vals = r[1][0]
            ctx.require(f"returns a value/{e}", vals is not None and len(vals) == n)
            if vals is None:
                continue
            ctx.observe(e, vals)
            holds["in-place forms" if e in INPLACE_ENTRIES else "copying forms"] += [formula_holds(eq, "temperature", db, t, y * sb, K, mu, gamma) for t, y in zip(T, vals)]
        for k, hs in holds.items():
            if hs:
                ctx.require(f"offset input: formula of the absolute temperature ({k})", And(*hs))
        ctx.require("input untouched", And(all_exact(payload(q), vals_in), q.units is u_before))

    return Case(f"C09/offset-input/{eq}/temperature>{db}/{ua}>{ub}/{shape_tag(shape)}", h, bounds="symbolic: absolute temperature >= 0, mu, gamma")


# --------------------------------------------------------------------------- call histories (state carried between requests)

# an equivalence that shares a member dimension with the key (a defect may keep state per class, per name or for all equivalences)
SIBLING = {"thermal": "sound_speed", "spectral": "thermal", "mass_energy": "schwarzschild", "lorentz": "sound_speed",
           "schwarzschild": "compton", "compton": "mass_energy", "number_density": "thermal", "sound_speed": "thermal",
           "effective_temperature": "thermal"}
NONMEMBER = ("time", "s")  # a dimension no equivalence relates: the uncovered target / the source without any equivalence

# step kinds of a history. ok = the request is covered and must succeed; refused = must raise InvalidUnitEquivalence and leave its
# operand untouched; fault = an exception raised INSIDE Equivalence.convert / the ufunc chain (its class is not judged here)
STEP_KINDS = {
    "copy": "ok", "copy-back": "ok", "inplace": "ok", "inplace-ctu": "ok", "inplace-back": "ok", "direct-inplace": "ok", "query": "ok",
    "copy-refused": "refused", "inplace-refused": "refused", "inplace-refused-ctu": "refused", "inplace-nosource": "refused",
    "direct-inplace-refused": "refused",
    "inplace-badkw": "fault", "inplace-readonly": "fault", "copy-badkw": "fault", "inplace-degC": "fault",
}
CORE_KINDS = ["copy", "inplace", "inplace-refused", "copy-refused", "direct-inplace", "inplace-badkw", "query"]


def kinds_for(seq):
    return [k for k in STEP_KINDS if k != "inplace-degC" or "temperature" in EQ_DIMS[seq]]


def run_step(ctx, i, kind, seq, K):
    """one earlier request of a history, on its own fresh operand (symbolic value in the formula's domain)"""
    mods = ctx.mods
    unyt = mods["unyt"]
    IUE = unyt.exceptions.InvalidUnitEquivalence
    da, db = EQ_DIMS[seq][0], EQ_DIMS[seq][1]
    if kind in ("copy-back", "inplace-back"):
        da, db = db, da
    ua, ub = UNITS[da][0], UNITS[db][0]
    kw = {k: ctx.real(f"s{i}_{k}", pos=True) for k in EQ_KW.get(seq, [])}
    if kind == "inplace-nosource":
        q, xs, _ = make_quantity(ctx, [ctx.real(f"s{i}_0", pos=True)], NONMEMBER[1], ())
    elif kind == "inplace-degC":
        t = ctx.real(f"s{i}_0", lo=0)
        q = ctx.quantity(t if ctx.symbolic else float(t), "degC")
        xs = [t]
        da, ua = "temperature", "degC"
        db = [d for d in EQ_DIMS[seq] if d != "temperature"][0]
        ub = UNITS[db][0]
    else:
        q, xs, _ = make_quantity(ctx, input_symbols(ctx, seq, da, (), K, prefix=f"s{i}"), ua, ())
    u0 = q.units
    tgt_dims = dim_obj(mods, db)
    bad_dims = dim_obj(mods, NONMEMBER[0])
    E = mods["UE"].equivalence_registry[seq]
    label = f"step{i} {kind}"
    if kind in ("copy", "copy-back"):
        r = call(q.to_equivalent, ub, seq, **kw)
    elif kind in ("inplace", "inplace-back"):
        r = call(q.convert_to_equivalent, ub, seq, **kw)
    elif kind == "inplace-ctu":
        r = call(q.convert_to_units, ub, equivalence=seq, **kw)
    elif kind == "direct-inplace":
        r = call(E(in_place=True).convert, q, tgt_dims, **kw)
    elif kind == "query":
        r = call(lambda: (q.has_equivalent(seq), q.units.has_equivalent(seq), unyt.Unit(NONMEMBER[1]).has_equivalent(seq)))
        ctx.require(f"{label}: has_equivalent", r[0] == "ok" and r[1] == (True, True, False), got=str(r[1]))
        buf = io.StringIO()
        with contextlib.redirect_stdout(buf):
            q.list_equivalencies()
        return
    elif kind == "copy-refused":
        r = call(q.to_equivalent, NONMEMBER[1], seq, **kw)
    elif kind == "inplace-refused":
        r = call(q.convert_to_equivalent, NONMEMBER[1], seq, **kw)
    elif kind == "inplace-refused-ctu":
        r = call(q.convert_to_units, NONMEMBER[1], equivalence=seq, **kw)
    elif kind == "inplace-nosource":
        r = call(q.convert_to_equivalent, ub, seq, **kw)
    elif kind == "direct-inplace-refused":
        r = call(E(in_place=True).convert, q, bad_dims, **kw)
    elif kind == "inplace-badkw":
        r = call(q.convert_to_equivalent, ub, seq, no_such_keyword=1.0, **kw)
    elif kind == "copy-badkw":
        r = call(q.to_equivalent, ub, seq, no_such_keyword=1.0, **kw)
    elif kind == "inplace-readonly":
        q.flags.writeable = False
        r = call(q.convert_to_equivalent, ub, seq, **kw)
    elif kind == "inplace-degC":
        r = call(q.convert_to_equivalent, ub, seq, **kw)
    else:
        raise KeyError(kind)
    want = STEP_KINDS[kind]
    if want == "ok":
        ctx.require(f"{label}: a covered request succeeds", r[0] == "ok", got=repr(r[1])[:160])
    elif want == "refused":
        ctx.require(f"{label}: raises InvalidUnitEquivalence", r[0] == "raise" and isinstance(r[1], IUE), got=repr(r[1])[:160])
        ctx.require(f"{label}: refused request leaves its operand untouched", And(all_exact(payload(q), xs), q.units is u0))
    else:
        ctx.observe(label, r[0] if r[0] == "ok" else type(r[1]).__name__)


def make_call_history_case(eq, da, db, ua, ub, steps, shape=()):
    """history independence of the whole battery: `steps` (kind, equivalence) are earlier requests made in the SAME process state
    (caches and any module-level state are only reset at the start of a path); afterwards every obligation of the pair case must
    hold exactly as in a fresh process - in particular the copying forms must still leave their input untouched after an in-place
    request that failed half-way, and an in-place request must still be in place after copying ones."""
    def h(ctx):
        K = consts(ctx.mods)
        for i, (kind, seq) in enumerate(steps):
            run_step(ctx, i, kind, seq, K)
        pair_battery(ctx, eq, da, db, ua, ub, shape)

    tag = "+".join(k if seq == eq else f"{k}@{seq}" for k, seq in steps)
    return Case(f"C09/after/{tag}/{eq}/{da}>{db}/{ua}>{ub}/{shape_tag(shape)}", h,
                bounds=f"symbolic: value(s), mu, gamma of every request; {len(steps)} earlier request(s) in one history",
                budget_s=1800 if eq in NONLINEAR else 600, weight=20 if eq == "lorentz" else (5 if eq in NONLINEAR else 1))


# --------------------------------------------------------------------------- call histories ACROSS equivalences

def lib_members(mods, eq):
    """names of the dimensions the library's own `_dims` table of `eq` holds (read at run time)"""
    E = mods["UE"].equivalence_registry[eq]
    return [d for d in ALL_DIM_UNITS if any(dim_obj(mods, d) == m for m in E._dims)]


def cross_triples(mods):
    """(E1, E2, da, db): E1 covers da -> db, E2 holds da but NOT db - enumerated from the equivalences' own `_dims` tables; the
    independent table EQ_DIMS must agree on both facts (it is the oracle of who covers what)"""
    mem = {eq: lib_members(mods, eq) for eq in EQ_DIMS}
    out = []
    for e1, e2 in itertools.permutations(EQ_DIMS, 2):
        for da, db in itertools.permutations(mem[e1], 2):
            if da in mem[e2] and db not in mem[e2] and da in EQ_DIMS[e1] and db in EQ_DIMS[e1] and da in EQ_DIMS[e2] and db not in EQ_DIMS[e2]:
                out.append((e1, e2, da, db))
    return out


def make_cross_case(e1, e2, da, db, ua, ub, shape, order, forms1):
    """one path, two equivalences, the SAME (from, to) pair of dimensions: E1 covers it, E2 holds `from` but not `to`.
    order `legit-first`: the covered request through E1 (forms1: copying and in-place entries), then the request through E2 on
    every entry point: it must raise InvalidUnitEquivalence (never return None or a value) and leave its operand's elements and
    unit untouched - copying AND in-place forms. order `refused-first`: the E2 requests first (same obligations), then the E1
    request must still give the closed-form value. A verdict about a pair of dimensions must not outlive the equivalence it was
    made for."""
    def h(ctx):
        mods = ctx.mods
        K = consts(mods)
        IUE = mods["unyt"].exceptions.InvalidUnitEquivalence
        kw1 = kwargs_for(ctx, e1)
        kw2 = {k: ctx.real("r_" + k, pos=True) for k in EQ_KW.get(e2, [])}
        X1 = input_symbols(ctx, e1, da, shape, K, prefix="a")
        n = int(np.prod(shape)) if shape else 1
        X2 = [ctx.real(f"b_{i}", pos=True) for i in range(n)]
        sb = float(mods["unyt"].Unit(ub).base_value)

        def legit(judge):
            for e in forms1:
                q, xs, sa = make_quantity(ctx, X1, ua, shape)
                r = call(run_entry, ctx, q, ub, e1, kw1, e)
                ok = r[0] == "ok" and r[1][0] is not None and len(r[1][0]) == n
                ctx.require(f"covered request through {e1} succeeds/{e}", ok, got=repr(r[1])[:160])
                if not ok or not judge:
                    continue
                vals, u, _ = r[1]
                mu, gamma = kw1.get("mu", 0.6), kw1.get("gamma", 5.0 / 3.0)
                ctx.require(f"covered request through {e1} after the refused ones: formula/{e}",
                            And(*[formula_holds(e1, da, db, x * sa, v * sb, K, mu, gamma) for x, v in zip(xs, vals)]), entry=e)
                if u is not None:
                    ctx.require(f"covered request through {e1}: unit/{e}", unit_is(ctx, u, ub))

        def refused():
            for e in COPY_ENTRIES + INPLACE_ENTRIES:
                q, xs, _ = make_quantity(ctx, X2, ua, shape)
                u0, s0 = q.units, str(q.units)
                r = call(run_entry, ctx, q, ub, e2, kw2, e)
                if r[0] == "ok":
                    ctx.require(f"request {e2} does not cover raises/{e}", False, to=ub, got="returned " + ("None" if r[1][0] is None else "a value"))
                else:
                    ctx.require(f"request {e2} does not cover raises/{e}", isinstance(r[1], IUE), to=ub, got=type(r[1]).__name__ + ": " + str(r[1])[:120])
                ctx.require(f"refused request leaves its operand untouched/{e}",
                            And(all_exact(payload(q), xs), q.units is u0, str(q.units) == s0, q.shape == tuple(shape)), entry=e)
            q, _, _ = make_quantity(ctx, X2, ua, shape)
            ctx.require(f"has_equivalent({e2}) of the source, not of the target",
                        q.has_equivalent(e2) is True and mods["unyt"].Unit(ub).has_equivalent(e2) is False)

        if order == "legit-first":
            legit(False)
            refused()
        else:
            refused()
            legit(True)

    return Case(f"C09/cross/{order}/{e1}>{e2}/{da}>{db}/{ua}>{ub}/{shape_tag(shape)}", h,
                bounds="symbolic: value(s), mu, gamma of every request; requests through two equivalences in one history",
                budget_s=1800 if e1 in NONLINEAR else 600, weight=5 if e1 in NONLINEAR and order != "legit-first" else 1)


def cross_cases(quick, mods):
    """thorough: every (E1, E2, from, to) x both orders x both shapes, all 8 entries for the E1 request; quick: per ordered pair
    (E1, E2) one (from, to) (rotating), legit-first with one copying + one in-place E1 entry (rotating), and the refused-first order
    for a rotating third of them - every E2 and every E1 is met in both orders"""
    out = []
    seen = {}
    for k, (e1, e2, da, db) in enumerate(cross_triples(mods)):
        ua, ub = UNITS[da][k % len(UNITS[da])], UNITS[db][k % len(UNITS[db])]
        if quick:
            j = seen.get((e1, e2), 0)
            seen[(e1, e2)] = j + 1
            if j != 0:
                continue
            m = len(seen)
            forms1 = (COPY_ENTRIES[m % len(COPY_ENTRIES)], INPLACE_ENTRIES[m % len(INPLACE_ENTRIES)])
            out.append(make_cross_case(e1, e2, da, db, ua, ub, ((), (2,))[m % 2], "legit-first", forms1))
            if m % 3 == 0 or ("r", e2) not in seen or ("l", e1) not in seen:
                seen[("r", e2)] = seen[("l", e1)] = 1
                out.append(make_cross_case(e1, e2, da, db, ua, ub, ((2,), ())[m % 2], "refused-first", forms1))
        else:
            for shape in ((), (2,)):
                for order in ("legit-first", "refused-first"):
                    out.append(make_cross_case(e1, e2, da, db, ua, ub, shape, order, tuple(COPY_ENTRIES + INPLACE_ENTRIES)))
    return out


# --------------------------------------------------------------------------- dtype axis: real typed buffers (integers, float32)

INT_DTYPES = ["int64", "int32", "uint8", "uint64", "int16", "uint32", "int8", "uint16"]
# float64 itself is on the axis: a real float buffer, not the object payload that stands for it (assumption A5 says both take the
# same branches - a gate on dtype.kind / dtype == float64 in a changed library is exactly where that stops being true)
TYPED_DTYPES = ["int64", "float64"] + INT_DTYPES[1:3] + ["float32"] + INT_DTYPES[3:]
DECADES = [0, 1, 2, 3, 5, 7, 10, 30, 100, 300, 1000, 10**4, 10**5, 10**6, 10**7, 10**8, 10**9, 10**12, 10**15, 10**18]
HALVES = [0.25, 0.5, 1.5, 2.5]  # float dtypes only (exactly representable)
FIXED_KW = {"mu": 1.25, "gamma": 1.5}  # in-place requests on typed buffers: a float buffer cannot hold a term
XT = "xct"  # harness target unit with a symbolic scale


def degree(eq, da):
    """degree of the formula in its input: an integer input is only in the claim while input**degree fits its dtype"""
    if eq == "lorentz" or (eq == "sound_speed" and da == "velocity"):
        return 2
    if eq == "effective_temperature" and da == "temperature":
        return 4
    return 1


def in_domain(eq, da, x_si, K):
    if eq == "lorentz":
        return 0 <= x_si <= K["c"] * (1 - 1e-8) if da == "velocity" else x_si >= 1
    if eq in ("spectral", "compton"):
        return x_si > 0
    return x_si >= 0


def typed_values(eq, da, sa, dt, K):
    """in-domain values over many decades that the dtype holds exactly and whose degree-th power it holds too"""
    dt = np.dtype(dt)
    deg = degree(eq, da)
    cand = list(DECADES)
    if dt.kind == "f":
        cand = sorted(cand + HALVES)
        top = 2.0 ** {2: 11, 4: 24}.get(dt.itemsize, 53)  # integers up to here are exact
        cand = [v for v in cand if v <= top and float(v) ** deg <= 1e30]
    else:
        top = int(np.iinfo(dt).max)
        cand = [v for v in cand if v <= top and v ** deg <= top]
    cand = [v for v in cand if in_domain(eq, da, v * sa, K)]
    if len(cand) > 5:
        cand = cand[:2] + [cand[len(cand) // 2]] + cand[-2:]
    return cand


def typed_untouched(unyt, q, buf, dtype, u0, ua):
    """dtype, bytes, shape and unit (the very object, and its spelling) of a typed input are what they were before the request"""
    return bool(q.dtype == dtype and q.units is u0 and str(q.units) == str(unyt.Unit(ua))
                and np.array_equal(np.asarray(q.d).ravel(), buf.ravel()))


def make_dtype_case(eq, da, db, ua, ub, dt, forms=("array", "scalar")):
    """the payload is a REAL typed NumPy buffer (integer of any width, float32), array and 0-d quantity: the dtype decides which
    NumPy loops run (integer multiply / reciprocal / power, casts of out= buffers), which an object-dtype payload cannot show.
    Values are enumerated (a typed buffer cannot hold a term); what is symbolic is the scale of the target unit (copying forms)
    and mu, gamma (copying forms)."""
    dtype = np.dtype(dt)
    inplace_ok = dtype.itemsize == 8  # narrower buffers are converted in place to float32/float16, whose range the constants exceed

    def h(ctx):
        mods = ctx.mods
        unyt = mods["unyt"]
        K = consts(mods)
        kw_sym = kwargs_for(ctx, eq)
        mu, gamma = kw_sym.get("mu"), kw_sym.get("gamma")
        kw_fix = {k: FIXED_KW[k] for k in EQ_KW.get(eq, [])}
        sa = float(unyt.Unit(ua).base_value)
        sb = float(unyt.Unit(ub).base_value)
        st = ctx.real(XT + "_s", pos=True)
        reg = ctx.registry([])
        ctx.add_row(reg, XT, dim_obj(mods, db), st)
        want_xt = unyt.Unit(XT, registry=reg)
        for form in forms:
            vs = typed_values(eq, da, sa, dtype, K)  # never empty: cases() skips the combinations without a value
            if form == "scalar":
                vs = [vs[len(vs) // 2]]

            def fresh(vals, registry=None):
                buf = np.array(vals, dtype=dtype)  # the reference the input is compared with afterwards: never handed to unyt
                if form == "scalar":
                    return unyt.unyt_quantity(buf[0], ua, registry=registry), buf
                return unyt.unyt_array(buf.copy(), ua, registry=registry), buf  # unyt_array(ndarray) is a view of what it is given
            si_in = [float(v) * sa for v in vs]
            # ---- copying forms, table target, fixed keywords: all numbers are concrete, so purity and the independence of the
            # result are settled first (whatever a changed library does with a term it cannot store in a typed buffer later on)
            for e in COPY_ENTRIES:
                q, buf = fresh(vs)
                u0 = q.units
                r = request(ctx, q, ub, eq, kw_fix, e)
                ctx.require(f"returns a value/table target/{e}/{form}", r is not None and np.size(r) == len(vs))
                ctx.require(f"input untouched/table target/{e}/{form}", typed_untouched(unyt, q, buf, dtype, u0, ua), now=repr(q)[:120])
                ctx.require(f"fresh object/table target/{e}/{form}", r is not None and independent(r, q))
                if r is not None and np.size(r) == len(vs):
                    got = elements(r) if e == "to_value" else payload(r)
                    ctx.require(f"formula/table target/{e}/{form}", And(*[formula_holds(eq, da, db, xi, y * sb, K, kw_fix.get("mu"), kw_fix.get("gamma"))
                                                                          for xi, y in zip(si_in, got)]), entry=e, dtype=dt, values=vs)
                    if e != "to_value":
                        ctx.require(f"unit/table target/{e}/{form}", unit_is(ctx, r.units, ub), got=str(r.units))
            # ---- copying forms, target unit of ANY positive scale
            ref = None
            for e in COPY_ENTRIES:
                q, buf = fresh(vs, reg)
                u0 = q.units
                vals, u, r = run_entry(ctx, q, XT, eq, kw_sym, e)
                ctx.require(f"returns a value/{e}/{form}", vals is not None and len(vals) == len(vs))
                if vals is None:
                    continue
                ctx.observe(f"{e}/{form}", [y * st for y in vals])
                ctx.require(f"formula/{e}/{form}", And(*[formula_holds(eq, da, db, xi, y * st, K, mu, gamma) for xi, y in zip(si_in, vals)]),
                            entry=e, dtype=dt, values=vs)
                if u is not None:
                    ctx.require(f"unit/{e}/{form}", And(exact_eq(u.base_value, st), str(u) == XT, u.dimensions == want_xt.dimensions, u.base_offset == 0.0), got=str(u))
                ctx.require(f"fresh object/{e}/{form}", independent(r, q))
                if ref is None:
                    ref = vals
                else:
                    ctx.require(f"entry points agree/{e}/{form}", all_close(vals, ref))
                ctx.require(f"input untouched/{e}/{form}", typed_untouched(unyt, q, buf, dtype, u0, ua), now=repr(q)[:120])
            # ---- table target unit: copying reference, then the in-place forms on the typed buffer
            vi = vs
            si_i = [float(v) * sa for v in vi]
            q, buf = fresh(vi)
            cref = payload(q.to_equivalent(ub, eq, **kw_fix))
            ctx.observe(f"copy reference/{form}", cref)
            ctx.require(f"formula/copy reference/{form}", And(*[formula_holds(eq, da, db, xi, y * sb, K, kw_fix.get("mu"), kw_fix.get("gamma"))
                                                                for xi, y in zip(si_i, cref)]), dtype=dt, values=vi)
            for e in (INPLACE_ENTRIES if inplace_ok else []):
                c, buf = fresh(vi)
                vals, u, r = run_entry(ctx, c, ub, eq, kw_fix, e)
                ctx.require(f"returns a value/{e}/{form}", vals is not None and len(vals) == len(vi))
                if vals is None:
                    continue
                ctx.observe(f"{e}/{form}", vals)
                ctx.require(f"in-place is in place/{e}/{form}", r is c)
                ctx.require(f"in-place == copy numbers/{e}/{form}", all_close(payload(c), cref), entry=e, dtype=dt, values=vi,
                            inplace=payload(c), copy=cref)
                ctx.require(f"in-place == copy unit/{e}/{form}", unit_is(ctx, c.units, ub), got=str(c.units))
                ctx.require(f"formula/{e}/{form}", And(*[formula_holds(eq, da, db, xi, y * sb, K, kw_fix.get("mu"), kw_fix.get("gamma"))
                                                         for xi, y in zip(si_i, payload(c))]), entry=e, dtype=dt, values=vi)
            # ---- there and back from the typed input (copying forms)
            q, buf = fresh(vi)
            back = q.to_equivalent(ub, eq, **kw_fix).to_equivalent(ua, eq, **kw_fix)
            ctx.require(f"there-and-back/{form}", And(same_values(eq, da, payload(back), [float(v) for v in vi], sa, K), unit_is(ctx, back.units, ua)),
                        dtype=dt, values=vi, back=payload(back))

    return Case(f"C09/dtype/{dt}/{eq}/{da}>{db}/{ua}>{ub}", h,
                bounds="typed buffer with enumerated values; symbolic: scale of the target unit, mu, gamma (copying forms)",
                budget_s=600, weight=3 if eq in NONLINEAR else 1)


def make_symtarget_case(eq, da, db, ua, shape):
    """the target is a user-defined unit of the right dimension whose scale is a z3 real (> 0): 'whatever units the target is
    expressed in' for ALL scales at once, copying and in-place forms (an object buffer can hold the rescaled terms).
    The INPUT unit stays a table unit: it meets the constants' units in a product and sympy cannot cancel a z3 term."""
    def h(ctx):
        mods = ctx.mods
        unyt = mods["unyt"]
        K = consts(mods)
        kw = kwargs_for(ctx, eq)
        mu, gamma = kw.get("mu"), kw.get("gamma")
        st = ctx.real(XT + "_s", pos=True)
        reg = ctx.registry([])
        ctx.add_row(reg, XT, dim_obj(mods, db), st)
        want = unyt.Unit(XT, registry=reg)
        X = input_symbols(ctx, eq, da, shape, K)
        q0, xs, sa = make_quantity(ctx, X, ua, shape)
        q = ctx.quantity(q0.d, ua, reg)
        u_before = q.units
        si_in = [v * sa for v in xs]
        ref = None
        for e in COPY_ENTRIES + INPLACE_ENTRIES:
            c = q.copy() if e in INPLACE_ENTRIES else q
            vals, u, r = run_entry(ctx, c, XT, eq, kw, e)
            ctx.require(f"returns a value/{e}", vals is not None and len(vals) == len(xs))
            if vals is None:
                continue
            ctx.observe(e, [y * st for y in vals])
            ctx.require(f"formula/{e}", And(*[formula_holds(eq, da, db, xi, y * st, K, mu, gamma) for xi, y in zip(si_in, vals)]), entry=e)
            if u is not None:
                ctx.require(f"unit/{e}", And(exact_eq(u.base_value, st), str(u) == XT, u.dimensions == want.dimensions, u.base_offset == 0.0), got=str(u))
            if e in INPLACE_ENTRIES:
                ctx.require(f"in-place is in place/{e}", r is c)
            else:
                ctx.require(f"fresh object/{e}", independent(r, q))
            if ref is None:
                ref = vals
            else:
                ctx.require(f"entry points agree/{e}", all_close(vals, ref))
            ctx.require(f"input untouched/{e}", And(all_exact(payload(q), xs), q.units is u_before))

    return Case(f"C09/symtarget/{eq}/{da}>{db}/{ua}>{XT}/{shape_tag(shape)}", h, bounds="symbolic: value(s), mu, gamma, scale of the target unit",
                budget_s=1800 if eq in NONLINEAR else 600, weight=20 if eq == "lorentz" else (5 if eq in NONLINEAR else 1))


# --------------------------------------------------------------------------- size axis: how many elements the payload has
#
# A conversion may take another route for "large" inputs (a scratch buffer, a chunked loop, an in-place short cut). Two nets:
#  (1) REAL sizes on REAL typed buffers (float64, float32, int64): a fixed ladder 2**k + 1 up to 2**20 + 1 elements - one element
#      more than a power of two, so a chunked loop has a partial tail - plus t and t + 1 for every integer constant t found in the
#      CURRENT source of the anchored modules (so a literal threshold or a band `a <= size < b` written in the code is met on both
#      sides). Object arrays of 10**6 terms are out of reach (about 0.1 ms per element and operation), so the numbers are an
#      enumeration here, as on the dtype axis: in-domain values over the decades, tiled.
#  (2) module-level / class-level integer constants of the anchored modules that their code refers to by name are re-bound to
#      LOW = 2 for the duration of a case (stated as part of the configuration in the case id): the large-input route then runs on
#      the 2- and 3-element symbolic payloads of the pair battery and on the typed buffers of the dtype axis, all obligations
#      decided by z3 for all values as everywhere else. The unchanged tree has no such constant, so this configuration is empty on it.

ANCHORED = ("unyt.array", "unyt.equivalencies", "unyt.unit_object")
SIZE_DTYPES = ["float64", "float32", "int64"]
LADDER = [1025, 2**16 + 1, 2**20 + 1]
SIZE_CAP = 2**21  # constants of the source above this are not walked as real sizes (16 MB of float64 per operand and temporary)
LOW = 2
BIG_SHAPES = [(3,), (2, 3), (17,)]  # symbolic payloads beyond the scalar / 2-element ones of the batteries
BIG_SHAPES_NONLINEAR = [(3,), (2, 3), (5,)]  # one root witness per element and entry point: 17 of them cost minutes
SIZE_FORMS = ("1d", "col", "2row")  # (n,), (n, 1) [len == size], (2, ceil(n/2)) [len == 2]


def _fold(n):
    """value of an integer-valued constant expression of the source (1 << 16, 2**20, 64 * 1024, 1e5) or None"""
    if isinstance(n, ast.Constant):
        v = n.value
        if type(v) is int:
            return v
        if type(v) is float and v.is_integer() and abs(v) < 2.0**62:
            return int(v)
        return None
    if isinstance(n, ast.BinOp):
        a, b = _fold(n.left), _fold(n.right)
        if a is None or b is None:
            return None
        if isinstance(n.op, ast.LShift) and 0 <= b < 63:
            return a << b
        if isinstance(n.op, ast.Pow) and 0 <= b < 63 and abs(a) <= 1024:
            return a ** b
        if isinstance(n.op, ast.Mult):
            return a * b
        if isinstance(n.op, ast.Add):
            return a + b
        if isinstance(n.op, ast.Sub):
            return a - b
    return None


_SRC = {}


def _trees():
    """ASTs of the anchored modules as loaded in THIS process (the tree under test)"""
    if not _SRC:
        for name in ANCHORED:
            m = sys.modules[name]
            with open(m.__file__) as f:
                _SRC[name] = ast.parse(f.read())
    return _SRC


def source_sizes():
    """t and t + 1 for every integer constant 16 <= t <= SIZE_CAP in the source of the anchored modules"""
    found = set()
    for tree in _trees().values():
        for node in ast.walk(tree):
            if isinstance(node, (ast.Constant, ast.BinOp)):
                v = _fold(node)
                if v is not None and 16 <= v <= SIZE_CAP:
                    found.add(v)
    return sorted(found)


def size_constants():
    """(module, class or None, name, value) of the module-level and class-level plain integers >= 16 that are defined in an anchored
    module and that its code refers to by name: the candidates for 'how large is large'"""
    out = []
    for modname, tree in _trees().items():
        m = sys.modules[modname]
        used = {n.id for n in ast.walk(tree) if isinstance(n, ast.Name) and isinstance(n.ctx, ast.Load)}
        used |= {n.attr for n in ast.walk(tree) if isinstance(n, ast.Attribute) and isinstance(n.ctx, ast.Load)}
        for k, v in sorted(vars(m).items()):
            if type(v) is int and v >= 16 and k in used and not k.startswith("__"):
                out.append((modname, None, k, v))
            if isinstance(v, type) and getattr(v, "__module__", None) == modname:
                for ck, cv in sorted(vars(v).items()):
                    if type(cv) is int and cv >= 16 and ck in used and not ck.startswith("__"):
                        out.append((modname, v.__name__, ck, cv))
    return out


@contextlib.contextmanager
def lowered(thr, value=LOW):
    """re-bind the given integer constants of the loaded library (shimmed or plain: whatever sys.modules holds in this process)
    for the duration of the block; the runner's reset at the start of every path would put them back as well"""
    saved = []
    try:
        for modname, cls, name, _ in thr:
            owner = sys.modules[modname]
            if cls is not None:
                owner = getattr(owner, cls)
            saved.append((owner, name, getattr(owner, name)))
            setattr(owner, name, value)
        yield
    finally:
        for owner, name, old in reversed(saved):
            setattr(owner, name, old)


def lowered_case(base, thr, tag):
    def h(ctx):
        with lowered(thr):
            base.fn(ctx)

    return Case("C09/lowthr/" + tag + "/" + base.id.split("/", 1)[1], h, bounds=base.bounds + f"; configuration: {tag} re-bound to {LOW}",
                budget_s=base.budget_s, weight=base.weight)


def thr_tag(thr):
    return "+".join((f"{c}." if c else "") + f"{n}" for _, c, n, _ in thr)


def size_shape(n, form):
    return {"1d": (n,), "col": (n, 1), "2row": (2, (n + 1) // 2)}[form]


def _tiled(tile, shape, dtype):
    return np.resize(np.array(tile, dtype=dtype), shape)


def _uniform(flat, p):
    """every element equals the element at its position in the first tile (the payload is a tiling of p values; the band covers a
    last-place difference between the vector and the scalar tail loops of a NumPy kernel)"""
    flat = np.asarray(flat, dtype=float).ravel()
    m = (flat.shape[0] // p) * p
    head = flat[:p]
    return bool(np.allclose(flat[:m].reshape(-1, p), head, rtol=1e-6, atol=0.0) and np.allclose(flat[m:], head[: flat.shape[0] - m], rtol=1e-6, atol=0.0))


def _sample(flat, p):
    """the first and the last p elements with their tile positions"""
    flat = np.asarray(flat).ravel()
    n = flat.shape[0]
    idx = list(range(min(p, n))) + list(range(max(n - p, 0), n))
    return [(i % p, flat[i].item()) for i in idx]


def make_size_case(eq, da, db, ua, ub, dt, n, form):
    """the payload is a REAL typed buffer with n elements (n from the ladder and from the constants of the current source): which
    route a conversion takes may depend on how much data it is given. Everything the property says is re-checked on that buffer:
    formula, unit, purity (dtype, every byte, unit object), independence of the result, in-place == copy, there-and-back,
    via-intermediate == direct. Values are a tiling of enumerated in-domain values; mu, gamma fixed; table target."""
    dtype = np.dtype(dt)
    inplace_ok = dtype.itemsize == 8
    shape = size_shape(n, form)
    third = [d for d in EQ_DIMS[eq] if d not in (da, db)]

    def h(ctx):
        mods = ctx.mods
        unyt = mods["unyt"]
        K = consts(mods)
        kw = {k: FIXED_KW[k] for k in EQ_KW.get(eq, [])}
        mu, gamma = kw.get("mu"), kw.get("gamma")
        sa = float(unyt.Unit(ua).base_value)
        sb = float(unyt.Unit(ub).base_value)
        tile = typed_values(eq, da, sa, dtype, K)
        p = len(tile)
        ref_buf = _tiled(tile, shape, dtype)  # never handed to unyt
        size = ref_buf.size
        si_tile = [float(v) * sa for v in tile]

        def fresh():
            return unyt.unyt_array(ref_buf.copy(), ua)

        def formula(flat, s_out, dx=da, dy=db):
            return And(_uniform(flat, p), *[formula_holds(eq, dx, dy, si_tile[k], y * s_out, K, mu, gamma) for k, y in _sample(flat, p)])

        cref = None
        for e in COPY_ENTRIES:
            q = fresh()
            u0 = q.units
            r = request(ctx, q, ub, eq, kw, e)
            ok = r is not None and np.size(r) == size and np.shape(r) == shape
            ctx.require(f"returns a value/{e}", ok, got=str(np.shape(r)))
            # purity first: it must hold whatever came back
            ctx.require(f"input untouched/{e}", typed_untouched(unyt, q, ref_buf, dtype, u0, ua) and q.shape == shape, first=repr(np.asarray(q.d).ravel()[:3]))
            if not ok:
                continue
            ctx.require(f"fresh object/{e}", independent(r, q))
            flat = np.asarray(r if e == "to_value" else r.d).ravel()
            ctx.observe(e, [float(v) for v in flat[:p]])
            ctx.require(f"formula/{e}", formula(flat, sb), entry=e, dtype=dt, n=size, first=repr(flat[:3]))
            if e != "to_value":
                ctx.require(f"unit/{e}", unit_is(ctx, r.units, ub), got=str(r.units))
            if cref is None:
                cref = flat.astype(float)
            else:
                ctx.require(f"entry points agree/{e}", bool(np.allclose(flat.astype(float), cref, rtol=2e-6, atol=0.0)))
        for e in (INPLACE_ENTRIES if inplace_ok else []):
            c = fresh()
            r = request(ctx, c, ub, eq, kw, e)
            ok = r is not None and np.size(r) == size
            ctx.require(f"returns a value/{e}", ok)
            if not ok:
                continue
            flat = np.asarray(c.d).ravel()
            ctx.observe(e, [float(v) for v in flat[:p]])
            ctx.require(f"in-place is in place/{e}", r is c)
            ctx.require(f"in-place == copy numbers/{e}", cref is not None and bool(np.allclose(flat.astype(float), cref, rtol=2e-6, atol=0.0)), entry=e, n=size)
            ctx.require(f"in-place == copy unit/{e}", unit_is(ctx, c.units, ub), got=str(c.units))
            ctx.require(f"formula/{e}", formula(flat, sb), entry=e, dtype=dt, n=size, first=repr(flat[:3]))
        # there and back, copying and (8-byte buffers) in place
        q = fresh()
        u0 = q.units
        there = q.to_equivalent(ub, eq, **kw)
        back = there.to_equivalent(ua, eq, **kw)
        bflat = np.asarray(back.d).ravel()
        ctx.require("there-and-back", And(_uniform(bflat, p), same_values(eq, da, [y for _, y in _sample(bflat, p)], [float(tile[k]) for k, _ in _sample(bflat, p)], sa, K),
                                          unit_is(ctx, back.units, ua), back.shape == shape), n=size, first=repr(bflat[:3]))
        ctx.require("there-and-back: intermediate untouched", bool(np.allclose(np.asarray(there.d).ravel().astype(float), cref, rtol=2e-6, atol=0.0))
                    and unit_is(ctx, there.units, ub) and independent(back, there))
        if third:
            dc = third[0]
            uc = UNITS[dc][0]
            sc = float(unyt.Unit(uc).base_value)
            direct = q.to_equivalent(uc, eq, **kw)
            via = q.to_equivalent(ub, eq, **kw).to_equivalent(uc, eq, **kw)
            dflat, vflat = np.asarray(direct.d).ravel().astype(float), np.asarray(via.d).ravel().astype(float)
            ctx.require("via-intermediate == direct", bool(np.allclose(vflat, dflat, rtol=2e-6, atol=0.0)) and unit_is(ctx, via.units, uc) and unit_is(ctx, direct.units, uc))
            ctx.require("via-intermediate formula", formula(vflat, sc, da, dc), n=size)
        ctx.require("input untouched", typed_untouched(unyt, q, ref_buf, dtype, u0, ua) and q.shape == shape, first=repr(np.asarray(q.d).ravel()[:3]))
        if inplace_ok:
            c = fresh()
            c.convert_to_equivalent(ub, eq, **kw)
            c.convert_to_equivalent(ua, eq, **kw)
            cflat = np.asarray(c.d).ravel()
            ctx.require("there-and-back in place", And(_uniform(cflat, p), same_values(eq, da, [y for _, y in _sample(cflat, p)], [float(tile[k]) for k, _ in _sample(cflat, p)], sa, K),
                                                       unit_is(ctx, c.units, ua)), n=size)

    return Case(f"C09/size/{dt}/n{n}-{form}/{eq}/{da}>{db}/{ua}>{ub}", h,
                bounds=f"typed buffer of {n} elements (tiling of enumerated values), fixed mu, gamma, table target: enumeration, nothing symbolic",
                budget_s=600, weight=2 if n > 2**17 else 1)


# --------------------------------------------------------------------------- layout / aliasing axis and call-form axis
#
# The quantity handed to a conversion is a VIEW of a larger buffer (every second element, one column, reversed, transposed,
# Fortran order, a 0-d unyt_array that is not a unyt_quantity), or read-only, or a zero-stride broadcast. A conversion that
# works through .base / ravel() / a contiguity short cut, or that re-wraps instead of copying, shows here: the copying forms
# must leave the WHOLE parent buffer untouched and share no memory with it, the in-place forms must rewrite exactly the
# elements of the view (same numbers and unit as the copying form) and no neighbour. Two payload kinds: "sym" - object buffer
# of z3 reals (values, neighbours, mu, gamma for-all); "f8" - a REAL float64 buffer (what production data are; any gate on
# dtype.kind == "f" is invisible to an object payload) with enumerated values, where the copying forms go to a target of
# symbolic scale with symbolic mu, gamma. The call form (`spell`, see request()) rotates with the layout.

def _sel_strided(p):
    return p[1::2]


def _sel_reversed(p):
    return p[::-1]


def _sel_column(p):
    return p[:, 1]


def _sel_transposed(p):
    return p.T


def _sel_whole(p):
    return p


def _sel_0d(p):
    return p.reshape(())


def _sel_tail(p):
    return p[1:]


# name -> (parent shape, selector, Fortran order, writable)
LAYOUTS = {
    "whole": ((2,), _sel_whole, False, True),
    "strided": ((5,), _sel_strided, False, True),
    "reversed": ((2,), _sel_reversed, False, True),
    "column": ((2, 3), _sel_column, False, True),
    "transposed": ((2, 2), _sel_transposed, False, True),
    "fortran": ((2, 2), _sel_whole, True, True),
    "tail": ((3,), _sel_tail, False, True),  # contiguous, but base is not None and the data pointer is offset
    "0d-array": ((1,), _sel_0d, False, True),
    "readonly": ((2,), _sel_whole, False, False),
}


def make_layout_case(eq, da, db, ua, ub, layouts, kind, thorough=False):
    """`layouts`: the layouts walked in this case, each with every call form of SPELLS"""
    def h(ctx):
        mods = ctx.mods
        unyt = mods["unyt"]
        K = consts(mods)
        kw_sym = kwargs_for(ctx, eq)
        sa = float(unyt.Unit(ua).base_value)
        sb = float(unyt.Unit(ub).base_value)
        reg = None
        if kind == "f8":
            st = ctx.real(XT + "_s", pos=True)
            reg = ctx.registry([])
            ctx.add_row(reg, XT, dim_obj(mods, db), st)
        for li, layout in enumerate(layouts):
            # the first layout of a case meets every call form, the others one each (rotating): the two axes are independent
            spells = SPELLS if (li == 0 or (thorough and kind == "sym" and eq not in NONLINEAR)) else (SPELLS[li % len(SPELLS)],)
            pshape, sel, fortran, writable = LAYOUTS[layout]
            psize = int(np.prod(pshape))
            idx = [int(i) for i in np.asarray(sel(np.arange(psize).reshape(pshape))).ravel()]  # parent positions of the view's elements
            others = [i for i in range(psize) if i not in idx]
            if kind == "sym":
                # (prefix: the conformance pin of x_3 is gamma == 1 exactly, where v(gamma) is singular)
                X = input_symbols(ctx, eq, da, pshape, K, prefix="w" + layout[:2])
                stored = [x * (1.0 / sa) for x in X]
                if not ctx.symbolic:
                    stored = [float(v) for v in stored]
                # copying and in-place forms alike: table target, symbolic keywords
                tgt_c, kw_c, s_c = ub, kw_sym, sb
                tgt_i, kw_i, s_i = ub, kw_sym, sb
            else:
                tile = typed_values(eq, da, sa, np.dtype("float64"), K)
                # no zeros where there is a choice: 0 is a fixed point of most formulas, so a neighbour that was converted along with
                # the view, or a dropped factor, would not show on it
                tile = [v for v in tile if v != 0] or tile
                stored = [float(tile[i % len(tile)]) for i in range(psize)]
                tgt_c, kw_c, s_c = XT, kw_sym, st
                tgt_i, kw_i, s_i = ub, {k: FIXED_KW[k] for k in EQ_KW.get(eq, [])}, sb
            si_parent = [v * sa for v in stored]
            xs_view = [stored[i] for i in idx]
            si_view = [si_parent[i] for i in idx]

            def fresh(registry=None):
                arr = np.empty(pshape, dtype=object if (kind == "sym" and ctx.symbolic) else float)
                for i, ix in enumerate(np.ndindex(*pshape)):
                    arr[ix] = stored[i]
                if fortran:
                    arr = np.asfortranarray(arr)
                parent = unyt.unyt_array(arr, ua, registry=registry)
                if not writable:
                    parent.flags.writeable = False
                return parent, sel(parent)

            def parent_is(parent, positions):
                flat = payload(parent)
                return all_exact([flat[i] for i in positions], [stored[i] for i in positions])

            def want_unit(u, tgt):
                if tgt == XT:
                    return And(exact_eq(u.base_value, s_c), str(u) == XT, u.dimensions == dim_obj(mods, db), u.base_offset == 0.0)
                return unit_is(ctx, u, tgt)

            if kind == "f8":
                # table target and fixed keywords first: all numbers are concrete, so purity, independence and the formula are
                # settled whatever a changed library does later with a term it cannot store in a float buffer
                for spell in spells:
                    L = f"{layout}/{spell}/table target"
                    for e in COPY_ENTRIES:
                        parent, q = fresh()
                        u0 = q.units
                        vals, u, r = run_entry(ctx, q, tgt_i, eq, kw_i, e, spell)
                        ctx.require(f"{L}/returns a value/{e}", vals is not None and len(vals) == len(idx))
                        ctx.require(f"{L}/input and its parent buffer untouched/{e}",
                                    And(parent_is(parent, range(psize)), all_exact(payload(q), xs_view), q.units is u0, unit_is(ctx, q.units, ua), unit_is(ctx, parent.units, ua)))
                        if vals is None:
                            continue
                        ctx.require(f"{L}/fresh object/{e}", independent(r, q) and independent(r, parent))
                        ctx.require(f"{L}/formula/{e}", And(*[formula_holds(eq, da, db, xi, y * s_i, K, kw_i.get("mu"), kw_i.get("gamma")) for xi, y in zip(si_view, vals)]), entry=e)
                        if u is not None:
                            ctx.require(f"{L}/unit/{e}", unit_is(ctx, u, tgt_i), got=str(u))
            ref = None
            for spell in spells:
                L = f"{layout}/{spell}"
                for e in COPY_ENTRIES:
                    parent, q = fresh(reg)
                    u0 = q.units
                    vals, u, r = run_entry(ctx, q, tgt_c, eq, kw_c, e, spell)
                    ctx.require(f"{L}/returns a value/{e}", vals is not None and len(vals) == len(idx))
                    if vals is None:
                        continue
                    if spell == spells[0]:
                        ctx.observe(f"{layout}/{e}", [y * s_c for y in vals])
                    ctx.require(f"{L}/formula/{e}", And(*[formula_holds(eq, da, db, xi, y * s_c, K, kw_c.get("mu"), kw_c.get("gamma")) for xi, y in zip(si_view, vals)]), entry=e)
                    if u is not None:
                        ctx.require(f"{L}/unit/{e}", want_unit(u, tgt_c), got=str(u))
                    ctx.require(f"{L}/shape/{e}", tuple(np.shape(r)) == tuple(np.shape(q)), got=str(np.shape(r)))
                    ctx.require(f"{L}/fresh object/{e}", independent(r, q) and independent(r, parent))
                    if ref is None:
                        ref = vals
                    else:
                        ctx.require(f"{L}/entry points agree/{e}", all_close(vals, ref))
                    ctx.require(f"{L}/input and its parent buffer untouched/{e}",
                                And(parent_is(parent, range(psize)), all_exact(payload(q), xs_view), q.units is u0, unit_is(ctx, q.units, ua), unit_is(ctx, parent.units, ua)))
            if not writable:
                continue
            parent, q = fresh()
            cref = payload(request(ctx, q, tgt_i, eq, kw_i, "to_equivalent"))
            for spell in spells:
                L = f"{layout}/{spell}"
                for e in INPLACE_ENTRIES:
                    parent, q = fresh()
                    vals, u, r = run_entry(ctx, q, tgt_i, eq, kw_i, e, spell)
                    ctx.require(f"{L}/returns a value/{e}", vals is not None and len(vals) == len(idx))
                    if vals is None:
                        continue
                    if spell == spells[0]:
                        ctx.observe(f"{layout}/{e}", vals)
                    ctx.require(f"{L}/in-place is in place/{e}", r is q and (q is parent or bool(np.shares_memory(np.asarray(q), np.asarray(parent)))))
                    ctx.require(f"{L}/in-place == copy numbers/{e}", all_close(payload(q), cref), entry=e)
                    ctx.require(f"{L}/in-place == copy unit/{e}", unit_is(ctx, q.units, tgt_i), got=str(q.units))
                    ctx.require(f"{L}/formula/{e}", And(*[formula_holds(eq, da, db, xi, y * s_i, K, kw_i.get("mu"), kw_i.get("gamma")) for xi, y in zip(si_view, payload(q))]), entry=e)
                    # the parent sees the view's new numbers at the view's positions and nothing else
                    flat = payload(parent)
                    ctx.require(f"{L}/in-place rewrites the view's elements only/{e}", And(parent_is(parent, others), all_exact([flat[i] for i in idx], payload(q)), unit_is(ctx, parent.units, ua) if q is not parent else True))
            # there and back through the view
            parent, q = fresh()
            back = request(ctx, request(ctx, q, tgt_i, eq, kw_i, "to_equivalent"), ua, eq, kw_i, "to_equivalent")
            ctx.require(f"{layout}/there-and-back", And(same_values(eq, da, payload(back), xs_view, sa, K), unit_is(ctx, back.units, ua), parent_is(parent, range(psize))))

    tag = "all" if len(layouts) == len(LAYOUTS) else "+".join(layouts)
    return Case(f"C09/layout/{kind}/{tag}/{eq}/{da}>{db}/{ua}>{ub}", h,
                bounds=("symbolic: every element of the parent buffer, mu, gamma; concrete table units" if kind == "sym" else
                        "real float64 parent buffer with enumerated values; symbolic: scale of the target unit, mu, gamma (copying forms)") + "; every call form",
                budget_s=1800 if eq in NONLINEAR else 600, weight=10 if eq == "lorentz" else (4 if eq in NONLINEAR else 1))


def _cover(A, B):
    """a covering set of (input unit, target unit) pairs: every unit of A is an input and every unit of B a target at least once"""
    n = max(len(A), len(B))
    return [(A[i % len(A)], B[i % len(B)]) for i in range(n)]


def history_cases(quick):
    out = []
    seen = set()

    def add(eq, steps, k):
        """the probed direction and units rotate with k so that every direction / unit is met after some history"""
        perms = list(itertools.permutations(EQ_DIMS[eq], 2))
        for da, db in ([perms[k % len(perms)]] if quick or len(steps) > 1 else perms[:4]):
            pairs = _cover(UNITS[da], UNITS[db])
            ua, ub = pairs[k % len(pairs)]
            c = make_call_history_case(eq, da, db, ua, ub, tuple(steps))
            if c.id not in seen:
                seen.add(c.id)
                out.append(c)

    for n, eq in enumerate(EQ_DIMS):
        kinds = kinds_for(eq)
        # one earlier request, on the same equivalence and on a sibling that shares a member dimension
        k = n
        for seq in (eq, SIBLING[eq]):
            for kind in kinds_for(seq):
                add(eq, [(kind, seq)], k)
                k += 1
        # two earlier requests on the same equivalence: all ordered pairs (quick: all for thermal, a rotating 1/16 slice elsewhere)
        full2 = quick or eq in ("thermal", "number_density")  # thorough: all 256 ordered pairs for these two, the 49 core pairs elsewhere
        pairs2 = list(itertools.product(kinds, kinds)) if full2 else list(itertools.product(CORE_KINDS, CORE_KINDS))
        if quick and eq != "thermal":
            pairs2 = pairs2[n % 16::16]
        for k, (k1, k2) in enumerate(pairs2):
            add(eq, [(k1, eq), (k2, eq)], k + n)
        # three earlier requests: a failing in-place request first (quick, thermal) / all triples of the core kinds (thorough, linear)
        if eq == "thermal" or (not quick and eq in ("mass_energy", "number_density")):
            firsts = ["inplace-refused", "inplace-badkw"] if quick or eq != "thermal" else CORE_KINDS
            for k, (k1, k2, k3) in enumerate(itertools.product(firsts, CORE_KINDS, CORE_KINDS)):
                add(eq, [(k1, eq), (k2, eq), (k3, eq)], k)
    return out


def cases(tier, mods):
    out = []
    shapes = [(), (2,)]
    quick = tier == "quick"
    # ---- ordered pairs
    for eq, dims in EQ_DIMS.items():
        for da, db in itertools.permutations(dims, 2):
            pairs = _cover(UNITS[da], UNITS[db]) if quick else list(itertools.product(UNITS[da], UNITS[db]))
            for ua, ub in pairs:
                for shape in shapes:
                    out.append(make_pair_case(eq, da, db, ua, ub, shape))
    # ---- triples
    for eq in ("spectral", "sound_speed"):
        for k, (da, db, dc) in enumerate(itertools.permutations(EQ_DIMS[eq], 3)):
            A, B, C = UNITS[da], UNITS[db], UNITS[dc]
            if quick:
                n = max(len(A), len(B), len(C)) if eq == "sound_speed" else 2
                combos = [(A[(i + k) % len(A)], B[(i + k) % len(B)], C[(i + k) % len(C)]) for i in range(n)]
                shp = [shapes[k % 2]]
            else:
                combos = list(itertools.product(A, B, C))
                shp = shapes
            for ua, ub, uc in combos:
                for shape in shp:
                    out.append(make_triple_case(eq, da, db, dc, ua, ub, uc, shape))
    # ---- keyword defaults
    for eq in EQ_KW:
        for da, db in itertools.permutations(EQ_DIMS[eq], 2):
            pairs = _cover(UNITS[da], UNITS[db])[: 1 if quick else None]
            for ua, ub in pairs:
                out.append(make_default_kw_case(eq, da, db, ua, ub, () if quick else (2,)))
    # ---- history independence of the keyword parameters
    for eq, kws in EQ_KW.items():
        for da, db in itertools.permutations(EQ_DIMS[eq], 2):
            ua, ub = _cover(UNITS[da], UNITS[db])[0]
            for vary in kws:
                out.append(make_history_case(eq, da, db, ua, ub, vary))
    # ---- call histories: 1, 2 and 3 earlier requests, then the whole battery
    out += history_cases(quick)
    # ---- call histories across equivalences: the same (from, to) pair through an equivalence that covers it and one that does not
    out += cross_cases(quick, mods)
    # ---- dtype axis
    check_names(mods, [XT])
    K = consts(mods)
    k = 0
    sizes = sorted(set(LADDER) | {m for t in source_sizes() for m in (t, t + 1)})
    npoints = len(SIZE_DTYPES) * len(sizes)
    low_bases = []
    for eq, dims in EQ_DIMS.items():
        for da, db in itertools.permutations(dims, 2):
            pairs = _cover(UNITS[da], UNITS[db])
            for j, dt in enumerate(TYPED_DTYPES[: 6 if quick else None]):
                # int64 (what a python int becomes) meets every unit of the cover, the other dtypes rotate through it in the quick tier;
                # thorough: int64, float64, int32, uint8, float32 meet every unit of the cover, the other five rotate
                for ua, ub in ([pairs[(j + k) % len(pairs)]] if (quick and dt not in ("int64", "float64")) or j >= 5 else pairs):
                    if typed_values(eq, da, float(mods["unyt"].Unit(ua).base_value), dt, K):  # e.g. no uint8 holds gamma >= 100 % squared
                        # quick: int64 and float64 as array and as 0-d quantity, the other dtypes alternate between the two
                        forms = ("array", "scalar") if not quick or dt in ("int64", "float64") else (("array", "scalar")[(j + k) % 2],)
                        c = make_dtype_case(eq, da, db, ua, ub, dt, forms)
                        out.append(c)
                        if dt in SIZE_DTYPES:
                            low_bases.append((k, c))
            # ---- size axis: real typed buffers with n elements
            for j, (dt, n) in enumerate(itertools.product(SIZE_DTYPES, sizes)):
                # quick: float64 at the top of the ladder for every ordered pair, and two further (dtype, size) points that rotate
                # with the pair; thorough: every (dtype, size) point for every ordered pair, units and shape forms rotate
                if quick and not (dt == "float64" and n == LADDER[-1]) and (j + 5 * k) % npoints not in (0, npoints // 2):
                    continue
                ua, ub = pairs[(j + k) % len(pairs)]
                if typed_values(eq, da, float(mods["unyt"].Unit(ua).base_value), dt, K):
                    out.append(make_size_case(eq, da, db, ua, ub, dt, n, SIZE_FORMS[(j + k) % len(SIZE_FORMS)] if n > 16 else "1d"))
            # ---- bases of the lowered-constant configurations: the pair battery on 3 and 2 symbolic elements
            ua, ub = pairs[k % len(pairs)]
            low_bases.append((k, make_pair_case(eq, da, db, ua, ub, (3,))))
            if not quick:
                low_bases.append((k, make_pair_case(eq, da, db, ua, ub, (2,))))
                low_bases.append((k, make_symtarget_case(eq, da, db, ua, (3,))))
            # ---- layout / aliasing axis x call form x payload kind
            lays = list(LAYOUTS)
            # real float64 buffers: every layout and call form in one case; quick: one unit pair of the cover (rotating), thorough: all
            for i, (ua, ub) in enumerate(pairs):
                if quick and i != k % len(pairs):
                    continue
                if typed_values(eq, da, float(mods["unyt"].Unit(ua).base_value), "float64", K):
                    out.append(make_layout_case(eq, da, db, ua, ub, tuple(lays), "f8", not quick))
            # symbolic payloads: quick two layouts per ordered pair (rotating), thorough all of them in groups of three
            # (lorentz: layouts whose view has 4 elements - two roots each - cost minutes and are left to the f8 kind)
            sym_lays = [l for l in lays if not (eq == "lorentz" and len(LAYOUTS[l][0]) == 2 and l != "column")]
            groups = [[sym_lays[(2 * k) % len(sym_lays)], sym_lays[(2 * k + 1) % len(sym_lays)]]] if quick else [sym_lays[i:i + 3] for i in range(0, len(sym_lays), 3)]
            for i, g in enumerate(groups):
                ua, ub = pairs[(i + k + 1) % len(pairs)]
                out.append(make_layout_case(eq, da, db, ua, ub, tuple(dict.fromkeys(g)), "sym", not quick))
            # ---- target unit of symbolic scale, symbolic payload
            for j, ua in enumerate(UNITS[da]):
                if quick and j != k % len(UNITS[da]):
                    continue
                for shape in ([shapes[k % 2]] if quick else shapes):
                    out.append(make_symtarget_case(eq, da, db, ua, shape))
                # larger symbolic payloads (every element its own z3 real): 3 and 17 (non-linear formulas: 5) elements, rank 2; quick: one of them per pair
                for i, shape in enumerate(BIG_SHAPES_NONLINEAR if eq in NONLINEAR else BIG_SHAPES):
                    if (not quick and j == 0) or (quick and j == k % len(UNITS[da]) and i == k % len(BIG_SHAPES)):
                        out.append(make_symtarget_case(eq, da, db, ua, shape))
            k += 1
    # ---- integer constants of the library re-bound to LOW: each one alone and (if there are several) all together
    thr = size_constants()
    configs = [[t] for t in thr] + ([thr] if len(thr) > 1 else [])
    for ci, cfg in enumerate(configs):
        for k, base in low_bases:
            # quick: with several constants the single-constant configurations share the bases between them, 'all together' runs all
            if quick and len(configs) > 1 and ci < len(thr) and (k + ci) % len(thr):
                continue
            out.append(lowered_case(base, cfg, thr_tag(cfg)))
    # ---- uncovered requests
    for eq in EQ_DIMS:
        for da, uas in ALL_DIM_UNITS.items():
            for ua in (uas[:1] if quick else uas):
                for shape in ([()] if quick else shapes):
                    out.append(make_uncovered_case(eq, da, ua, shape))
    # ---- offset temperature scales
    for eq, dx, ux in T_EQS:
        for ut in OFFSET_UNITS:
            for shape in ([()] if quick else shapes):
                out.append(make_offset_target_case(eq, dx, ux, ut, shape))
                out.append(make_offset_input_case(eq, dx, ut, ux, shape))
    return out
