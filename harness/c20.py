"""C20 - the unit-string interface: print -> parse round trip and equivalent spellings (the applicable half).

The totality half of the property (every string either parses or raises UnitParseError; fuzzing of malformed input) is NOT
claimed: the string goes through str.replace, tokenize, sympy's transformation pipeline and eval, none of which can run on a
symbolic string; walking concrete malformed strings would be fuzzing, not solving."""
import random
from fractions import Fraction

from .common import EXPONENTS, PREFIX, And, Case, Or, call, check_names, exact_eq
from .common import close as plain_close
from .unitterms_common import (A, Dv, K, M, Mono, P, S, atoms_of, build, catalogue, depth, dimvec, lcm, mono, mono_dimvec, mono_scale,
                               numeric_coefficient, positive_scale, root_degree, tid)
from .unitterms_common import mclose as close
from .unitterms_common import RATIO_PAIRS, eval_expr, exponent_value, fstr, table_unit

LEVEL = "other"
F = Fraction
MANIFEST = dict(
    category="other",
    text=("PARTIAL: only the print->parse round trip and the equivalent-spellings clause. Units are built by the real Unit operators "
          "from atoms xa, xb, k+xa, an offset unit, %, and table units (incl. the unicode-named ohm, angstrom, micro-prefixed and degree-sign "
          "ones) in a registry whose custom scales/offset are z3 reals; terms up to depth 3 with exponents from E, optional simplify() "
          "and numeric coefficients. str(u) and repr(u) are CONCRETE strings pushed through the real parser; what the solver decides "
          "is that the re-read unit's scale (a term over the registry's symbolic scales, produced by the real _get_unit_data_from_expr/"
          "_lookup_unit_symbol) equals the original's for ALL positive scales, and likewise the offset; dimensions, expression identity "
          "and hash are concrete comparisons. Term shapes, names, exponents, coefficients and spellings are enumerated. The re-reading is also "
          "done ACROSS A HISTORY run inside one path: the unit is made, printed and hashed (by the caller, as dict key / set member, or inside "
          "unyt's lru caches through q*q, q.to(u), get_base_equivalent), then its registry (fresh, copy.copy, deepcopy, or the process-global "
          "default one) goes through one to three of add / add offset+prefixable / define_unit / modify / modify to the same value / modify "
          "by a quantity / remove / remove+re-add / first lookup of prefixed names / edit of a sibling copy / early printing, with symbolic new "
          "values on symbols the unit does not mention, and only then the text (taken before and after) is read again from a cold and a warm "
          "unit-object cache: equal unit for all scales, identical expression, hash(v) == hash(u) now, one set element, mutual dict hits. "
          "NAMES THE VOCABULARY ALREADY KNOWS (C20/names): the registry gets a row - z3-real scale/offset, added by add / add prefixable / add with offset / "
          "define_unit, in a fresh registry or the process-global default one - under a name that is a documented alternative spelling (au, in, um, meter), "
          "an SI-prefix reading (mH, kpc, cm, k+xa), a table key (m, pc, degC) or fresh, and every history of {bare read, full use, add, modify, remove, modify "
          "the prefix base} up to length 2/3 (4 sampled) runs on that name; then 12 spellings of the bare name (incl. utf-8 bytes) are read from the cache the "
          "history left and from an empty one: one outcome, one unit, identical expression/hash, the reading an independent reference model of the table gives "
          "(row, else prefix + prefixable row; for a row under a documented alternative spelling: that row or the documented unit, the same everywhere), and 13 "
          "arithmetic results on the unit from the bare string and from a compound spelling are printed and re-read warm and cold. "
          "THE EXPONENT OBJECT (C20/powform): base term x exponent x the Python object it arrives as (Fraction/int, float, numpy float64/float32/int64, decimals cut "
          "after 7 and 8 places, sympy Rational/Float, str, Decimal) x route (Unit ** e, quantity ** e, np.power, np.sqrt/cbrt/square/reciprocal on a quantity with "
          "symbolic payload): the unit must have the oracle's scale for the exponent it PRINTS and re-read to an equal unit for all scales. ARITHMETIC AFTER A "
          "COEFFICIENT (C20/coefop): origin of the numeric coefficient (integer-valued quantity, float quantity, string with integer / rational / decimal factor, bare "
          "sympy expression, simplify() of same-dimension factors) x value x 14 following operations (roots, powers, products, quotients, root-of-product, "
          "root x root), then print and re-read. NOT covered "
          "(not applicable to this technique): totality of the parser on arbitrary strings and rejection of malformed input."),
    design="DESIGN.md section 4 C20",
    technique="symbolic execution of the real Python code over z3 real terms (strings concrete); SMT obligations per path; counterexample replay")
EXPLANATION = (
    "Unit.__str__/__repr__, Unit.__new__ (string branch), parse_unyt_expr, _auto_positive_symbol, _get_unit_data_from_expr, "
    "_lookup_unit_symbol/_split_prefix, Unit.__eq__/__hash__ and the Unit operators that build the units run for real. For every "
    "enumerated unit u: v = Unit(str(u), registry) and Unit(repr(u), registry) (unit-object cache emptied first, also as utf-8 bytes) "
    "must parse; z3 decides per path pc & not(scale(v) close to scale(u) and offset(v) close to offset(u)) for all symbolic scales/"
    "offsets; dimension vectors, u == v, and - when the expression has no numeric coefficient - identical expression and hash are "
    "checked concretely; printing is a fixed point (str(v) == str(u)). Spelling groups: every member parses to a unit equal to the "
    "first, for all scales. Histories (C20/hist/<registry configuration>/<history>/<term>): one unit object per hashing route is built by the "
    "real operators, printed and hashed; UnitRegistry.add/modify/remove, define_unit, copy.copy and the prefixed-symbol lookup then run for real "
    "with z3 reals as new scales/offsets on symbols the unit does not mention (z3 decides that every edited symbol reads back with the "
    "harness' account of its scale, i.e. the history took effect); afterwards the texts printed before and after the history are re-read "
    "(cold and warm unit-object cache, text and utf-8 bytes) and compared with every one of the objects: scale/offset by z3 for all scales, "
    "dimension, equality both ways, identical expression, equal hash at that moment, set and dict behaviour, hash stability, unchanged print. "
    "The special-unit and spelling cases repeat their whole table after an add+modify+remove of unrelated symbols (units made and hashed before, "
    "texts read after). Unit caches are cleared by the runner only at the start of a path, so every history is one uninterrupted life of the "
    "registry and its units. Names (C20/names/<registry>/<class>-<name>/<form of add>/<history word>): UnitRegistry.add/modify/remove and define_unit run for "
    "real on a name that parse_unyt_expr/_auto_positive_symbol (documented alternative names), _lookup_unit_symbol/_split_prefix (SI-prefix fallback) or the table "
    "itself already answer to, interleaved with reads that fill the registry's unit-object cache; the new scales/offsets are z3 reals. Afterwards Unit(s) runs for 12 "
    "spellings s of the bare name - first without touching the cache, then from an empty cache - and z3 decides that each result has the scale/offset the harness' "
    "reference model of the table (_Rows: alternative spelling -> canonical name, row, else prefix x prefixable row) gives, for all scales; the units obtained from the "
    "bare string and from '1*name' go through **2, **-1, **0.5, /xc, xa*, (a*xc)/xc, (a**2)**0.5, *1, **1, xc**2/a**(3/2) and str()/repr() of each result is re-read "
    "warm and cold against the result. powform/coefop: the same round-trip obligations (make_rt_case) on terms whose outermost power gets its exponent in every "
    "accepted Python type (an exponent the library does not snap consistently leaves an uninterpreted pow(scale, e) term in the unit's scale: z3 then "
    "finds scales for which Unit.__eq__'s isclose fails and the replay on the plain library confirms), and on terms that apply further arithmetic to a unit "
    "that already carries an integer / rational / float coefficient, so that irrational numeric factors (sqrt(2), 2**(1/3), sqrt(10)/2) appear in the printed text."
)
BOUNDS = {
    "quick": "atoms {xa, xb, kxa, %, ohm-sign, angstrom-sign, micro-m}; all 196 terms of depth <= 1, 200 seeded of depth 2, 200 of depth 3 (root degree <= 36), each "
             "printed with str and repr and re-read from text and utf-8 bytes; 316 terms also written as strings in 4 surface syntaxes and compared with the "
             "arithmetic result; 120 simplify() terms over table/percent atoms + one symbolic atom; 138 simplify() terms over 22 same-dimension table pairs of non-integer and whole ratio (a/b, b/a, a/b*c, a**2/b, c/(a/b), a/b*ohm and compounds); 9 coefficients x 12 terms; powform: 3 base terms x 8 exponents x 11 exponent objects on Unit ** e (252) + 2 bases x 6 exponents x {quantity ** e, np.power} x 4 objects "
             "+ np.sqrt/cbrt/square/reciprocal (103); coefop: 35 coefficient origins/values on xa x 8-14 following operations + 4 simplify() origins x 14 (400); 10 groups of offset / "
             "logarithmic / temperature-difference / angle / bare-1 units (78 units); 42 spelling groups (~205 spellings), both tables once more after add+modify+remove of "
             "unrelated symbols; histories: 31 terms (17 with oracle scale incl. simplify()/coefficient terms, 14 offset/log/angle/bare) x all 11 one-step histories in a fresh "
             "registry, 17 two-step (all 9 ordered pairs of add/modify/remove + 8 mixed) and 12 three-step histories (all 6 orders of add, modify, remove + 6 mixed) x 2 rotating terms, "
             "and all 40 histories x 1 rotating term in each of copy.copy(registry), deepcopy(registry) and the default registry (519 cases); in each case 7 hashing routes "
             "(+ the unit read from its own text) x str/repr x text printed before/after x cold/warm unit-object cache x text/bytes; "
             "names: 27 names (2 fresh, 11 documented alternative spellings, 8 SI-prefix readings incl. k/da/micro + the symbolic xa, 6 table keys) x the plain reading and every "
             "history over {r, o, A, M, X, B} of length <= 2 ending in an edit (plain add); every history of length 3 with one name per class; add prefixable / with offset / "
             "define_unit: every history of length <= 2 containing an add, one name per class and form (k+name observed too for prefixable rows); default registry: every "
             "history over {r, o, A} of length <= 3, one name per class and form (638 cases); per case 12 spellings x warm/cold cache and 13 arithmetic results x str/repr x warm/cold",
    "thorough": "same atoms; 1500 seeded terms of depth 2, 1500 of depth 3; 1396 terms in 4 surface syntaxes; 600 simplify() terms; 9 coefficients x 60 terms; powform: 7 base terms x 15 exponents x 11 objects, 5 bases x 15 exponents x 3 routes x 5 objects; coefop: 3 base terms per origin, "
                "all 14 operations; special and "
                "spelling tables as in quick; every table symbol and every SI-prefixed prefixable symbol alone and to the powers -1, 2, 1/2 over a symbolic xc (ground scales); "
                "histories as in quick with 8 rotating terms per multi-step history in the fresh registry and 4 per history in the three other registry configurations (1053 cases); "
                "names: every history of length <= 3 for all 27 names (plain add) and for three names per class in the three other forms, a seeded sample of 150 "
                "histories of length 4 per class, the default registry for every name, and 105 more names drawn with a fixed seed from unyt's tables (40 alternative "
                "spellings, 40 prefix readings, 25 keys) with every history of length <= 2 (4798 cases)",
}
OUTSIDE = ("NOT APPLICABLE and not claimed: totality (any string parses or raises UnitParseError, nothing else is evaluated) and malformed-input fuzzing. "
           "Also outside: strings are concrete (only scales/offsets are solver variables); float exponents that are not small rationals in disguise "
           "('xa**0.6666666666666666' is read as the exact decimal, unlike Unit.__pow__); the compatibility code points OHM SIGN U+2126 / ANGSTROM SIGN U+212B "
           "(not names of the table); persistence layers themselves (C11); a second registry (C13); rounding (A1). Histories: edits of a symbol the unit itself mentions "
           "(the old object then legitimately differs from what its text now denotes: C12), histories longer than three steps, units restored by pickle/JSON/HDF5 (the "
           "z3-valued table cannot be pickled: C11), hash equality between different registries or between a hash taken before an edit and one taken after it (the registry "
           "digest is part of the hash by design; only hashes asked at the same moment are compared). Names: WHICH reading a row under a documented alternative spelling "
           "gets (on the pinned tree the documented unit always wins, the user's row 'au' cannot be reached by a string: a C14 matter) is not decided here, only that it is the "
           "same in every spelling; histories on one name longer than 4 (quick: 3) steps; two colliding names in one registry; names that are not identifiers; the default "
           "registry's own keys are not redefined (process-global state)")
ASSUMPTIONS = ["MonoReal (harness/unitterms_common.py): a positive scale symbol is introduced as t**N; the exponent arithmetic that keeps products, "
               "quotients and rational powers of such scales in exact monomial form, and the reduction of closeness/isclose of two monomials over the "
               "same power product to their rational coefficients, are harness code",
               "unit strings are concrete: the parser (str.replace, tokenize, sympy transformations, eval) runs on real Python strings"]
CONFORM = {"quick": 40, "thorough": 120}

NAMES = ["xa", "xb", "xc", "xt", "xz"]
L_, M_, T_, TH_, ANG_, I_ = "(length)", "(mass)", "(time)", "(temperature)", "(angle)", "(current_mks)"
# independent table of the table units used as atoms (SI scale, dimension vector)
TAB = {
    "%": (0.01, {}), "Ω": (1.0, {M_: F(1), L_: F(2), T_: F(-3), I_: F(-2)}), "Å": (1e-10, {L_: F(1)}), "μm": (1e-6, {L_: F(1)}),
    "m": (1.0, {L_: F(1)}), "cm": (0.01, {L_: F(1)}), "km": (1000.0, {L_: F(1)}), "s": (1.0, {T_: F(1)}), "g": (1e-3, {M_: F(1)}),
    "kΩ": (1000.0, {M_: F(1), L_: F(2), T_: F(-3), I_: F(-2)}), "degree": (0.017453292519943295, {ANG_: F(1)}), "dimensionless": (1.0, {}),
}
ATOMS = ["xa", "xb", "kxa", "%", "Ω", "Å", "μm"]
SIMP_ATOMS = ["xb", "m", "cm", "km", "μm", "Å", "%", "s", "Ω", "kΩ"]
ATOM_DEF = {"kxa": Mono(F(1000), {"xa": F(1)})}
COEFS = [100.0, 0.01, 2.5, 1.0 / 3.0, 1e-7, 3.0856775809623245e+21, 6.62607015e-34, 7.0, 1e30]


def mono_expand(t):
    m = mono(t)
    out = Mono(m.coef, {})
    for a, e in m.exps.items():
        out = out * ((ATOM_DEF[a] if a in ATOM_DEF else Mono(F(1), {a: F(1)})) ** e)
    return out


class _Env(dict):
    def __init__(self, Unit, reg):
        super().__init__()
        self.Unit, self.reg = Unit, reg

    def __missing__(self, n):
        u = self.Unit(registry=self.reg) if n == "1" else self.Unit(n, registry=self.reg)
        self[n] = u
        return u


def make_env(ctx, N=1, offset_unit=False, extra=(), base=None, copied=False, spare=False):
    """the registry of a case: the default table plus symbolic-scale atoms xa (prefixable), xb, xc [, the offset unit xt] [, the spare
    symbols xd, xe that histories edit]. base: put the rows into this registry (the process-global default one) instead of a fresh
    one; copied: hand out copy.copy() of the registry the rows were put into."""
    D = ctx.mods["unyt"].dimensions
    reg = ctx.registry([]) if base is None else base
    sa, sb, sc = positive_scale(ctx, "ta", N), positive_scale(ctx, "tb", N), positive_scale(ctx, "tc", N)
    ctx.add_row(reg, "xa", D.length, sa, 0.0, prefixable=True)
    ctx.add_row(reg, "xb", D.mass, sb, 0.0)
    ctx.add_row(reg, "xc", D.time, sc, 0.0)
    scale_of = {"xa": sa, "xb": sb, "xc": sc}
    dimvec_of = {"xa": {L_: F(1)}, "xb": {M_: F(1)}, "xc": {T_: F(1)}}
    if spare:
        sd, se = positive_scale(ctx, "td", N), positive_scale(ctx, "te", N)
        ctx.add_row(reg, "xd", D.length, sd, 0.0)
        ctx.add_row(reg, "xe", D.mass, se, 0.0)
        scale_of["xd"], dimvec_of["xd"] = sd, {L_: F(1)}
        scale_of["xe"], dimvec_of["xe"] = se, {M_: F(1)}
    for n, (s, d) in TAB.items():
        scale_of[n], dimvec_of[n] = s, d
    if offset_unit:
        st, ot = positive_scale(ctx, "tt", 1), ctx.real("ot")
        ctx.add_row(reg, "xt", D.temperature, st, ot, prefixable=True)
        scale_of["xt"], dimvec_of["xt"] = st, {TH_: F(1)}
    for n in extra:
        if n not in scale_of and n not in ("kxa", "kxt"):
            scale_of[n], dimvec_of[n] = table_unit(n)
    if copied:
        import copy
        reg = copy.deepcopy(reg) if copied == "deep" else copy.copy(reg)
    return reg, _Env(ctx.mods["unyt"].Unit, reg), scale_of, dimvec_of


def roundtrip(ctx, tag, u, reg, want=None, want_dims=None, observe=True, bare_identity=False):
    """Unit(str(u)) and Unit(repr(u)) against u. `want`: the oracle's scale of u (None: compare with u only).
    A unit whose expression is the bare number 1 prints as 'dimensionless'; whether that re-reads to the identical expression is
    asserted once, in the C20/special/bare-one cases (bare_identity=True), not in every catalogue term that happens to reduce to 1."""
    Unit = ctx.mods["unyt"].Unit
    coef = numeric_coefficient(u.expr)
    bare = u.expr == 1
    h_u = hash(u)
    bare_same = []
    for fname, f in (("str", str), ("repr", repr)):
        s = f(u)
        t = f"{tag} {fname}"
        reg._unit_object_cache.clear()
        r = call(lambda: Unit(s, registry=reg))
        ctx.require(f"{t}: parses", r[0] == "ok", printed=s, got=r[1], unit=repr(u))
        if r[0] != "ok":
            continue
        v = r[1]
        ctx.require(f"{t}: same dimension", dimvec(v.dimensions) == dimvec(u.dimensions), printed=s)
        ctx.require(f"{t}: same scale for all scales", close(v.base_value, u.base_value), printed=s)
        ctx.require(f"{t}: same offset", close(v.base_offset, u.base_offset), printed=s)
        ctx.require(f"{t}: equal unit", bool(v == u) and bool(u == v), printed=s)
        if want is not None:
            ctx.require(f"{t}: denotes the unit that was written (oracle scale, dimension)", And(close(v.base_value, want), dimvec(v.dimensions) == want_dims), printed=s)
        if bare:
            bare_same.append(v.expr == u.expr and hash(v) == h_u and f(v) == s)
        elif coef == 1:
            ctx.require(f"{t}: identical expression and hash (no numeric coefficient)", And(v.expr == u.expr, hash(v) == h_u), printed=s, reread=repr(v))
            ctx.require(f"{t}: printing is a fixed point", f(v) == s, printed=s, reprinted=f(v))
        reg._unit_object_cache.clear()
        rb = call(lambda: Unit(s.encode("utf-8"), registry=reg))
        ctx.require(f"{t}: the utf-8 bytes of the text read as the text does",
                    rb[0] == "ok" and And(rb[1].expr == v.expr, close(rb[1].base_value, v.base_value), close(rb[1].base_offset, v.base_offset), dimvec(rb[1].dimensions) == dimvec(v.dimensions)),
                    printed=s, got=rb[1])
        if observe:
            ctx.observe(f"{t}: scale", v.base_value)
            ctx.observe(f"{t}", s)
    if bare and bare_identity:
        ctx.require(f"{tag}: the bare-1 unit re-reads to the identical expression, hash and print", all(bare_same), printed=str(u))


def _via_quantity(ctx, t, env, reg, via):
    """the outermost power of the term taken on a QUANTITY in the base unit (symbolic payload); the unit is read off the result"""
    import numpy as np
    base = build(t[1], env, ctx.mods, reg)
    e = exponent_value(t[2], t[3])
    q = ctx.quantity(ctx.real("pay", pos=True), base, reg)
    if via == "q**e":
        return (q ** e).units
    if via == "np.power(q,e)":
        return np.power(q, e).units
    if via == "np.sqrt(q)":
        return {F(1, 2): np.sqrt, F(1, 3): np.cbrt, F(2): np.square, F(-1): np.reciprocal}[t[2]](q).units
    raise KeyError(via)


def make_rt_case(t, family="rt", idx=None, cid=None, via=None):
    N = root_degree(t)

    names = sorted(atoms_of(t))

    def h(ctx):
        reg, env, scale_of, dimvec_of = make_env(ctx, N=N, extra=names)
        m = mono_expand(t)
        u = build(t, env, ctx.mods, reg) if via is None else _via_quantity(ctx, t, env, reg, via)
        want, wd = mono_scale(m, scale_of), mono_dimvec(m, dimvec_of)
        ctx.require("built unit has the oracle's scale and dimension", And(close(u.base_value, want), dimvec(u.dimensions) == wd))

        def lookup(n):
            if n == "kxa":
                return scale_of["xa"] * PREFIX["k"], dict(dimvec_of["xa"])
            return table_unit(n)
        es, ed = eval_expr(u.expr, scale_of, dimvec_of, lookup=lookup)
        ctx.require("the expression that will be printed (numeric coefficient x remaining units) denotes the built unit's scale and dimension",
                    And(close(es, want), ed == wd), expr=repr(u))
        roundtrip(ctx, "round trip", u, reg, want, wd)
    if cid is None:
        cid = f"C20/{family}/d{depth(t)}/{tid(t)}" if idx is None else f"C20/{family}/{idx:03d}/{tid(t)}"
    return Case(cid, h, group=family)


# ----------------------------------------------------------------------------- the exponent handed to ** : one rational, many clothes
#
# Unit.__pow__ accepts whatever Rational(str(p)) accepts and snaps it to the nearest simple fraction; expression, dimensions and
# scale must all be raised to that ONE exponent, else the unit prints an exponent its scale does not have. Axis: base term x
# exponent x the Python object the exponent arrives as x the route (Unit ** e, quantity ** e, np.power, np.sqrt/cbrt/square/reciprocal).

POW_FORMS = ["frac", "float", "npfloat", "sympy", "str", "f32", "dec7", "dec8", "sfloat", "npint", "decimal"]
POW_EXPS = [F(1, 3), F(2, 3), F(-1, 3), F(1, 7), F(3, 2), F(1, 2), F(2), F(-1), F(-1, 2), F(1, 6), F(5, 3), F(1, 9), F(1, 10), F(-3), F(4, 3)]
POW_BASES = [A("xa"), A("μm"), Dv(A("xa"), P(A("xc"), 2)), A("kxa"), M(A("xa"), A("xb")), P(A("xb"), F(1, 2)), K(1000, A("xa"), "strint")]
POW_VIAS = ["q**e", "np.power(q,e)", "np.sqrt(q)"]


def powform_cases(quick):
    out = []
    bases = POW_BASES[:3] if quick else POW_BASES
    exps = POW_EXPS[:8] if quick else POW_EXPS
    for b in bases:
        for p in exps:
            for form in POW_FORMS:
                if form == "npint" and p.denominator != 1:
                    continue
                t = P(b, p, form)
                if root_degree(t) <= 36:
                    out.append(make_rt_case(t, "powform", cid=f"C20/powform/u**e/{form}/{tid(P(b, p))}"))
    for b in bases[:2] if quick else bases[:5]:
        for p in exps[:6] if quick else exps:
            for via in POW_VIAS:
                forms = ["float"] if via == "np.sqrt(q)" else (["float", "f32", "dec7", "npfloat"] if quick else ["float", "f32", "dec7", "npfloat", "dec8"])
                if via == "np.sqrt(q)" and p not in (F(1, 2), F(1, 3), F(2), F(-1)):
                    continue
                for form in forms:
                    t = P(b, p, form)
                    out.append(make_rt_case(t, "powform", cid=f"C20/powform/{via}/{form}/{tid(P(b, p))}", via=via))
    return out


# ----------------------------------------------------------------------------- arithmetic AFTER the unit got a numeric coefficient
#
# A numeric coefficient comes from a quantity handed to Unit(), from a string ("2*xa", "5*xa/2", "2.5*xa"), from a bare sympy
# expression, or from simplify() on same-dimension factors. The families above print such a unit as it is; here it first goes through
# further unit arithmetic - roots turn an integer/rational coefficient into an irrational numeric factor (sqrt(2)*sqrt(xa)), products
# merge coefficients - and only then is printed and re-read. Axis: origin of the coefficient x its value x the operation that follows.

COEF_SPECS = [(c, k) for c in (2, 3, 10, 1000, 4, 8) for k in ("qint", "strint", "exprrat")] + \
             [(c, k) for c in (F(5, 2), F(1, 3), F(2, 3), F(1, 8), F(9, 4)) for k in ("strrat", "exprrat")] + \
             [(c, k) for c in (2.5, 1e-7, 2.0) for k in ("qfloat", "strfloat")]
COEF_SIMP = [S(Dv(P(A("m"), 2), A("cm"))), S(M(Dv(A("km"), A("cm")), A("xb"))), S(M(Dv(A("mile"), A("km")), A("xb"))), S(Dv(M(A("yr"), A("xb")), A("day")))]
COEF_OPS = [("^1|2", lambda k: P(k, F(1, 2))), ("^1|3", lambda k: P(k, F(1, 3))), ("^-1|2", lambda k: P(k, F(-1, 2))), ("^3|2", lambda k: P(k, F(3, 2))),
            ("^2", lambda k: P(k, 2)), ("^-1", lambda k: P(k, -1)), ("*xc", lambda k: M(k, A("xc"))), ("xc:", lambda k: Dv(A("xc"), k)),
            ("(*xc)^1|2", lambda k: P(M(k, A("xc")), F(1, 2))), ("^1|2*^1|2", lambda k: M(P(k, F(1, 2)), P(k, F(1, 2)))),
            ("^1|2float", lambda k: P(k, F(1, 2), "float")), ("^2|3", lambda k: P(k, F(2, 3))), ("(^1|2)^3", lambda k: P(P(k, F(1, 2)), 3)),
            ("^1|2:xc", lambda k: Dv(P(k, F(1, 2)), A("xc")))]


def coefop_cases(quick):
    out = []
    for j, (c, kind) in enumerate(COEF_SPECS):
        bases = [A("xa")] if quick else [A("xa"), Dv(A("xa"), A("xb")), A("μm")]
        for b in bases:
            k = K(c, b, kind)
            ops = COEF_OPS if not quick else (COEF_OPS[:8] if j % 3 else COEF_OPS)
            for name, f in ops:
                out.append(make_rt_case(f(k), "coefop", cid=f"C20/coefop/{kind}/{fstr(F(c).limit_denominator(10**9)) if not isinstance(c, float) else repr(c)}x{tid(b)}/{name}"))
    for k in COEF_SIMP:
        for name, f in COEF_OPS:
            out.append(make_rt_case(f(k), "coefop", cid=f"C20/coefop/simplify/{tid(k)}/{name}"))
    return out


# ----------------------------------------------------------------------------- strings written by a grammar vs the same term built by arithmetic

STYLES = ["paren", "float", "spaced", "sqrt-inv"]


def render(t, style):
    """a unit string for the term, in one of several equivalent surface syntaxes"""
    k = t[0]
    sp = " " if style == "spaced" else ""
    if k == "atom":
        return t[1]
    if k in ("mul", "div"):
        l, r = render(t[1], style), render(t[2], style)
        if t[2][0] != "atom":
            r = f"({r})"
        if t[1][0] == "pow" and style != "paren":
            l = f"({l})"
        return f"{l}{sp}{'*' if k == 'mul' else '/'}{sp}{r}"
    if k == "pow":
        b = render(t[1], style)
        if t[1][0] != "atom":
            b = f"({b})"
        p = t[2]
        if style == "sqrt-inv":
            if p == F(1, 2):
                return f"sqrt({render(t[1], style)})"
            if p == -1:
                return f"1/{b}"
            if p == F(-1, 2):
                return f"1/sqrt({render(t[1], style)})"
        if style == "float" and p.denominator in (1, 2):
            return f"{b}**{float(p)!r}"
        if p.denominator == 1 and p >= 0 and style != "paren":
            return f"{b}{sp}**{sp}{p.numerator}"
        return f"{b}{sp}**{sp}({p.numerator}{sp}/{sp}{p.denominator})" if p.denominator != 1 else f"{b}{sp}**{sp}({p.numerator})"
    raise KeyError(k)


def make_parse_case(t):
    N = root_degree(t)

    def h(ctx):
        reg, env, scale_of, dimvec_of = make_env(ctx, N=N)
        Unit = ctx.mods["unyt"].Unit
        m = mono_expand(t)
        want, wd = mono_scale(m, scale_of), mono_dimvec(m, dimvec_of)
        u = build(t, env, ctx.mods, reg)
        for style in STYLES:
            s = render(t, style)
            reg._unit_object_cache.clear()
            r = call(lambda: Unit(s, registry=reg))
            ctx.require(f"written as {style}: parses", r[0] == "ok", string=s, got=r[1])
            if r[0] != "ok":
                continue
            v = r[1]
            ctx.require(f"written as {style}: the unit the same arithmetic builds (scale for all scales, dimension, offset)",
                        And(close(v.base_value, u.base_value), close(v.base_value, want), dimvec(v.dimensions) == wd, exact_eq(v.base_offset, 0.0), bool(v == u)), string=s)
            ctx.require(f"written as {style}: identical expression and hash", And(v.expr == u.expr, hash(v) == hash(u)), string=s, got=repr(v), built=repr(u))
            ctx.observe(style, s)
            ctx.observe(style + " scale", v.base_value)
    return Case(f"C20/parse/d{depth(t)}/{tid(t)}", h, group="parse")


# ----------------------------------------------------------------------------- offset / special units (hand-written terms)

def special_terms():
    """kind -> list of terms; one case per kind (the obligations' labels carry the kind, `info` carries the term)"""
    T = ["xt", "kxt", "degC", "degF", "K", "R", "mdegC", "kdegC", "μdegC", "mdelta_degC", "lat", "lon", "degree", "rad", "dB", "Np"]
    out = {"atoms": [A(n) for n in T], "delta-atoms": [A("delta_degC"), A("delta_degF")]}
    out["offset-times-one"] = [f(A(n)) for n in ("xt", "degC", "degF", "lat", "dB") for f in (lambda a: M(a, A("1")), lambda a: M(A("1"), a), lambda a: Dv(a, A("1")))]
    out["offset-product"] = [f(A(n)) for n in ("xt", "degC", "degF", "lat")
                             for f in (lambda a: M(a, A("%")), lambda a: M(A("%"), a), lambda a: Dv(a, A("%")), lambda a: M(a, A("dimensionless")))]
    out["log-product"] = [f(A(n)) for n in ("dB", "Np") for f in (lambda a: M(a, A("%")), lambda a: M(A("%"), a), lambda a: Dv(a, A("%")), lambda a: M(a, A("dimensionless")))]
    out["offset-first-power"] = [P(A(n), 1) for n in ("xt", "degC", "lat")]
    out["powers"] = [P(A(n), p) for n in ("xt", "degC", "K", "delta_degC", "degree") for p in (2, -1, F(1, 2))]
    out["compounds"] = [Dv(A("xa"), A("K")), Dv(A("xa"), A("delta_degC")), M(A("xb"), A("delta_degF")), Dv(A("degree"), A("xc")), M(A("rad"), A("xa")),
                        Dv(A("xa"), M(A("K"), A("%")))]
    out["bare-one"] = [Dv(A("xa"), A("xa")), A("1"), Dv(A("%"), A("%")), P(A("xb"), 0)]
    out["named-dimensionless"] = [A("dimensionless"), M(A("dimensionless"), A("xa"))]
    return out


def make_special_case(kind, terms):
    def h(ctx):
        reg, env, scale_of, dimvec_of = make_env(ctx, N=2, offset_unit=True, spare=True)
        n_printed = 0
        built = []
        for t in terms:
            r = call(lambda: build(t, env, ctx.mods, reg))
            if r[0] != "ok":
                ctx.require(f"special ({kind}): an operation the unit algebra refuses raises InvalidUnitOperation", type(r[1]).__name__ == "InvalidUnitOperation", term=tid(t), got=r[1])
                continue
            n_printed += 1
            roundtrip(ctx, f"round trip ({kind})", r[1], reg, bare_identity=(kind == "bare-one"), observe=False)
            built.append(r[1])
        ctx.observe("units printed", n_printed)
        # the same units (hashed and printed above) once more after the registry has learnt, changed and forgotten unrelated symbols
        registry_edit(ctx, reg)
        for u in built:
            roundtrip(ctx, f"round trip ({kind}) after a registry edit,", u, reg, observe=False)
    return Case(f"C20/special/{kind}", h, group="special")


# ----------------------------------------------------------------------------- equivalent spellings

SPELL = [
    # (identical expression expected?, [spellings]) - the first one is the reference
    (True, ["xa**-1", "1/xa", "xa**(-1)", "xa**-1.0", " 1 / xa ", "1/(xa)", "(xa)**-1", "xa**(-1/1)", "1.0/xa", "xa**-1.0000"]),
    (True, ["xa**0.5", "sqrt(xa)", "xa**(1/2)", "xa**(0.5)", "xa ** 0.5", "xa**.5", "(xa**0.25)**2", "sqrt(sqrt(xa**2))"]),
    (True, ["xa**1.5", "xa**(3/2)", "xa*sqrt(xa)", "sqrt(xa**3)", "xa**1.50", "xa**(1.5)"]),
    (True, ["xa**(2/3)", "(xa**2)**(1/3)", "xa**(4/6)", "(xa**(1/3))**2"]),
    (True, ["xa**-0.5", "1/sqrt(xa)", "xa**(-1/2)", "sqrt(1/xa)", "1/xa**0.5"]),
    (True, ["xa*xb/xc", "xa * xb / xc", " xa*xb/xc ", "xb*xa/xc", "xa/xc*xb", "xa*(xb/xc)", "(xa*xb)/xc", "xa*xb*xc**-1", "xa\t*\txb/xc", "xa*xb/(xc)", "xa*xb*xc**-1.0"]),
    (True, ["xa**2", "xa*xa", "xa**2.0", "xa**(2)", "xa**(4/2)", "(xa)**2", "xa * xa", "xa**3/xa"]),
    (True, ["1/(xa*xb)", "1/xa/xb", "xa**-1*xb**-1", "(xa*xb)**-1", "1/(xb*xa)", "1 / ( xa * xb )"]),
    (True, ["sqrt(xa*xb)", "sqrt(xa)*sqrt(xb)", "(xa*xb)**0.5", "xa**0.5*xb**0.5"]),
    (True, ["kxa**2/xb**(3/2)", "kxa**2.0*xb**-1.5", "kxa*kxa/(xb*sqrt(xb))", "kxa ** 2 / xb ** ( 3 / 2 )"]),
    (True, ["μm", "µm", "um"]),
    (False, ["μm", "micrometer", "micrometre", "1e-6*m", "m/1e6"]),
    (True, ["Ω", "ohm", "Ohm"]),
    (False, ["Ω", "V/A"]),
    (True, ["kΩ", "kohm", "kOhm", "kiloohm"]),
    (False, ["μΩ", "µΩ", "uΩ", "µohm", "uohm", "microohm"]),
    (True, ["Å", "angstrom", "Angstrom"]),
    (False, ["Å", "1e-10*m", "0.1*nm"]),
    (True, ["°C", "degC", "celsius", "degree_celsius", "degree_Celsius"]),
    (True, ["°F", "degF", "fahrenheit", "degree_fahrenheit"]),
    (True, ["°", "degree", "deg"]),
    (True, ["k°C", "kdegC"]),
    (False, ["μdegC", "µ°C", "udegC", "u°C", "μ°C"]),
    (True, ["1/°", "1/degree", "degree**-1", "°**-1"]),
    (True, ["xa/°C", "xa/degC", "xa*degC**-1"]),
    (True, ["%", "percent"]),
    (False, ["%", "0.01*dimensionless", "dimensionless/100"]),
    (True, ["xa*%", "xa*percent", "%*xa", "percent * xa"]),
    (True, ["%**2", "%*%", "percent*percent", "percent**2", "% * %", "%*percent"]),
    (True, ["xa*%/(xb*%**3)", "xa/xb/%/%", "xa*%**-2/xb"]),
    (True, ["xa/%**2", "xa/percent**2", "xa*%**-2"]),
    (True, ["2.5*xa", "5*xa/2", "xa*2.5", "5/2*xa", "2.5 * xa", "2.50*xa", "25e-1*xa", "xa*5/2"]),
    (True, ["1e3*xa", "1000*xa", "1000.0*xa", "1E3*xa", "10**3*xa", "1e+3*xa"]),
    (False, ["1000*xa", "kxa"]),
    (False, ["J", "joule", "Joule", "kg*m**2/s**2", "N*m"]),
    (True, ["dimensionless", "(dimensionless)"]),
    (False, ["dimensionless", "1", "", "xa/xa", "xb**0"]),
    (True, ["delta_degC", "Δ°C"]),
    (True, ["delta_degF", "Δ°F"]),
    (True, ["xa/delta_degC", "xa/Δ°C"]),
    (True, ["xt", "xt*1", "1*xt", "xt/1", "(xt)", " xt "]),
    (True, ["kxt", "kxt*1"]),
]


def registry_edit(ctx, reg, N=2):
    """add + modify + remove of symbols no unit under test mentions, through the registry's own methods, with symbolic values"""
    D = ctx.mods["unyt"].dimensions
    reg.add("xq", positive_scale(ctx, "tq", N), D.force)
    reg.modify("xd", positive_scale(ctx, "tm", N))
    reg.remove("xe")


def make_spell_case(i, identical, group):
    def h(ctx):
        reg, env, scale_of, dimvec_of = make_env(ctx, N=6, offset_unit=True, spare=True)
        Unit = ctx.mods["unyt"].Unit
        ref = Unit(group[0], registry=reg)
        hash(ref)
        for when in ("", "after a registry edit, "):
            if when:
                # the reference unit was made (and hashed) before the edit, the spellings are read after it
                registry_edit(ctx, reg, 6)
            for s in group[1:]:
                reg._unit_object_cache.clear()
                r = call(lambda: Unit(s, registry=reg))
                ctx.require(f"{when}spelling: parses", r[0] == "ok", spelling=s, got=r[1])
                if r[0] != "ok":
                    continue
                v = r[1]
                ctx.require(f"{when}spelling: equal unit (dimension, offset, scale for all scales)",
                            And(dimvec(v.dimensions) == dimvec(ref.dimensions), close(v.base_offset, ref.base_offset), close(v.base_value, ref.base_value),
                                bool(v == ref)), spelling=s, reference=group[0])
                if identical:
                    ctx.require(f"{when}spelling: identical expression and hash", And(v.expr == ref.expr, hash(v) == hash(ref)), spelling=s, reference=group[0], got=repr(v))
                if not when:
                    ctx.observe(s, v.base_value)
            roundtrip(ctx, f"{when}spelling reference round trip", ref, reg, observe=False)
    name = group[0].replace("/", ":").replace("*", ".").replace(" ", "_") or "empty"
    return Case(f"C20/spell/{i:02d}-{name}", h, group="spell")


# ----------------------------------------------------------------------------- every table name (ground) - thorough only

def make_table_case(names, idx):
    def h(ctx):
        Unit = ctx.mods["unyt"].Unit
        reg = ctx.registry([])
        x = positive_scale(ctx, "tc", 2)
        ctx.add_row(reg, "xc", ctx.mods["unyt"].dimensions.time, x, 0.0)
        xc = Unit("xc", registry=reg)
        for n in names:
            u = Unit(n, registry=reg)
            roundtrip(ctx, f"table {n}", u, reg, observe=False)
            for p in (-1, 2, F(1, 2)):
                r = call(lambda: (u ** p) / xc)
                if r[0] == "ok":
                    roundtrip(ctx, f"table {n}**{p}/xc", r[1], reg, observe=False)
    return Case(f"C20/table/{idx:03d}-{names[0]}", h, group="table")


# ----------------------------------------------------------------------------- histories between the first hash / first print and the re-reading
#
# The clause "str() and repr() parse back to ... the identical expression and hash" is quantified over every unit obtainable from
# strings or arithmetic - whatever happened to the unit and to its registry between the moment the unit was made (hashed, printed,
# used in a conversion) and the moment the text is read again. The families above re-read at once; this one enumerates that history.

# how the unit came to be hashed BEFORE the history: by the caller, or inside unyt's own lru caches (keyed on units)
ROUTES = ["hash()", "dict key", "set member", "lru of q*q", "lru of q.to(u)", "lru of get_base_equivalent", "not hashed"]

# one step of a history. `edits the table` = the registry's contents (hence its system id, hence every hash) change
EVENTS = ["add", "add-offset-prefixable", "define", "modify", "modify-same", "modify-quantity", "remove", "remove-readd", "prefixed-lookup",
          "sibling-copy-edit", "early-print"]
H1 = [(e,) for e in EVENTS]
H2 = [(a, b) for a in ("add", "modify", "remove") for b in ("add", "modify", "remove")] + [
    ("define", "remove"), ("early-print", "add"), ("prefixed-lookup", "modify"), ("add", "early-print"), ("sibling-copy-edit", "add"), ("remove-readd", "modify-same"),
    ("add-offset-prefixable", "prefixed-lookup"), ("modify-quantity", "define")]
H3 = [("add", "modify", "remove"), ("add", "remove", "modify"), ("modify", "add", "remove"), ("modify", "remove", "add"), ("remove", "add", "modify"),
      ("remove", "modify", "add"), ("modify", "modify", "add"), ("add", "add", "add"), ("define", "early-print", "remove"), ("remove-readd", "add", "modify-same"),
      ("prefixed-lookup", "add-offset-prefixable", "prefixed-lookup"), ("early-print", "modify-quantity", "sibling-copy-edit")]
CONFIGS = ["custom", "copied", "deepcopied", "default"]           # the registry the unit lives in
EDIT_NAMES = ["xd", "xe", "xq", "xr", "xs", "xv", "xw"]

HIST_TERMS = [A("xa"), A("kxa"), A("%"), A("Ω"), A("μm"), M(A("xa"), A("xb")), Dv(A("xa"), P(A("xc"), 2)), P(M(A("xa"), A("xb")), F(1, 2)),
              Dv(P(A("kxa"), 2), P(A("xb"), F(3, 2))), Dv(A("g"), P(A("cm"), 3)), M(P(A("Hz"), F(1, 2)), A("μm")), M(A("xa"), A("%")), Dv(A("xb"), M(A("Å"), A("xc"))),
              S(Dv(P(A("m"), 2), A("cm"))), S(M(Dv(A("mile"), A("km")), A("xb"))), K(2.5, A("xa")), K(1e-7, Dv(A("xa"), A("xb")))]
# no oracle scale for these (offset / logarithmic / angle / bare units): compared with the unit itself
HIST_SPECIAL = [A("xt"), A("kxt"), A("degC"), A("degF"), A("mdegC"), A("delta_degC"), Dv(A("xa"), A("K")), A("dB"), A("degree"), Dv(A("degree"), A("xc")),
                A("lat"), A("dimensionless"), A("1"), Dv(A("xa"), A("xa"))]


def first_hash(ctx, route, u, reg):
    if route.startswith("hash()"):
        hash(u)
    elif route == "dict key":
        return {u: route}
    elif route == "set member":
        return {u}
    elif route == "lru of q*q":           # array.py _multiply_units, cached on (registry ids, unit, unit)
        q = ctx.quantity(ctx.real("pay", pos=True), u, reg)
        call(lambda: q * q)
    elif route == "lru of q.to(u)":       # unit_object.py _check_em_conversion(unit, to_unit, registry=...)
        q = ctx.quantity(ctx.real("pay", pos=True), u, reg)
        call(lambda: q.to(u))
    elif route == "lru of get_base_equivalent":
        call(lambda: u.get_base_equivalent("mks"))
    return None


class _History:
    """runs the events through the registry's public interface (add / modify / remove / define_unit / copy) with symbolic values and
    keeps the harness' own account of what the edited symbols must be afterwards"""

    def __init__(self, ctx, reg, config, scale_of, used, N):
        self.ctx, self.reg, self.config, self.scale_of, self.N = ctx, reg, config, scale_of, N
        self.spare = [n for n in ("xd", "xe") if n not in used]     # symbols the unit under test does not mention
        self.fresh = [n for n in ("xq", "xr", "xs", "xv", "xw")]
        self.expect = {}                                               # name -> oracle scale | None (gone)
        self.k = 0

    def sym(self, what):
        self.k += 1
        return positive_scale(self.ctx, f"t{what}{self.k}", self.N)

    def run(self, ev, units):
        ctx, reg = self.ctx, self.reg
        mods = ctx.mods
        D, Unit = mods["unyt"].dimensions, mods["unyt"].Unit
        refused = self.config == "default" and ev in ("modify", "modify-same", "modify-quantity", "remove", "remove-readd")
        if refused:
            # the default registry refuses to be modified: the refusal is the event (nothing may change)
            r = call(lambda: reg.modify(self.spare[0], 2.0) if ev.startswith("modify") else reg.remove(self.spare[0]))
            ctx.require("history: the default registry refuses modify/remove with TypeError", r[0] == "raise" and type(r[1]).__name__ == "TypeError", event=ev, got=r[1])
            return
        if ev == "add":
            n, s = self.fresh.pop(0), self.sym("q")
            reg.add(n, s, D.force)
            self.expect[n] = s
            self.spare.append(n)
        elif ev == "add-offset-prefixable":
            n, s = self.fresh.pop(0), self.sym("q")
            o = ctx.real(f"oq{self.k}")
            reg.add(n, s, D.temperature, offset=o, prefixable=True)
            self.expect[n] = s
            self.spare.append(n)
        elif ev == "define":
            n, s = self.fresh.pop(0), self.sym("q")
            base = self.spare[0]
            q = ctx.quantity(s, Unit(base, registry=reg), reg)
            mods["UO"].define_unit(n, q, registry=None if self.config == "default" else reg)
            self.expect[n] = s * self.expect.get(base, self.scale_of.get(base))
            self.spare.append(n)
        elif ev == "modify":
            n, s = self.spare[0], self.sym("m")
            reg.modify(n, s)
            self.expect[n] = s
        elif ev == "modify-same":
            n = self.spare[0]
            reg.modify(n, self.expect.get(n, self.scale_of.get(n)))
        elif ev == "modify-quantity":
            n, s = self.spare[0], self.sym("m")
            reg.modify(n, ctx.quantity(s, Unit("kg", registry=reg), reg))
            self.expect[n] = s
        elif ev == "remove":
            n = self.spare.pop(0)
            reg.remove(n)
            self.expect[n] = None
        elif ev == "remove-readd":
            n = self.spare[0]
            row = reg.lut[n]
            reg.remove(n)
            reg.add(n, row[0], row[1], tex_repr=row[3], offset=row[2], prefixable=row[4])
        elif ev == "prefixed-lookup":
            for n in ("Mxa", "nxa", "Mxt", "kxd", "kxq"):
                call(lambda: Unit(n, registry=reg))
                call(lambda: n in reg)
        elif ev == "sibling-copy-edit":
            import copy
            other = copy.copy(reg)
            other.add("xz", self.sym("z"), D.force)
            if "xd" in other.lut:
                zs = self.sym("z")
                call(lambda: other.modify("xd", zs))        # (a copy of the default registry refuses, like the default registry)
        elif ev == "early-print":
            for _, u in units:
                str(u), repr(u), call(lambda: u.latex_repr)
        else:
            raise KeyError(ev)

    def took_effect(self):
        """the edits are real: every edited symbol now reads as the harness' account says (scale for all scales) or is gone"""
        Unit = self.ctx.mods["unyt"].Unit
        for n, s in sorted(self.expect.items()):
            r = call(lambda: Unit(n, registry=self.reg))
            if s is None:
                self.ctx.require("history: a removed symbol no longer parses (UnitParseError)", r[0] == "raise" and type(r[1]).__name__ == "UnitParseError", name=n, got=r[1])
            else:
                self.ctx.require("history: an added/modified symbol reads with its new scale", r[0] == "ok" and close(r[1].base_value, s), name=n, got=r[1])


def _scrub_default(mods):
    """the default registry is process-global: take the harness' symbols out again (also when a path is abandoned)"""
    reg = mods["UR"].default_unit_registry
    from unyt._unit_lookup_table import default_unit_symbol_lut as pristine
    dirty = [n for n in list(reg.lut) if n in _HARNESS_SYMBOLS or (n in _COLLIDING and n not in pristine)]
    for n in dirty:
        del reg.lut[n]
        if n in _HARNESS_SYMBOLS and hasattr(mods["unyt"], n):
            delattr(mods["unyt"], n)
    if dirty:
        reg._unit_system_id = None
    reg._unit_object_cache.clear()


_HARNESS_SYMBOLS = set(NAMES) | set(EDIT_NAMES)


def reread_after_history(ctx, tag, units, reg, before, want, want_dims):
    """`units`: [(route, unit)] - equal units built the same way, one object per route. Every printed form (taken before the history and
    now) is read again, from a cold and from a warm unit-object cache, as text and as utf-8 bytes, and compared with every one of them."""
    Unit = ctx.mods["unyt"].Unit
    ref = units[0][1]
    coef = numeric_coefficient(ref.expr)
    identical = coef == 1 and not ref.expr == 1
    for fname, f in (("str", str), ("repr", repr)):
        s = f(ref)
        t = f"{tag} {fname}"
        ctx.require(f"{t}: the unit prints as it did before the history", all(f(u) == before[fname] for _, u in units), printed=s, before=before[fname])
        for temp in ("cold", "warm"):
            if temp == "cold":
                reg._unit_object_cache.clear()
            r = call(lambda: Unit(before[fname], registry=reg))
            ctx.require(f"{t}: parses", r[0] == "ok", printed=before[fname], got=r[1], cache=temp)
            if r[0] != "ok":
                continue
            v = r[1]
            ctx.require(f"{t}: same dimension", dimvec(v.dimensions) == dimvec(ref.dimensions), printed=s, cache=temp)
            ctx.require(f"{t}: same scale for all scales", close(v.base_value, ref.base_value), printed=s, cache=temp)
            ctx.require(f"{t}: same offset", close(v.base_offset, ref.base_offset), printed=s, cache=temp)
            if want is not None:
                ctx.require(f"{t}: denotes the unit that was written (oracle scale, dimension)", And(close(v.base_value, want), dimvec(v.dimensions) == want_dims), printed=s, cache=temp)
            for route, u in units:
                ctx.require(f"{t}: equal unit [{route}]", bool(v == u) and bool(u == v), printed=s, cache=temp)
                if identical:
                    ctx.require(f"{t}: identical expression and hash [{route}]", And(v.expr == u.expr, hash(v) == hash(u)), printed=s, cache=temp,
                                hash_reread=hash(v), hash_unit=hash(u))
                    ctx.require(f"{t}: the unit and its re-read text are one set element and find each other in a dict [{route}]",
                                len({u, v}) == 1 and {u: 1}.get(v) == 1 and {v: 1}.get(u) == 1, printed=s, cache=temp)
            if identical:
                ctx.require(f"{t}: printing is a fixed point", f(v) == s, printed=s, reprinted=f(v))
        reg._unit_object_cache.clear()
        rb = call(lambda: Unit(s.encode("utf-8"), registry=reg))
        ctx.require(f"{t}: the utf-8 bytes of the text read as the text does",
                    rb[0] == "ok" and And(rb[1].expr == ref.expr or not identical, bool(rb[1] == ref), close(rb[1].base_value, ref.base_value),
                                          not identical or hash(rb[1]) == hash(ref)), printed=s, got=rb[1])
    hs = [hash(u) for _, u in units]
    ctx.require(f"{tag}: equal units built the same way have one hash now, and it is stable between two calls",
                len(set(hs)) == 1 and hs == [hash(u) for _, u in units], routes=[r for (r, _), h in zip(units, hs) if h != hs[-1]])


def make_hist_case(t, history, config, special=False):
    N = 2 if special else root_degree(t)
    names = sorted(atoms_of(t))

    def h(ctx):
        mods = ctx.mods
        Unit = mods["unyt"].Unit
        if config == "default":
            _scrub_default(mods)
        try:
            reg, env, scale_of, dimvec_of = make_env(ctx, N=N, offset_unit=special, extra=[n for n in names if n != "1"],
                                                     base=mods["UR"].default_unit_registry if config == "default" else None,
                                                     copied={"copied": True, "deepcopied": "deep"}.get(config, False),
                                                     spare=True)
            if special:
                want = wd = None
            else:
                m = mono_expand(t)
                want, wd = mono_scale(m, scale_of), mono_dimvec(m, dimvec_of)
            units = []
            for route in ROUTES:
                reg._unit_object_cache.clear()              # one object per route (units read from strings are shared through this cache)
                u = build(t, _Env(Unit, reg), mods, reg)
                units.append((route, u))
            if want is not None:
                ctx.require("built unit has the oracle's scale and dimension", And(close(units[0][1].base_value, want), dimvec(units[0][1].dimensions) == wd))
            before = {"str": str(units[0][1]), "repr": repr(units[0][1])}
            if numeric_coefficient(units[0][1].expr) == 1 and not units[0][1].expr == 1:
                # the same unit obtained from its text instead of arithmetic: it sits in the registry's unit-object cache under that text
                reg._unit_object_cache.clear()
                units.append(("hash() of the unit read from its text", Unit(before["str"], registry=reg)))
            keep = [first_hash(ctx, route, u, reg) for route, u in units]
            hist = _History(ctx, reg, config, scale_of, set(names), N)
            for ev in history:
                hist.run(ev, units)
            hist.took_effect()
            reread_after_history(ctx, f"after {'+'.join(history)}:", units, reg, before, want, wd)
            ctx.observe("printed", before["repr"])
            ctx.observe("scale", units[0][1].base_value)
            del keep
        finally:
            if config == "default":
                _scrub_default(mods)
    return Case(f"C20/hist/{config}/{'+'.join(history)}/{tid(t)}", h, group="hist")


def hist_cases(quick):
    """histories x terms x registry configurations. Every one-step history meets every term in the custom registry; the two- and
    three-step histories and the other two configurations rotate through the terms (quick) or meet a wider sample (thorough)."""
    out, seen = [], set()

    def add(t, hist, config, special):
        key = (t, hist, config)
        if key not in seen:
            seen.add(key)
            out.append(make_hist_case(t, hist, config, special))
    terms = [(t, False) for t in HIST_TERMS] + [(t, True) for t in HIST_SPECIAL]
    for hist in H1:
        for t, sp in terms:
            add(t, hist, "custom", sp)
    k = 0
    per = 2 if quick else 8
    for hist in H2 + H3:
        for j in range(per):
            t, sp = terms[(k * 5 + j * 7) % len(terms)]
            add(t, hist, "custom", sp)
        k += 1
    for config in CONFIGS[1:]:
        for hist in H1 + H2 + H3:
            for j in range(1 if quick else 4):
                t, sp = terms[(k * 5 + j * 7) % len(terms)]
                add(t, hist, config, sp)
            k += 1
    return out


# ----------------------------------------------------------------------------- rows whose NAME the string interface already knows
#
# The families above give the registry rows under names nothing else answers to (xa, xb ...), and edit only such names. A registry
# in use is not like that: a dataset adds "mH", "au", "kpc", "cm", "h" - spellings that unyt's vocabulary ALREADY resolves, through
# the table of documented alternative names (au -> AU, in -> inch, um -> the micro-metre), through the SI-prefix fallback (mH = m+H,
# kpc) or as a table key (m, pc). Then the same text has two candidate readings, and which one a string gets must not depend on HOW
# the text is presented (alone, inside a compound, as the printed form of an arithmetic result) nor on WHEN it was first read (before
# or after the row came, went or changed). This family walks: name class x the way the row is added x every history of
# {read, full read, add, modify, remove, modify the prefix base} up to a length, in a registry whose row scales are z3 reals, and
# at the end reads every spelling from the cache the history left behind and from an empty one.

NAME_CLASSES = {
    "fresh": ["xq", "µq"],
    # a documented alternative spelling of a table unit (the parser rewrites the name before any table is asked)
    "alt": ["au", "in", "l", "um", "µm", "meter", "deg", "celsius", "ohm", "kilometer", "d"],
    # no row of its own: SI prefix + prefixable symbol (kxa, μxa: the harness' own prefixable row, symbolic reading)
    "prefix": ["mH", "kpc", "Gyr", "cm", "kxa", "μs", "μxa", "daxa"],
    # a key of the default table: the row is there from the start (adding = redefinition)
    "key": ["m", "H", "pc", "Å", "degC", "percent"],
}
ADD_FORMS = ["plain", "prefixable", "offset", "define"]
NAME_CONFIGS = ["custom", "default"]
_COLLIDING = set()          # filled by names_cases(): what _scrub_default has to take out of the default table again


def _alt():
    from unyt._unit_lookup_table import inv_name_alternatives
    return inv_name_alternatives


_PREFIXES = sorted(PREFIX, key=len, reverse=True)
_DEFAULT_ROWS = {}


def _default_row(n):
    if n not in _DEFAULT_ROWS:
        from unyt._unit_lookup_table import default_unit_symbol_lut as lut
        r = lut.get(n)
        _DEFAULT_ROWS[n] = None if r is None else dict(scale=float(r[0]), dv=dimvec(r[1]), offset=float(r[2]), prefixable=bool(r[4]))
    return _DEFAULT_ROWS[n]


class _Rows:
    """the harness' account of the registry's table: the default table (a pure table of unyt, read like table_unit does), the
    harness rows with their symbolic scales, and what the history did. reading(name) is the reference model of what a NAME inside a
    unit string denotes: documented alternative spelling -> canonical name; a row of that name; else SI prefix + prefixable row."""

    def __init__(self, scale_of, dimvec_of):
        self.over = {}
        for n, pref in (("xa", True), ("xb", False), ("xc", False)):
            self.over[n] = dict(scale=scale_of[n], dv=dict(dimvec_of[n]), offset=0.0, prefixable=pref)

    def row(self, n):
        if n in self.over:
            return self.over[n]
        return _default_row(n)

    def split(self, n):
        for p in _PREFIXES:
            b = n[len(p):]
            if n.startswith(p) and b:
                r = self.row(b)
                if r is not None and r["prefixable"]:
                    return p, b
        return None

    def raw_reading(self, n):
        r = self.row(n)
        if r is not None:
            return r
        s = self.split(n)
        if s is None:
            return None
        r = self.row(s[1])
        return dict(scale=r["scale"] * PREFIX[s[0]], dv=r["dv"], offset=r["offset"], prefixable=False)

    def reading(self, n):
        return self.raw_reading(_alt().get(n, n))

    def shadowed(self, n):
        """a row the history put under a documented alternative spelling of another unit"""
        return _alt().get(n, n) != n and self.over.get(n) is not None


def _name_spellings(n):
    return [n, f"{n}**1", f"1*{n}", f"({n})", f" {n} ", n.encode("utf-8"), f"{n}*1", f"{n}/1", f"{n}**1.0", f"sqrt({n}**2)", f"{n}*xc/xc", f"({n}**2)**(1/2)"]


def _name_shapes(a, env, few=False):
    """arithmetic on the unit a string gave (few: the three shapes tried on the unit a compound spelling gave)"""
    xa, xc, one = env["xa"], env["xc"], env["1"]
    if few:
        return [("a**2", lambda: a ** 2), ("a/xc", lambda: a / xc), ("(a*xc)/xc", lambda: (a * xc) / xc)]
    return [("a**2", lambda: a ** 2), ("a**-1", lambda: a ** -1), ("a**0.5", lambda: a ** 0.5), ("a/xc", lambda: a / xc), ("xa*a", lambda: xa * a),
            ("(a*xc)/xc", lambda: (a * xc) / xc), ("(a**2)**0.5", lambda: (a ** 2) ** 0.5), ("a*1", lambda: a * one), ("a**1", lambda: a ** 1),
            ("xc**2/a**(3/2)", lambda: xc ** 2 / a ** F(3, 2))]


def _is(r, want):
    return And(close(r.base_value, want["scale"]), dimvec(r.dimensions) == want["dv"], close(r.base_offset, want["offset"], extra=0))


def _warm_reads(ctx, reg, names):
    """what a program does that uses the names for a while: every spelling, arithmetic on the result, printing and re-reading -
    no obligations, the point is what it leaves in the registry's unit-object cache"""
    Unit = ctx.mods["unyt"].Unit
    env = _Env(Unit, reg)
    for n in names:
        atoms = []
        for s in _name_spellings(n):
            r = call(lambda: Unit(s, registry=reg))
            if r[0] == "ok" and s in (n, f"1*{n}"):
                atoms.append(r[1])
        for i, a in enumerate(atoms):
            for _, f in _name_shapes(a, env, few=i > 0):
                r = call(f)
                if r[0] == "ok":
                    for g in (str, repr):
                        call(lambda: Unit(g(r[1]), registry=reg))


def _reread(ctx, tag, w, reg, how, bytes_too=True):
    """Unit(str(w)) / Unit(repr(w)) against w: first from the unit-object cache as the history left it, then from an empty one"""
    Unit = ctx.mods["unyt"].Unit
    coef = numeric_coefficient(w.expr)
    identical = coef == 1 and not w.expr == 1
    for fname, f in (("str", str), ("repr", repr)):
        s = f(w)
        for temp in ("warm", "cold"):
            if temp == "cold":
                reg._unit_object_cache.clear()
            t = f"{tag} {fname} [{temp} cache]"
            r = call(lambda: Unit(s, registry=reg))
            ctx.require(f"{t}: parses", r[0] == "ok", printed=s, got=r[1], built=how)
            if r[0] != "ok":
                continue
            v = r[1]
            ctx.require(f"{t}: same dimension", dimvec(v.dimensions) == dimvec(w.dimensions), printed=s, built=how)
            ctx.require(f"{t}: same scale for all scales", close(v.base_value, w.base_value), printed=s, built=how)
            ctx.require(f"{t}: same offset", close(v.base_offset, w.base_offset), printed=s, built=how)
            ctx.require(f"{t}: equal unit", bool(v == w) and bool(w == v), printed=s, built=how)
            if identical:
                ctx.require(f"{t}: identical expression and hash (no numeric coefficient)", And(v.expr == w.expr, hash(v) == hash(w)), printed=s, reread=repr(v), built=how)
                ctx.require(f"{t}: printing is a fixed point", f(v) == s, printed=s, reprinted=f(v), built=how)
        if not bytes_too:
            continue
        reg._unit_object_cache.clear()
        rb = call(lambda: Unit(s.encode("utf-8"), registry=reg))
        ctx.require(f"{tag} {fname}: the utf-8 bytes of the text read as the text does",
                    rb[0] == "ok" and And(dimvec(rb[1].dimensions) == dimvec(w.dimensions), close(rb[1].base_value, w.base_value), close(rb[1].base_offset, w.base_offset)),
                    printed=s, got=rb[1], built=how)


def _observe_name(ctx, reg, rows, n):
    """every spelling of the bare name n, read warm then cold: one outcome, one unit, the one the reference model names; then
    arithmetic on the unit the bare string gave and on the one a compound spelling gave, printed and read again"""
    Unit = ctx.mods["unyt"].Unit
    want = rows.reading(n)
    shadow = rows.shadowed(n)
    cands = [c for c in ((rows.over.get(n) if shadow else None), want) if c is not None]
    first = None
    atoms = {}
    for temp in ("warm", "cold"):
        for s in _name_spellings(n):
            if temp == "cold":
                reg._unit_object_cache.clear()
            r = call(lambda: Unit(s, registry=reg))
            t = f"name [{temp} cache]"
            ctx.require(f"{t}: a spelling of the name parses or raises UnitParseError", r[0] == "ok" or type(r[1]).__name__ == "UnitParseError", spelling=s, got=r[1])
            if not cands:
                ctx.require(f"{t}: a name no row and no prefix rule answers to is refused in every spelling", r[0] == "raise", spelling=s, got=r[1])
                continue
            ctx.require(f"{t}: parses", r[0] == "ok", spelling=s, got=r[1])
            if r[0] != "ok":
                continue
            v = r[1]
            if temp == "warm" and s in (n, f"1*{n}"):
                atoms[s] = v
            if shadow:
                # documented alternative spelling AND a row of the user: the property does not say which wins, only that it is one of
                # the two and (below) the same one in every spelling
                hit = _is(v, cands[0])
                for c in cands[1:]:
                    hit = Or(hit, _is(v, c))
                ctx.require(f"{t}: the name reads as the user's row or as the documented unit it is an alternative spelling of", hit, spelling=s, got=repr(v))
            else:
                ctx.require(f"{t}: the name denotes what the table says now (row, else SI prefix + prefixable row): scale for all scales, dimension, offset",
                            _is(v, want), spelling=s, got=repr(v), scale=v.base_value)
            if first is None:
                first = (s, v)
                continue
            ctx.require(f"{t}: equivalent spellings of the name give equal units (dimension, offset, scale for all scales)",
                        And(dimvec(v.dimensions) == dimvec(first[1].dimensions), close(v.base_offset, first[1].base_offset), close(v.base_value, first[1].base_value)),
                        spelling=s, reference=first[0], got=repr(v))
            ctx.require(f"{t}: equivalent spellings of the name give the identical expression and hash", And(v.expr == first[1].expr, hash(v) == hash(first[1])),
                        spelling=s, reference=first[0], got=repr(v))
    env = _Env(Unit, reg)
    n_built = 0
    for s, a in atoms.items():
        how0 = "bare string" if s == n else "compound string"
        for shape, f in _name_shapes(a, env, few=s != n):
            r = call(f)
            if r[0] != "ok":
                ctx.require("arithmetic: an operation the unit algebra refuses raises InvalidUnitOperation", type(r[1]).__name__ == "InvalidUnitOperation", shape=shape, got=r[1])
                continue
            n_built += 1
            _reread(ctx, f"arithmetic on the unit from the {how0}:", r[1], reg, f"{shape}, a = Unit({s!r})", bytes_too=shape in ("a**2", "xa*a"))
    return n_built


def _static_rows():
    return _Rows({"xa": 1.0, "xb": 1.0, "xc": 1.0}, {"xa": {L_: F(1)}, "xb": {M_: F(1)}, "xc": {T_: F(1)}})


def _name_base(rows, n):
    """(prefix, base symbol) when the name - after the documented-alternative rewriting - is answered by the SI-prefix rule"""
    c = _alt().get(n, n)
    return rows.split(c) if rows.row(c) is None else None


_WORDS = {}


def name_words(n, form, maxlen, alphabet="roAMXB"):
    key = (n, form if form == "define" else "", maxlen, alphabet)
    if key not in _WORDS:
        _WORDS[key] = _name_words(n, form, maxlen, alphabet)
    return _WORDS[key]


def _name_words(n, form, maxlen, alphabet):
    """histories over r (the bare name is read), o (the name is used for a while: _warm_reads), A (add in the case's form), M (modify),
    X (remove), B (modify the row the SI-prefix rule builds the name from): every word up to maxlen that ends in an edit and has no two
    reads in a row. M and X need a row of that name; define_unit refuses a name the registry answers to (the refusal is then the event)"""
    rows = _static_rows()
    has_base = _name_base(rows, n) is not None
    out = []

    def rec(w, pres):
        if w and w[-1] not in "ro":           # (a read just before the final reading adds nothing: that one reads everything, warm, anyway)
            out.append("".join(w))
        if len(w) == maxlen:
            return
        for c in alphabet:
            if c in "ro" and w and w[-1] in "ro":
                continue
            if c in "MX" and not pres:
                continue
            if c == "B" and not has_base:
                continue
            nxt = pres
            if c == "A":
                rows.over[n] = {} if pres else None
                nxt = pres if (form == "define" and (pres or rows.raw_reading(n) is not None)) else True
                rows.over.pop(n, None)
            elif c == "X":
                nxt = False
            rec(w + [c], nxt)
    rec([], rows.row(n) is not None)
    return out


def make_names_case(cls, n, form, word, config):
    def h(ctx):
        mods = ctx.mods
        D, Unit = mods["unyt"].dimensions, mods["unyt"].Unit
        if config == "default":
            _scrub_default(mods)
        try:
            reg, env, scale_of, dimvec_of = make_env(ctx, N=2, base=mods["UR"].default_unit_registry if config == "default" else None)
            rows = _Rows(scale_of, dimvec_of)
            base = _name_base(rows, n)
            names = [n] + (["k" + n] if form == "prefixable" else [])
            k = 0
            for ev in word:
                k += 1
                if ev == "r":
                    call(lambda: Unit(n, registry=reg))
                elif ev == "o":
                    _warm_reads(ctx, reg, names)
                elif ev == "A":
                    s = positive_scale(ctx, f"tn{k}", 2)
                    if form == "define":
                        q = ctx.quantity(s, Unit("xb", registry=reg), reg)
                        r = call(lambda: mods["UO"].define_unit(n, q, registry=None if config == "default" else reg))
                        if rows.raw_reading(n) is not None:
                            ctx.require("history: define_unit refuses a name the registry already answers to (RuntimeError)", r[0] == "raise" and type(r[1]).__name__ == "RuntimeError", name=n, got=r[1])
                        else:
                            ctx.require("history: define_unit accepts a name the registry does not answer to", r[0] == "ok", name=n, got=r[1])
                            rows.over[n] = dict(scale=s * scale_of["xb"], dv={M_: F(1)}, offset=0.0, prefixable=False)
                    elif form == "offset":
                        o = ctx.real(f"on{k}", nonzero=True)
                        reg.add(n, s, D.temperature, offset=o)
                        rows.over[n] = dict(scale=s, dv={TH_: F(1)}, offset=o, prefixable=False)
                    else:
                        reg.add(n, s, D.force, prefixable=(form == "prefixable"))
                        rows.over[n] = dict(scale=s, dv={M_: F(1), L_: F(1), T_: F(-2)}, offset=0.0, prefixable=(form == "prefixable"))
                elif ev == "M":
                    s = positive_scale(ctx, f"tn{k}", 2)
                    reg.modify(n, s)
                    rows.over[n] = dict(rows.row(n), scale=s)
                elif ev == "X":
                    reg.remove(n)
                    rows.over[n] = None
                elif ev == "B":
                    s = positive_scale(ctx, f"tn{k}", 2)
                    reg.modify(base[1], s)
                    rows.over[base[1]] = dict(rows.row(base[1]), scale=s)
                else:
                    raise KeyError(ev)
            built = 0
            for m in names:
                built += _observe_name(ctx, reg, rows, m)
            ctx.observe("units built by arithmetic and re-read", built)
        finally:
            if config == "default":
                _scrub_default(mods)
    return Case(f"C20/names/{config}/{cls}-{n}/{form}/{word}", h, group="names")


def _sample_names(n_alt, n_prefix, n_key, seed=29):
    """more names of each class, drawn with a fixed seed from unyt's own tables (pure tables)"""
    from unyt._unit_lookup_table import default_unit_symbol_lut as lut, unit_prefixes
    rnd = random.Random(seed)
    ok = lambda s: s.isidentifier() or all(ch.isalnum() or ch in "_µμΩÅ" for ch in s)   # noqa: E731
    alt = sorted(k for k, v in _alt().items() if k != v and k not in lut and ok(k))
    pre = sorted(p + k for k in lut if lut[k][4] for p in unit_prefixes if p + k not in lut and ok(p + k) and _alt().get(p + k, p + k) == p + k)
    # table keys: not the ones with special dimensions (offset / logarithmic units keep special rules in the unit algebra)
    key = sorted(k for k in lut if ok(k) and float(lut[k][2]) == 0.0 and "logarithmic" not in str(lut[k][1]))
    known = {n for ns in NAME_CLASSES.values() for n in ns}
    pick = lambda pool, n: rnd.sample([x for x in pool if x not in known], min(n, len(pool)))   # noqa: E731
    return {"alt": pick(alt, n_alt), "prefix": pick(pre, n_prefix), "key": pick(key, n_key)}


def names_cases(quick):
    """name class x name x form of the add x history x registry configuration (see the comment above NAME_CLASSES).
    quick: the plain observation and every history of length <= 2 for every listed name (plain add); every history of length 3 meets one
    name of each class; the other forms of add: every history of length <= 2 with an add, names rotating; the default registry: every
    add-and-read history of length <= 3 for one name of each class and form. thorough: every history of length <= 3 for every listed name
    (plain add) and for three names per class in the other forms; a seeded sample of 150 histories of length 4 per class; the default
    registry for every name; 105 more names drawn from unyt's tables with every history of length <= 2."""
    out, seen = [], set()

    def add(cls, n, form, word, config="custom"):
        key = (n, form, word, config)
        if key not in seen:
            seen.add(key)
            _COLLIDING.add(n)
            _COLLIDING.add("k" + n)
            out.append(make_names_case(cls, n, form, word, config))
    L = 2 if quick else 3
    rnd = random.Random(31)
    for ci, (cls, names) in enumerate(NAME_CLASSES.items()):
        for n in names:
            add(cls, n, "plain", "")
            for w in name_words(n, "plain", L):
                add(cls, n, "plain", w)
        # one level longer: each word meets one name of the class (thorough: a seeded sample of the words)
        ws = sorted({w for n in names for w in name_words(n, "plain", L + 1)} - {w for n in names for w in name_words(n, "plain", L)})
        if not quick:
            ws = rnd.sample(ws, min(150, len(ws)))
        for k, w in enumerate(ws):
            fit = [n for n in names if w in name_words(n, "plain", L + 1)]
            add(cls, fit[(k + ci) % len(fit)], "plain", w)
        # the other forms of add
        for fi, form in enumerate(ADD_FORMS[1:]):
            some = names if len(names) <= 3 else [names[(fi + j * 2) % len(names)] for j in range(1 if quick else 3)]
            for n in some:
                for w in name_words(n, form, L):
                    if "A" in w:
                        add(cls, n, form, w)
        # the process-global default registry (it refuses modify/remove; its own keys are left alone)
        if cls != "key":
            for fi, form in enumerate(("plain", "prefixable", "offset")):
                for n in ([names[fi % len(names)]] if quick else names):
                    for w in name_words(n, form, 3, alphabet="roA"):
                        add(cls, n, form, w, "default")
    if not quick:
        for cls, names in _sample_names(40, 40, 25).items():
            for n in names:
                for w in name_words(n, "plain", 2):
                    add(cls, n, "plain", w)
    return out


def simp_terms(n, seed=23):
    rnd = random.Random(seed)
    out = [Dv(P(A("m"), 2), A("cm")), Dv(A("km"), A("μm")), M(A("%"), A("%")), Dv(A("%"), A("%")), P(A("%"), 2), M(A("xb"), Dv(A("m"), A("cm"))),
           Dv(M(A("Å"), A("km")), P(A("cm"), 2)), P(Dv(A("km"), A("cm")), F(1, 2)), Dv(P(A("m"), F(3, 2)), P(A("cm"), F(1, 2))), Dv(A("kΩ"), A("Ω")),
           M(Dv(A("kΩ"), A("Ω")), Dv(A("s"), A("xb"))), Dv(A("cm"), A("km")), M(P(A("μm"), 3), P(A("m"), -2)), Dv(A("m"), M(A("%"), A("cm")))]
    pool = [A(a) for a in SIMP_ATOMS]
    while len(out) < n:
        k = rnd.choice((2, 3, 3, 4))
        t = None
        for i in range(k):
            a = rnd.choice(pool)
            f = P(a, rnd.choice(EXPONENTS[1:])) if rnd.random() < 0.55 else a
            t = f if t is None else (M(t, f) if rnd.random() < 0.5 else Dv(t, f))
        if rnd.random() < 0.25:
            t = P(t, rnd.choice([F(1, 2), 2, -1, F(3, 2), F(1, 3), 3]))
        if t not in out:
            out.append(t)
    return out


def cases(tier, mods):
    check_names(mods, NAMES + EDIT_NAMES)
    quick = tier == "quick"
    out = []
    atoms, d1, d2, d3 = catalogue(ATOMS, 200 if quick else 1500, 200 if quick else 1500, seed=20)
    for t in atoms + d1 + d2 + d3:
        out.append(make_rt_case(t))
    rnd0 = random.Random(19)
    for t in atoms + d1 + rnd0.sample(d2, 60 if quick else 600) + rnd0.sample(d3, 60 if quick else 600):
        out.append(make_parse_case(t))
    st = simp_terms(120 if quick else 600)
    for i, t in enumerate(st):
        out.append(make_rt_case(S(t), "rtsimp", i))
    i = 0
    for a, b in RATIO_PAIRS:
        dv = table_unit(a)[1]
        c = next(n for n, d in (("xa", {L_: F(1)}), ("xb", {M_: F(1)})) if d != dv)   # a symbolic bystander that cannot cancel
        for t in (Dv(A(a), A(b)), Dv(A(b), A(a)), M(M(A(a), P(A(b), -1)), A(c)), Dv(P(A(a), 2), A(b)), Dv(A(c), Dv(A(a), A(b))), M(Dv(A(a), A(b)), A("Ω"))):
            out.append(make_rt_case(S(t), "rtpair", i))
            i += 1
    for t in (M(Dv(A("yr"), A("day")), A("s")), Dv(M(A("mile"), A("inch")), M(A("km"), A("cm"))), P(Dv(A("mile"), A("km")), 2), P(Dv(A("inch"), A("cm")), F(1, 2)),
              Dv(M(A("lb"), A("ft")), M(A("kg"), A("m"))), Dv(P(A("mile"), 2), M(A("km"), A("xb")))):
        out.append(make_rt_case(S(t), "rtpair", i))
        i += 1
    rnd = random.Random(21)
    pool = atoms + d1 + d2
    i = 0
    for t in rnd.sample(pool, 12 if quick else 60):
        for c in COEFS:
            out.append(make_rt_case(K(c, t), "rtcoef", i))
            i += 1
    out.extend(powform_cases(quick))
    out.extend(coefop_cases(quick))
    for kind, terms in special_terms().items():
        out.append(make_special_case(kind, terms))
    for i, (identical, group) in enumerate(SPELL):
        out.append(make_spell_case(i, identical, group))
    out.extend(hist_cases(quick))
    out.extend(names_cases(quick))
    if not quick:
        from unyt._unit_lookup_table import default_unit_symbol_lut as lut, unit_prefixes
        names = sorted(lut)
        pref = [p + n for n in names if lut[n][4] for p in unit_prefixes]
        allnames = names + pref
        for k in range(0, len(allnames), 25):
            out.append(make_table_case(allnames[k:k + 25], k // 25))
    return out
