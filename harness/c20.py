"""C20 - the unit-string interface: print -> parse round trip and equivalent spellings (the applicable half).

The totality half of the property (every string either parses or raises UnitParseError; fuzzing of malformed input) is NOT
claimed: the string goes through str.replace, tokenize, sympy's transformation pipeline and eval, none of which can run on a
symbolic string; walking concrete malformed strings would be fuzzing, not solving."""
import random
from fractions import Fraction

from .common import EXPONENTS, PREFIX, And, Case, call, check_names, exact_eq
from .common import close as plain_close
from .unitterms_common import (A, Dv, K, M, Mono, P, S, atoms_of, build, catalogue, depth, dimvec, lcm, mono, mono_dimvec, mono_scale,
                               numeric_coefficient, positive_scale, root_degree, tid)
from .unitterms_common import mclose as close
from .unitterms_common import RATIO_PAIRS, eval_expr, table_unit

LEVEL = "other"
F = Fraction
MANIFEST = dict(
    category="other",
    text=("PARTIAL: only the print->parse round trip and the equivalent-spellings clause. Units are built by the real Unit operators "
          "from atoms xa, xb, k+xa, an offset unit, %, and table units (incl. the unicode-named ohm, angstrom, micro-prefixed and degree-sign "
          "ones) in a registry whose custom scales/offset are z3 reals; terms up to depth 3 with exponents from E, optional simplify() "
          "and numeric coefficients. str(u) and repr(u) are CONCRETE strings pushed through the real parser; what the solver decides "
          "is that the re-read unit's scale (a term over the registry's symbolic scales, produced by the real _get_unit_data_from_expr/"
          "_lookup_unit_symbol) equals the original's for ALL positive scales, and likewise the offset; dimensions, expression identity "
          "and hash are concrete comparisons. Term shapes, names, exponents, coefficients and spellings are enumerated. The re-reading is also "
          "done ACROSS A HISTORY run inside one path: the unit is made, printed and hashed (by the caller, as dict key / set member, or inside "
          "unyt's lru caches through q*q, q.to(u), get_base_equivalent), then its registry (fresh, copy.copy, deepcopy, or the process-global "
          "default one) goes through one to three of add / add offset+prefixable / define_unit / modify / modify to the same value / modify "
          "by a quantity / remove / remove+re-add / first lookup of prefixed names / edit of a sibling copy / early printing, with symbolic new "
          "values on symbols the unit does not mention, and only then the text (taken before and after) is read again from a cold and a warm "
          "unit-object cache: equal unit for all scales, identical expression, hash(v) == hash(u) now, one set element, mutual dict hits. NOT covered "
          "(not applicable to this technique): totality of the parser on arbitrary strings and rejection of malformed input."),
    design="DESIGN.md section 4 C20",
    technique="symbolic execution of the real Python code over z3 real terms (strings concrete); SMT obligations per path; counterexample replay")
EXPLANATION = (
    "Unit.__str__/__repr__, Unit.__new__ (string branch), parse_unyt_expr, _auto_positive_symbol, _get_unit_data_from_expr, "
    "_lookup_unit_symbol/_split_prefix, Unit.__eq__/__hash__ and the Unit operators that build the units run for real. For every "
    "enumerated unit u: v = Unit(str(u), registry) and Unit(repr(u), registry) (unit-object cache emptied first, also as utf-8 bytes) "
    "must parse; z3 decides per path pc & not(scale(v) close to scale(u) and offset(v) close to offset(u)) for all symbolic scales/"
    "offsets; dimension vectors, u == v, and - when the expression has no numeric coefficient - identical expression and hash are "
    "checked concretely; printing is a fixed point (str(v) == str(u)). Spelling groups: every member parses to a unit equal to the "
    "first, for all scales. Histories (C20/hist/<registry configuration>/<history>/<term>): one unit object per hashing route is built by the "
    "real operators, printed and hashed; UnitRegistry.add/modify/remove, define_unit, copy.copy and the prefixed-symbol lookup then run for real "
    "with z3 reals as new scales/offsets on symbols the unit does not mention (z3 decides that every edited symbol reads back with the "
    "harness' account of its scale, i.e. the history took effect); afterwards the texts printed before and after the history are re-read "
    "(cold and warm unit-object cache, text and utf-8 bytes) and compared with every one of the objects: scale/offset by z3 for all scales, "
    "dimension, equality both ways, identical expression, equal hash at that moment, set and dict behaviour, hash stability, unchanged print. "
    "The special-unit and spelling cases repeat their whole table after an add+modify+remove of unrelated symbols (units made and hashed before, "
    "texts read after). Unit caches are cleared by the runner only at the start of a path, so every history is one uninterrupted life of the "
    "registry and its units."
)
BOUNDS = {
    "quick": "atoms {xa, xb, kxa, %, ohm-sign, angstrom-sign, micro-m}; all 196 terms of depth <= 1, 200 seeded of depth 2, 200 of depth 3 (root degree <= 36), each "
             "printed with str and repr and re-read from text and utf-8 bytes; 316 terms also written as strings in 4 surface syntaxes and compared with the "
             "arithmetic result; 120 simplify() terms over table/percent atoms + one symbolic atom; 138 simplify() terms over 22 same-dimension table pairs of non-integer and whole ratio (a/b, b/a, a/b*c, a**2/b, c/(a/b), a/b*ohm and compounds); 9 coefficients x 12 terms; 10 groups of offset / "
             "logarithmic / temperature-difference / angle / bare-1 units (78 units); 42 spelling groups (~205 spellings), both tables once more after add+modify+remove of "
             "unrelated symbols; histories: 31 terms (17 with oracle scale incl. simplify()/coefficient terms, 14 offset/log/angle/bare) x all 11 one-step histories in a fresh "
             "registry, 17 two-step (all 9 ordered pairs of add/modify/remove + 8 mixed) and 12 three-step histories (all 6 orders of add, modify, remove + 6 mixed) x 2 rotating terms, "
             "and all 40 histories x 1 rotating term in each of copy.copy(registry), deepcopy(registry) and the default registry (519 cases); in each case 7 hashing routes "
             "(+ the unit read from its own text) x str/repr x text printed before/after x cold/warm unit-object cache x text/bytes",
    "thorough": "same atoms; 1500 seeded terms of depth 2, 1500 of depth 3; 1396 terms in 4 surface syntaxes; 600 simplify() terms; 9 coefficients x 60 terms; special and "
                "spelling tables as in quick; every table symbol and every SI-prefixed prefixable symbol alone and to the powers -1, 2, 1/2 over a symbolic xc (ground scales); "
                "histories as in quick with 8 rotating terms per multi-step history in the fresh registry and 4 per history in the three other registry configurations (1053 cases)",
}
OUTSIDE = ("NOT APPLICABLE and not claimed: totality (any string parses or raises UnitParseError, nothing else is evaluated) and malformed-input fuzzing. "
           "Also outside: strings are concrete (only scales/offsets are solver variables); float exponents that are not small rationals in disguise "
           "('xa**0.6666666666666666' is read as the exact decimal, unlike Unit.__pow__); the compatibility code points OHM SIGN U+2126 / ANGSTROM SIGN U+212B "
           "(not names of the table); persistence layers themselves (C11); a second registry (C13); rounding (A1). Histories: edits of a symbol the unit itself mentions "
           "(the old object then legitimately differs from what its text now denotes: C12), histories longer than three steps, units restored by pickle/JSON/HDF5 (the "
           "z3-valued table cannot be pickled: C11), hash equality between different registries or between a hash taken before an edit and one taken after it (the registry "
           "digest is part of the hash by design; only hashes asked at the same moment are compared)")
ASSUMPTIONS = ["MonoReal (harness/unitterms_common.py): a positive scale symbol is introduced as t**N; the exponent arithmetic that keeps products, "
               "quotients and rational powers of such scales in exact monomial form, and the reduction of closeness/isclose of two monomials over the "
               "same power product to their rational coefficients, are harness code",
               "unit strings are concrete: the parser (str.replace, tokenize, sympy transformations, eval) runs on real Python strings"]
CONFORM = {"quick": 40, "thorough": 120}

NAMES = ["xa", "xb", "xc", "xt", "xz"]
L_, M_, T_, TH_, ANG_, I_ = "(length)", "(mass)", "(time)", "(temperature)", "(angle)", "(current_mks)"
# independent table of the table units used as atoms (SI scale, dimension vector)
TAB = {
    "%": (0.01, {}), "Ω": (1.0, {M_: F(1), L_: F(2), T_: F(-3), I_: F(-2)}), "Å": (1e-10, {L_: F(1)}), "μm": (1e-6, {L_: F(1)}),
    "m": (1.0, {L_: F(1)}), "cm": (0.01, {L_: F(1)}), "km": (1000.0, {L_: F(1)}), "s": (1.0, {T_: F(1)}), "g": (1e-3, {M_: F(1)}),
    "kΩ": (1000.0, {M_: F(1), L_: F(2), T_: F(-3), I_: F(-2)}), "degree": (0.017453292519943295, {ANG_: F(1)}), "dimensionless": (1.0, {}),
}
ATOMS = ["xa", "xb", "kxa", "%", "Ω", "Å", "μm"]
SIMP_ATOMS = ["xb", "m", "cm", "km", "μm", "Å", "%", "s", "Ω", "kΩ"]
ATOM_DEF = {"kxa": Mono(F(1000), {"xa": F(1)})}
COEFS = [100.0, 0.01, 2.5, 1.0 / 3.0, 1e-7, 3.0856775809623245e+21, 6.62607015e-34, 7.0, 1e30]


def mono_expand(t):
    m = mono(t)
    out = Mono(m.coef, {})
    for a, e in m.exps.items():
        out = out * ((ATOM_DEF[a] if a in ATOM_DEF else Mono(F(1), {a: F(1)})) ** e)
    return out


class _Env(dict):
    def __init__(self, Unit, reg):
        super().__init__()
        self.Unit, self.reg = Unit, reg

    def __missing__(self, n):
        u = self.Unit(registry=self.reg) if n == "1" else self.Unit(n, registry=self.reg)
        self[n] = u
        return u


def make_env(ctx, N=1, offset_unit=False, extra=(), base=None, copied=False, spare=False):
    """the registry of a case: the default table plus symbolic-scale atoms xa (prefixable), xb, xc [, the offset unit xt] [, the spare
    symbols xd, xe that histories edit]. base: put the rows into this registry (the process-global default one) instead of a fresh
    one; copied: hand out copy.copy() of the registry the rows were put into."""
    D = ctx.mods["unyt"].dimensions
    reg = ctx.registry([]) if base is None else base
    sa, sb, sc = positive_scale(ctx, "ta", N), positive_scale(ctx, "tb", N), positive_scale(ctx, "tc", N)
    ctx.add_row(reg, "xa", D.length, sa, 0.0, prefixable=True)
    ctx.add_row(reg, "xb", D.mass, sb, 0.0)
    ctx.add_row(reg, "xc", D.time, sc, 0.0)
    scale_of = {"xa": sa, "xb": sb, "xc": sc}
    dimvec_of = {"xa": {L_: F(1)}, "xb": {M_: F(1)}, "xc": {T_: F(1)}}
    if spare:
        sd, se = positive_scale(ctx, "td", N), positive_scale(ctx, "te", N)
        ctx.add_row(reg, "xd", D.length, sd, 0.0)
        ctx.add_row(reg, "xe", D.mass, se, 0.0)
        scale_of["xd"], dimvec_of["xd"] = sd, {L_: F(1)}
        scale_of["xe"], dimvec_of["xe"] = se, {M_: F(1)}
    for n, (s, d) in TAB.items():
        scale_of[n], dimvec_of[n] = s, d
    if offset_unit:
        st, ot = positive_scale(ctx, "tt", 1), ctx.real("ot")
        ctx.add_row(reg, "xt", D.temperature, st, ot, prefixable=True)
        scale_of["xt"], dimvec_of["xt"] = st, {TH_: F(1)}
    for n in extra:
        if n not in scale_of and n not in ("kxa", "kxt"):
            scale_of[n], dimvec_of[n] = table_unit(n)
    if copied:
        import copy
        reg = copy.deepcopy(reg) if copied == "deep" else copy.copy(reg)
    return reg, _Env(ctx.mods["unyt"].Unit, reg), scale_of, dimvec_of


def roundtrip(ctx, tag, u, reg, want=None, want_dims=None, observe=True, bare_identity=False):
    """Unit(str(u)) and Unit(repr(u)) against u. `want`: the oracle's scale of u (None: compare with u only).
    A unit whose expression is the bare number 1 prints as 'dimensionless'; whether that re-reads to the identical expression is
    asserted once, in the C20/special/bare-one cases (bare_identity=True), not in every catalogue term that happens to reduce to 1."""
    Unit = ctx.mods["unyt"].Unit
    coef = numeric_coefficient(u.expr)
    bare = u.expr == 1
    h_u = hash(u)
    bare_same = []
    for fname, f in (("str", str), ("repr", repr)):
        s = f(u)
        t = f"{tag} {fname}"
        reg._unit_object_cache.clear()
        r = call(lambda: Unit(s, registry=reg))
        ctx.require(f"{t}: parses", r[0] == "ok", printed=s, got=r[1], unit=repr(u))
        if r[0] != "ok":
            continue
        v = r[1]
        ctx.require(f"{t}: same dimension", dimvec(v.dimensions) == dimvec(u.dimensions), printed=s)
        ctx.require(f"{t}: same scale for all scales", close(v.base_value, u.base_value), printed=s)
        ctx.require(f"{t}: same offset", close(v.base_offset, u.base_offset), printed=s)
        ctx.require(f"{t}: equal unit", bool(v == u) and bool(u == v), printed=s)
        if want is not None:
            ctx.require(f"{t}: denotes the unit that was written (oracle scale, dimension)", And(close(v.base_value, want), dimvec(v.dimensions) == want_dims), printed=s)
        if bare:
            bare_same.append(v.expr == u.expr and hash(v) == h_u and f(v) == s)
        elif coef == 1:
            ctx.require(f"{t}: identical expression and hash (no numeric coefficient)", And(v.expr == u.expr, hash(v) == h_u), printed=s, reread=repr(v))
            ctx.require(f"{t}: printing is a fixed point", f(v) == s, printed=s, reprinted=f(v))
        reg._unit_object_cache.clear()
        rb = call(lambda: Unit(s.encode("utf-8"), registry=reg))
        ctx.require(f"{t}: the utf-8 bytes of the text read as the text does",
                    rb[0] == "ok" and And(rb[1].expr == v.expr, close(rb[1].base_value, v.base_value), close(rb[1].base_offset, v.base_offset), dimvec(rb[1].dimensions) == dimvec(v.dimensions)),
                    printed=s, got=rb[1])
        if observe:
            ctx.observe(f"{t}: scale", v.base_value)
            ctx.observe(f"{t}", s)
    if bare and bare_identity:
        ctx.require(f"{tag}: the bare-1 unit re-reads to the identical expression, hash and print", all(bare_same), printed=str(u))


def make_rt_case(t, family="rt", idx=None):
    N = root_degree(t)

    names = sorted(atoms_of(t))

    def h(ctx):
        reg, env, scale_of, dimvec_of = make_env(ctx, N=N, extra=names)
        m = mono_expand(t)
        u = build(t, env, ctx.mods, reg)
        want, wd = mono_scale(m, scale_of), mono_dimvec(m, dimvec_of)
        ctx.require("built unit has the oracle's scale and dimension", And(close(u.base_value, want), dimvec(u.dimensions) == wd))

        def lookup(n):
            if n == "kxa":
                return scale_of["xa"] * PREFIX["k"], dict(dimvec_of["xa"])
            return table_unit(n)
        es, ed = eval_expr(u.expr, scale_of, dimvec_of, lookup=lookup)
        ctx.require("the expression that will be printed (numeric coefficient x remaining units) denotes the built unit's scale and dimension",
                    And(close(es, want), ed == wd), expr=repr(u))
        roundtrip(ctx, "round trip", u, reg, want, wd)
    cid = f"C20/{family}/d{depth(t)}/{tid(t)}" if idx is None else f"C20/{family}/{idx:03d}/{tid(t)}"
    return Case(cid, h, group=family)


# ----------------------------------------------------------------------------- strings written by a grammar vs the same term built by arithmetic

STYLES = ["paren", "float", "spaced", "sqrt-inv"]


def render(t, style):
    """a unit string for the term, in one of several equivalent surface syntaxes"""
    k = t[0]
    sp = " " if style == "spaced" else ""
    if k == "atom":
        return t[1]
    if k in ("mul", "div"):
        l, r = render(t[1], style), render(t[2], style)
        if t[2][0] != "atom":
            r = f"({r})"
        if t[1][0] == "pow" and style != "paren":
            l = f"({l})"
        return f"{l}{sp}{'*' if k == 'mul' else '/'}{sp}{r}"
    if k == "pow":
        b = render(t[1], style)
        if t[1][0] != "atom":
            b = f"({b})"
        p = t[2]
        if style == "sqrt-inv":
            if p == F(1, 2):
                return f"sqrt({render(t[1], style)})"
            if p == -1:
                return f"1/{b}"
            if p == F(-1, 2):
                return f"1/sqrt({render(t[1], style)})"
        if style == "float" and p.denominator in (1, 2):
            return f"{b}**{float(p)!r}"
        if p.denominator == 1 and p >= 0 and style != "paren":
            return f"{b}{sp}**{sp}{p.numerator}"
        return f"{b}{sp}**{sp}({p.numerator}{sp}/{sp}{p.denominator})" if p.denominator != 1 else f"{b}{sp}**{sp}({p.numerator})"
    raise KeyError(k)


def make_parse_case(t):
    N = root_degree(t)

    def h(ctx):
        reg, env, scale_of, dimvec_of = make_env(ctx, N=N)
        Unit = ctx.mods["unyt"].Unit
        m = mono_expand(t)
        want, wd = mono_scale(m, scale_of), mono_dimvec(m, dimvec_of)
        u = build(t, env, ctx.mods, reg)
        for style in STYLES:
            s = render(t, style)
            reg._unit_object_cache.clear()
            r = call(lambda: Unit(s, registry=reg))
            ctx.require(f"written as {style}: parses", r[0] == "ok", string=s, got=r[1])
            if r[0] != "ok":
                continue
            v = r[1]
            ctx.require(f"written as {style}: the unit the same arithmetic builds (scale for all scales, dimension, offset)",
                        And(close(v.base_value, u.base_value), close(v.base_value, want), dimvec(v.dimensions) == wd, exact_eq(v.base_offset, 0.0), bool(v == u)), string=s)
            ctx.require(f"written as {style}: identical expression and hash", And(v.expr == u.expr, hash(v) == hash(u)), string=s, got=repr(v), built=repr(u))
            ctx.observe(style, s)
            ctx.observe(style + " scale", v.base_value)
    return Case(f"C20/parse/d{depth(t)}/{tid(t)}", h, group="parse")


# ----------------------------------------------------------------------------- offset / special units (hand-written terms)

def special_terms():
    """kind -> list of terms; one case per kind (the obligations' labels carry the kind, `info` carries the term)"""
    T = ["xt", "kxt", "degC", "degF", "K", "R", "mdegC", "kdegC", "μdegC", "mdelta_degC", "lat", "lon", "degree", "rad", "dB", "Np"]
    out = {"atoms": [A(n) for n in T], "delta-atoms": [A("delta_degC"), A("delta_degF")]}
    out["offset-times-one"] = [f(A(n)) for n in ("xt", "degC", "degF", "lat", "dB") for f in (lambda a: M(a, A("1")), lambda a: M(A("1"), a), lambda a: Dv(a, A("1")))]
    out["offset-product"] = [f(A(n)) for n in ("xt", "degC", "degF", "lat")
                             for f in (lambda a: M(a, A("%")), lambda a: M(A("%"), a), lambda a: Dv(a, A("%")), lambda a: M(a, A("dimensionless")))]
    out["log-product"] = [f(A(n)) for n in ("dB", "Np") for f in (lambda a: M(a, A("%")), lambda a: M(A("%"), a), lambda a: Dv(a, A("%")), lambda a: M(a, A("dimensionless")))]
    out["offset-first-power"] = [P(A(n), 1) for n in ("xt", "degC", "lat")]
    out["powers"] = [P(A(n), p) for n in ("xt", "degC", "K", "delta_degC", "degree") for p in (2, -1, F(1, 2))]
    out["compounds"] = [Dv(A("xa"), A("K")), Dv(A("xa"), A("delta_degC")), M(A("xb"), A("delta_degF")), Dv(A("degree"), A("xc")), M(A("rad"), A("xa")),
                        Dv(A("xa"), M(A("K"), A("%")))]
    out["bare-one"] = [Dv(A("xa"), A("xa")), A("1"), Dv(A("%"), A("%")), P(A("xb"), 0)]
    out["named-dimensionless"] = [A("dimensionless"), M(A("dimensionless"), A("xa"))]
    return out


def make_special_case(kind, terms):
    def h(ctx):
        reg, env, scale_of, dimvec_of = make_env(ctx, N=2, offset_unit=True, spare=True)
        n_printed = 0
        built = []
        for t in terms:
            r = call(lambda: build(t, env, ctx.mods, reg))
            if r[0] != "ok":
                ctx.require(f"special ({kind}): an operation the unit algebra refuses raises InvalidUnitOperation", type(r[1]).__name__ == "InvalidUnitOperation", term=tid(t), got=r[1])
                continue
            n_printed += 1
            roundtrip(ctx, f"round trip ({kind})", r[1], reg, bare_identity=(kind == "bare-one"), observe=False)
            built.append(r[1])
        ctx.observe("units printed", n_printed)
        # the same units (hashed and printed above) once more after the registry has learnt, changed and forgotten unrelated symbols
        registry_edit(ctx, reg)
        for u in built:
            roundtrip(ctx, f"round trip ({kind}) after a registry edit,", u, reg, observe=False)
    return Case(f"C20/special/{kind}", h, group="special")


# ----------------------------------------------------------------------------- equivalent spellings

SPELL = [
    # (identical expression expected?, [spellings]) - the first one is the reference
    (True, ["xa**-1", "1/xa", "xa**(-1)", "xa**-1.0", " 1 / xa ", "1/(xa)", "(xa)**-1", "xa**(-1/1)", "1.0/xa", "xa**-1.0000"]),
    (True, ["xa**0.5", "sqrt(xa)", "xa**(1/2)", "xa**(0.5)", "xa ** 0.5", "xa**.5", "(xa**0.25)**2", "sqrt(sqrt(xa**2))"]),
    (True, ["xa**1.5", "xa**(3/2)", "xa*sqrt(xa)", "sqrt(xa**3)", "xa**1.50", "xa**(1.5)"]),
    (True, ["xa**(2/3)", "(xa**2)**(1/3)", "xa**(4/6)", "(xa**(1/3))**2"]),
    (True, ["xa**-0.5", "1/sqrt(xa)", "xa**(-1/2)", "sqrt(1/xa)", "1/xa**0.5"]),
    (True, ["xa*xb/xc", "xa * xb / xc", " xa*xb/xc ", "xb*xa/xc", "xa/xc*xb", "xa*(xb/xc)", "(xa*xb)/xc", "xa*xb*xc**-1", "xa\t*\txb/xc", "xa*xb/(xc)", "xa*xb*xc**-1.0"]),
    (True, ["xa**2", "xa*xa", "xa**2.0", "xa**(2)", "xa**(4/2)", "(xa)**2", "xa * xa", "xa**3/xa"]),
    (True, ["1/(xa*xb)", "1/xa/xb", "xa**-1*xb**-1", "(xa*xb)**-1", "1/(xb*xa)", "1 / ( xa * xb )"]),
    (True, ["sqrt(xa*xb)", "sqrt(xa)*sqrt(xb)", "(xa*xb)**0.5", "xa**0.5*xb**0.5"]),
    (True, ["kxa**2/xb**(3/2)", "kxa**2.0*xb**-1.5", "kxa*kxa/(xb*sqrt(xb))", "kxa ** 2 / xb ** ( 3 / 2 )"]),
    (True, ["μm", "µm", "um"]),
    (False, ["μm", "micrometer", "micrometre", "1e-6*m", "m/1e6"]),
    (True, ["Ω", "ohm", "Ohm"]),
    (False, ["Ω", "V/A"]),
    (True, ["kΩ", "kohm", "kOhm", "kiloohm"]),
    (False, ["μΩ", "µΩ", "uΩ", "µohm", "uohm", "microohm"]),
    (True, ["Å", "angstrom", "Angstrom"]),
    (False, ["Å", "1e-10*m", "0.1*nm"]),
    (True, ["°C", "degC", "celsius", "degree_celsius", "degree_Celsius"]),
    (True, ["°F", "degF", "fahrenheit", "degree_fahrenheit"]),
    (True, ["°", "degree", "deg"]),
    (True, ["k°C", "kdegC"]),
    (False, ["μdegC", "µ°C", "udegC", "u°C", "μ°C"]),
    (True, ["1/°", "1/degree", "degree**-1", "°**-1"]),
    (True, ["xa/°C", "xa/degC", "xa*degC**-1"]),
    (True, ["%", "percent"]),
    (False, ["%", "0.01*dimensionless", "dimensionless/100"]),
    (True, ["xa*%", "xa*percent", "%*xa", "percent * xa"]),
    (True, ["%**2", "%*%", "percent*percent", "percent**2", "% * %", "%*percent"]),
    (True, ["xa*%/(xb*%**3)", "xa/xb/%/%", "xa*%**-2/xb"]),
    (True, ["xa/%**2", "xa/percent**2", "xa*%**-2"]),
    (True, ["2.5*xa", "5*xa/2", "xa*2.5", "5/2*xa", "2.5 * xa", "2.50*xa", "25e-1*xa", "xa*5/2"]),
    (True, ["1e3*xa", "1000*xa", "1000.0*xa", "1E3*xa", "10**3*xa", "1e+3*xa"]),
    (False, ["1000*xa", "kxa"]),
    (False, ["J", "joule", "Joule", "kg*m**2/s**2", "N*m"]),
    (True, ["dimensionless", "(dimensionless)"]),
    (False, ["dimensionless", "1", "", "xa/xa", "xb**0"]),
    (True, ["delta_degC", "Δ°C"]),
    (True, ["delta_degF", "Δ°F"]),
    (True, ["xa/delta_degC", "xa/Δ°C"]),
    (True, ["xt", "xt*1", "1*xt", "xt/1", "(xt)", " xt "]),
    (True, ["kxt", "kxt*1"]),
]


def registry_edit(ctx, reg, N=2):
    """add + modify + remove of symbols no unit under test mentions, through the registry's own methods, with symbolic values"""
    D = ctx.mods["unyt"].dimensions
    reg.add("xq", positive_scale(ctx, "tq", N), D.force)
    reg.modify("xd", positive_scale(ctx, "tm", N))
    reg.remove("xe")


def make_spell_case(i, identical, group):
    def h(ctx):
        reg, env, scale_of, dimvec_of = make_env(ctx, N=6, offset_unit=True, spare=True)
        Unit = ctx.mods["unyt"].Unit
        ref = Unit(group[0], registry=reg)
        hash(ref)
        for when in ("", "after a registry edit, "):
            if when:
                # the reference unit was made (and hashed) before the edit, the spellings are read after it
                registry_edit(ctx, reg, 6)
            for s in group[1:]:
                reg._unit_object_cache.clear()
                r = call(lambda: Unit(s, registry=reg))
                ctx.require(f"{when}spelling: parses", r[0] == "ok", spelling=s, got=r[1])
                if r[0] != "ok":
                    continue
                v = r[1]
                ctx.require(f"{when}spelling: equal unit (dimension, offset, scale for all scales)",
                            And(dimvec(v.dimensions) == dimvec(ref.dimensions), close(v.base_offset, ref.base_offset), close(v.base_value, ref.base_value),
                                bool(v == ref)), spelling=s, reference=group[0])
                if identical:
                    ctx.require(f"{when}spelling: identical expression and hash", And(v.expr == ref.expr, hash(v) == hash(ref)), spelling=s, reference=group[0], got=repr(v))
                if not when:
                    ctx.observe(s, v.base_value)
            roundtrip(ctx, f"{when}spelling reference round trip", ref, reg, observe=False)
    name = group[0].replace("/", ":").replace("*", ".").replace(" ", "_") or "empty"
    return Case(f"C20/spell/{i:02d}-{name}", h, group="spell")


# ----------------------------------------------------------------------------- every table name (ground) - thorough only

def make_table_case(names, idx):
    def h(ctx):
        Unit = ctx.mods["unyt"].Unit
        reg = ctx.registry([])
        x = positive_scale(ctx, "tc", 2)
        ctx.add_row(reg, "xc", ctx.mods["unyt"].dimensions.time, x, 0.0)
        xc = Unit("xc", registry=reg)
        for n in names:
            u = Unit(n, registry=reg)
            roundtrip(ctx, f"table {n}", u, reg, observe=False)
            for p in (-1, 2, F(1, 2)):
                r = call(lambda: (u ** p) / xc)
                if r[0] == "ok":
                    roundtrip(ctx, f"table {n}**{p}/xc", r[1], reg, observe=False)
    return Case(f"C20/table/{idx:03d}-{names[0]}", h, group="table")


# ----------------------------------------------------------------------------- histories between the first hash / first print and the re-reading
#
# The clause "str() and repr() parse back to ... the identical expression and hash" is quantified over every unit obtainable from
# strings or arithmetic - whatever happened to the unit and to its registry between the moment the unit was made (hashed, printed,
# used in a conversion) and the moment the text is read again. The families above re-read at once; this one enumerates that history.

# how the unit came to be hashed BEFORE the history: by the caller, or inside unyt's own lru caches (keyed on units)
ROUTES = ["hash()", "dict key", "set member", "lru of q*q", "lru of q.to(u)", "lru of get_base_equivalent", "not hashed"]

# one step of a history. `edits the table` = the registry's contents (hence its system id, hence every hash) change
EVENTS = ["add", "add-offset-prefixable", "define", "modify", "modify-same", "modify-quantity", "remove", "remove-readd", "prefixed-lookup",
          "sibling-copy-edit", "early-print"]
H1 = [(e,) for e in EVENTS]
H2 = [(a, b) for a in ("add", "modify", "remove") for b in ("add", "modify", "remove")] + [
    ("define", "remove"), ("early-print", "add"), ("prefixed-lookup", "modify"), ("add", "early-print"), ("sibling-copy-edit", "add"), ("remove-readd", "modify-same"),
    ("add-offset-prefixable", "prefixed-lookup"), ("modify-quantity", "define")]
H3 = [("add", "modify", "remove"), ("add", "remove", "modify"), ("modify", "add", "remove"), ("modify", "remove", "add"), ("remove", "add", "modify"),
      ("remove", "modify", "add"), ("modify", "modify", "add"), ("add", "add", "add"), ("define", "early-print", "remove"), ("remove-readd", "add", "modify-same"),
      ("prefixed-lookup", "add-offset-prefixable", "prefixed-lookup"), ("early-print", "modify-quantity", "sibling-copy-edit")]
CONFIGS = ["custom", "copied", "deepcopied", "default"]           # the registry the unit lives in
EDIT_NAMES = ["xd", "xe", "xq", "xr", "xs", "xv", "xw"]

HIST_TERMS = [A("xa"), A("kxa"), A("%"), A("Ω"), A("μm"), M(A("xa"), A("xb")), Dv(A("xa"), P(A("xc"), 2)), P(M(A("xa"), A("xb")), F(1, 2)),
              Dv(P(A("kxa"), 2), P(A("xb"), F(3, 2))), Dv(A("g"), P(A("cm"), 3)), M(P(A("Hz"), F(1, 2)), A("μm")), M(A("xa"), A("%")), Dv(A("xb"), M(A("Å"), A("xc"))),
              S(Dv(P(A("m"), 2), A("cm"))), S(M(Dv(A("mile"), A("km")), A("xb"))), K(2.5, A("xa")), K(1e-7, Dv(A("xa"), A("xb")))]
# no oracle scale for these (offset / logarithmic / angle / bare units): compared with the unit itself
HIST_SPECIAL = [A("xt"), A("kxt"), A("degC"), A("degF"), A("mdegC"), A("delta_degC"), Dv(A("xa"), A("K")), A("dB"), A("degree"), Dv(A("degree"), A("xc")),
                A("lat"), A("dimensionless"), A("1"), Dv(A("xa"), A("xa"))]


def first_hash(ctx, route, u, reg):
    if route.startswith("hash()"):
        hash(u)
    elif route == "dict key":
        return {u: route}
    elif route == "set member":
        return {u}
    elif route == "lru of q*q":           # array.py _multiply_units, cached on (registry ids, unit, unit)
        q = ctx.quantity(ctx.real("pay", pos=True), u, reg)
        call(lambda: q * q)
    elif route == "lru of q.to(u)":       # unit_object.py _check_em_conversion(unit, to_unit, registry=...)
        q = ctx.quantity(ctx.real("pay", pos=True), u, reg)
        call(lambda: q.to(u))
    elif route == "lru of get_base_equivalent":
        call(lambda: u.get_base_equivalent("mks"))
    return None


class _History:
    """runs the events through the registry's public interface (add / modify / remove / define_unit / copy) with symbolic values and
    keeps the harness' own account of what the edited symbols must be afterwards"""

    def __init__(self, ctx, reg, config, scale_of, used, N):
        self.ctx, self.reg, self.config, self.scale_of, self.N = ctx, reg, config, scale_of, N
        self.spare = [n for n in ("xd", "xe") if n not in used]     # symbols the unit under test does not mention
        self.fresh = [n for n in ("xq", "xr", "xs", "xv", "xw")]
        self.expect = {}                                               # name -> oracle scale | None (gone)
        self.k = 0

    def sym(self, what):
        self.k += 1
        return positive_scale(self.ctx, f"t{what}{self.k}", self.N)

    def run(self, ev, units):
        ctx, reg = self.ctx, self.reg
        mods = ctx.mods
        D, Unit = mods["unyt"].dimensions, mods["unyt"].Unit
        refused = self.config == "default" and ev in ("modify", "modify-same", "modify-quantity", "remove", "remove-readd")
        if refused:
            # the default registry refuses to be modified: the refusal is the event (nothing may change)
            r = call(lambda: reg.modify(self.spare[0], 2.0) if ev.startswith("modify") else reg.remove(self.spare[0]))
            ctx.require("history: the default registry refuses modify/remove with TypeError", r[0] == "raise" and type(r[1]).__name__ == "TypeError", event=ev, got=r[1])
            return
        if ev == "add":
            n, s = self.fresh.pop(0), self.sym("q")
            reg.add(n, s, D.force)
            self.expect[n] = s
            self.spare.append(n)
        elif ev == "add-offset-prefixable":
            n, s = self.fresh.pop(0), self.sym("q")
            o = ctx.real(f"oq{self.k}")
            reg.add(n, s, D.temperature, offset=o, prefixable=True)
            self.expect[n] = s
            self.spare.append(n)
        elif ev == "define":
            n, s = self.fresh.pop(0), self.sym("q")
            base = self.spare[0]
            q = ctx.quantity(s, Unit(base, registry=reg), reg)
            mods["UO"].define_unit(n, q, registry=None if self.config == "default" else reg)
            self.expect[n] = s * self.expect.get(base, self.scale_of.get(base))
            self.spare.append(n)
        elif ev == "modify":
            n, s = self.spare[0], self.sym("m")
            reg.modify(n, s)
            self.expect[n] = s
        elif ev == "modify-same":
            n = self.spare[0]
            reg.modify(n, self.expect.get(n, self.scale_of.get(n)))
        elif ev == "modify-quantity":
            n, s = self.spare[0], self.sym("m")
            reg.modify(n, ctx.quantity(s, Unit("kg", registry=reg), reg))
            self.expect[n] = s
        elif ev == "remove":
            n = self.spare.pop(0)
            reg.remove(n)
            self.expect[n] = None
        elif ev == "remove-readd":
            n = self.spare[0]
            row = reg.lut[n]
            reg.remove(n)
            reg.add(n, row[0], row[1], tex_repr=row[3], offset=row[2], prefixable=row[4])
        elif ev == "prefixed-lookup":
            for n in ("Mxa", "nxa", "Mxt", "kxd", "kxq"):
                call(lambda: Unit(n, registry=reg))
                call(lambda: n in reg)
        elif ev == "sibling-copy-edit":
            import copy
            other = copy.copy(reg)
            other.add("xz", self.sym("z"), D.force)
            if "xd" in other.lut:
                zs = self.sym("z")
                call(lambda: other.modify("xd", zs))        # (a copy of the default registry refuses, like the default registry)
        elif ev == "early-print":
            for _, u in units:
                str(u), repr(u), call(lambda: u.latex_repr)
        else:
            raise KeyError(ev)

    def took_effect(self):
        """the edits are real: every edited symbol now reads as the harness' account says (scale for all scales) or is gone"""
        Unit = self.ctx.mods["unyt"].Unit
        for n, s in sorted(self.expect.items()):
            r = call(lambda: Unit(n, registry=self.reg))
            if s is None:
                self.ctx.require("history: a removed symbol no longer parses (UnitParseError)", r[0] == "raise" and type(r[1]).__name__ == "UnitParseError", name=n, got=r[1])
            else:
                self.ctx.require("history: an added/modified symbol reads with its new scale", r[0] == "ok" and close(r[1].base_value, s), name=n, got=r[1])


def _scrub_default(mods):
    """the default registry is process-global: take the harness' symbols out again (also when a path is abandoned)"""
    reg = mods["UR"].default_unit_registry
    dirty = [n for n in list(reg.lut) if n in _HARNESS_SYMBOLS]
    for n in dirty:
        del reg.lut[n]
        if hasattr(mods["unyt"], n):
            delattr(mods["unyt"], n)
    if dirty:
        reg._unit_system_id = None
    reg._unit_object_cache.clear()


_HARNESS_SYMBOLS = set(NAMES) | set(EDIT_NAMES)


def reread_after_history(ctx, tag, units, reg, before, want, want_dims):
    """`units`: [(route, unit)] - equal units built the same way, one object per route. Every printed form (taken before the history and
    now) is read again, from a cold and from a warm unit-object cache, as text and as utf-8 bytes, and compared with every one of them."""
    Unit = ctx.mods["unyt"].Unit
    ref = units[0][1]
    coef = numeric_coefficient(ref.expr)
    identical = coef == 1 and not ref.expr == 1
    for fname, f in (("str", str), ("repr", repr)):
        s = f(ref)
        t = f"{tag} {fname}"
        ctx.require(f"{t}: the unit prints as it did before the history", all(f(u) == before[fname] for _, u in units), printed=s, before=before[fname])
        for temp in ("cold", "warm"):
            if temp == "cold":
                reg._unit_object_cache.clear()
            r = call(lambda: Unit(before[fname], registry=reg))
            ctx.require(f"{t}: parses", r[0] == "ok", printed=before[fname], got=r[1], cache=temp)
            if r[0] != "ok":
                continue
            v = r[1]
            ctx.require(f"{t}: same dimension", dimvec(v.dimensions) == dimvec(ref.dimensions), printed=s, cache=temp)
            ctx.require(f"{t}: same scale for all scales", close(v.base_value, ref.base_value), printed=s, cache=temp)
            ctx.require(f"{t}: same offset", close(v.base_offset, ref.base_offset), printed=s, cache=temp)
            if want is not None:
                ctx.require(f"{t}: denotes the unit that was written (oracle scale, dimension)", And(close(v.base_value, want), dimvec(v.dimensions) == want_dims), printed=s, cache=temp)
            for route, u in units:
                ctx.require(f"{t}: equal unit [{route}]", bool(v == u) and bool(u == v), printed=s, cache=temp)
                if identical:
                    ctx.require(f"{t}: identical expression and hash [{route}]", And(v.expr == u.expr, hash(v) == hash(u)), printed=s, cache=temp,
                                hash_reread=hash(v), hash_unit=hash(u))
                    ctx.require(f"{t}: the unit and its re-read text are one set element and find each other in a dict [{route}]",
                                len({u, v}) == 1 and {u: 1}.get(v) == 1 and {v: 1}.get(u) == 1, printed=s, cache=temp)
            if identical:
                ctx.require(f"{t}: printing is a fixed point", f(v) == s, printed=s, reprinted=f(v))
        reg._unit_object_cache.clear()
        rb = call(lambda: Unit(s.encode("utf-8"), registry=reg))
        ctx.require(f"{t}: the utf-8 bytes of the text read as the text does",
                    rb[0] == "ok" and And(rb[1].expr == ref.expr or not identical, bool(rb[1] == ref), close(rb[1].base_value, ref.base_value),
                                          not identical or hash(rb[1]) == hash(ref)), printed=s, got=rb[1])
    hs = [hash(u) for _, u in units]
    ctx.require(f"{tag}: equal units built the same way have one hash now, and it is stable between two calls",
                len(set(hs)) == 1 and hs == [hash(u) for _, u in units], routes=[r for (r, _), h in zip(units, hs) if h != hs[-1]])


def make_hist_case(t, history, config, special=False):
    N = 2 if special else root_degree(t)
    names = sorted(atoms_of(t))

    def h(ctx):
        mods = ctx.mods
        Unit = mods["unyt"].Unit
        if config == "default":
            _scrub_default(mods)
        try:
            reg, env, scale_of, dimvec_of = make_env(ctx, N=N, offset_unit=special, extra=[n for n in names if n != "1"],
                                                     base=mods["UR"].default_unit_registry if config == "default" else None,
                                                     copied={"copied": True, "deepcopied": "deep"}.get(config, False),
                                                     spare=True)
            if special:
                want = wd = None
            else:
                m = mono_expand(t)
                want, wd = mono_scale(m, scale_of), mono_dimvec(m, dimvec_of)
            units = []
            for route in ROUTES:
                reg._unit_object_cache.clear()              # one object per route (units read from strings are shared through this cache)
                u = build(t, _Env(Unit, reg), mods, reg)
                units.append((route, u))
            if want is not None:
                ctx.require("built unit has the oracle's scale and dimension", And(close(units[0][1].base_value, want), dimvec(units[0][1].dimensions) == wd))
            before = {"str": str(units[0][1]), "repr": repr(units[0][1])}
            if numeric_coefficient(units[0][1].expr) == 1 and not units[0][1].expr == 1:
                # the same unit obtained from its text instead of arithmetic: it sits in the registry's unit-object cache under that text
                reg._unit_object_cache.clear()
                units.append(("hash() of the unit read from its text", Unit(before["str"], registry=reg)))
            keep = [first_hash(ctx, route, u, reg) for route, u in units]
            hist = _History(ctx, reg, config, scale_of, set(names), N)
            for ev in history:
                hist.run(ev, units)
            hist.took_effect()
            reread_after_history(ctx, f"after {'+'.join(history)}:", units, reg, before, want, wd)
            ctx.observe("printed", before["repr"])
            ctx.observe("scale", units[0][1].base_value)
            del keep
        finally:
            if config == "default":
                _scrub_default(mods)
    return Case(f"C20/hist/{config}/{'+'.join(history)}/{tid(t)}", h, group="hist")


def hist_cases(quick):
    """histories x terms x registry configurations. Every one-step history meets every term in the custom registry; the two- and
    three-step histories and the other two configurations rotate through the terms (quick) or meet a wider sample (thorough)."""
    out, seen = [], set()

    def add(t, hist, config, special):
        key = (t, hist, config)
        if key not in seen:
            seen.add(key)
            out.append(make_hist_case(t, hist, config, special))
    terms = [(t, False) for t in HIST_TERMS] + [(t, True) for t in HIST_SPECIAL]
    for hist in H1:
        for t, sp in terms:
            add(t, hist, "custom", sp)
    k = 0
    per = 2 if quick else 8
    for hist in H2 + H3:
        for j in range(per):
            t, sp = terms[(k * 5 + j * 7) % len(terms)]
            add(t, hist, "custom", sp)
        k += 1
    for config in CONFIGS[1:]:
        for hist in H1 + H2 + H3:
            for j in range(1 if quick else 4):
                t, sp = terms[(k * 5 + j * 7) % len(terms)]
                add(t, hist, config, sp)
            k += 1
    return out


def simp_terms(n, seed=23):
    rnd = random.Random(seed)
    out = [Dv(P(A("m"), 2), A("cm")), Dv(A("km"), A("μm")), M(A("%"), A("%")), Dv(A("%"), A("%")), P(A("%"), 2), M(A("xb"), Dv(A("m"), A("cm"))),
           Dv(M(A("Å"), A("km")), P(A("cm"), 2)), P(Dv(A("km"), A("cm")), F(1, 2)), Dv(P(A("m"), F(3, 2)), P(A("cm"), F(1, 2))), Dv(A("kΩ"), A("Ω")),
           M(Dv(A("kΩ"), A("Ω")), Dv(A("s"), A("xb"))), Dv(A("cm"), A("km")), M(P(A("μm"), 3), P(A("m"), -2)), Dv(A("m"), M(A("%"), A("cm")))]
    pool = [A(a) for a in SIMP_ATOMS]
    while len(out) < n:
        k = rnd.choice((2, 3, 3, 4))
        t = None
        for i in range(k):
            a = rnd.choice(pool)
            f = P(a, rnd.choice(EXPONENTS[1:])) if rnd.random() < 0.55 else a
            t = f if t is None else (M(t, f) if rnd.random() < 0.5 else Dv(t, f))
        if rnd.random() < 0.25:
            t = P(t, rnd.choice([F(1, 2), 2, -1, F(3, 2), F(1, 3), 3]))
        if t not in out:
            out.append(t)
    return out


def cases(tier, mods):
    check_names(mods, NAMES + EDIT_NAMES)
    quick = tier == "quick"
    out = []
    atoms, d1, d2, d3 = catalogue(ATOMS, 200 if quick else 1500, 200 if quick else 1500, seed=20)
    for t in atoms + d1 + d2 + d3:
        out.append(make_rt_case(t))
    rnd0 = random.Random(19)
    for t in atoms + d1 + rnd0.sample(d2, 60 if quick else 600) + rnd0.sample(d3, 60 if quick else 600):
        out.append(make_parse_case(t))
    st = simp_terms(120 if quick else 600)
    for i, t in enumerate(st):
        out.append(make_rt_case(S(t), "rtsimp", i))
    i = 0
    for a, b in RATIO_PAIRS:
        dv = table_unit(a)[1]
        c = next(n for n, d in (("xa", {L_: F(1)}), ("xb", {M_: F(1)})) if d != dv)   # a symbolic bystander that cannot cancel
        for t in (Dv(A(a), A(b)), Dv(A(b), A(a)), M(M(A(a), P(A(b), -1)), A(c)), Dv(P(A(a), 2), A(b)), Dv(A(c), Dv(A(a), A(b))), M(Dv(A(a), A(b)), A("Ω"))):
            out.append(make_rt_case(S(t), "rtpair", i))
            i += 1
    for t in (M(Dv(A("yr"), A("day")), A("s")), Dv(M(A("mile"), A("inch")), M(A("km"), A("cm"))), P(Dv(A("mile"), A("km")), 2), P(Dv(A("inch"), A("cm")), F(1, 2)),
              Dv(M(A("lb"), A("ft")), M(A("kg"), A("m"))), Dv(P(A("mile"), 2), M(A("km"), A("xb")))):
        out.append(make_rt_case(S(t), "rtpair", i))
        i += 1
    rnd = random.Random(21)
    pool = atoms + d1 + d2
    i = 0
    for t in rnd.sample(pool, 12 if quick else 60):
        for c in COEFS:
            out.append(make_rt_case(K(c, t), "rtcoef", i))
            i += 1
    for kind, terms in special_terms().items():
        out.append(make_special_case(kind, terms))
    for i, (identical, group) in enumerate(SPELL):
        out.append(make_spell_case(i, identical, group))
    out.extend(hist_cases(quick))
    if not quick:
        from unyt._unit_lookup_table import default_unit_symbol_lut as lut, unit_prefixes
        names = sorted(lut)
        pref = [p + n for n in names if lut[n][4] for p in unit_prefixes]
        allnames = names + pref
        for k in range(0, len(allnames), 25):
            out.append(make_table_case(allnames[k:k + 25], k // 25))
    return out
