"""Shared template catalogue of C06 / C07 (DESIGN.md section 4): NumPy array functions and ndarray methods as call
templates `fn(N, E)`.

  N  the numpy namespace of the run (real numpy for the quantity runs; for the stripped run in symbolic mode a proxy whose
     functions try NumPy's own implementation and fall back to the A8 uninterpreted kernel exactly like the `np` that
     unyt._array_functions sees)
  E  the argument factory of the run (`Env`): E.q(name, group, shape) is a quantity of dimension group `group` in the
     quantity runs and the stripped object/float array in the bare run; E.out(...) an out= buffer; E.num(...) a bare
     number that denotes a quantity in the unit of its group.

The same template is therefore executed (C06) on quantities and on the stripped payload, and (C07) on x@u and on the
re-expressed (x*k)@u' where scale(u) = k*scale(u').
"""
import inspect

import numpy as np

from symx import core
from symx.core import SymBool, SymReal
from .common import And, Iff, close, elements, eqmath, exact_eq

# ----------------------------------------------------------------------------------------------------------- numpy patches
# A11: numpy's own object-dtype branches differ from its float branches in two places that matter here; both patches are
# no-ops for float data (checked by the shim-conformance step and by every replay, which run on float64).


class _NTProxy:
    """numpy._core._methods.nt with `floating` widened to accept np.object_: _var() then squares the deviations with
    um.square (the float branch) instead of multiply(x, conj(x)).real (the generic object branch)"""

    def __init__(self, real):
        self._real = real

        class _FloatingMeta(type):
            def __subclasscheck__(cls, sub):
                return sub is np.object_ or issubclass(sub, real.floating)

        class floating(metaclass=_FloatingMeta):
            pass

        self.floating = floating

    def __getattr__(self, k):
        return getattr(self._real, k)


def install_numpy_patches():
    from symx import kernels
    # branch pruning on k*x < k*y (k > 0) needs the nonlinear feasibility query to finish: with the engine's default 100 ms a
    # loaded machine answers `unknown`, both branches are explored and the path count explodes (sound, but slow)
    core.Explorer.NL_TIMEOUT_MS = max(core.Explorer.NL_TIMEOUT_MS, 1500)
    kernels.KernelModel.complex_outputs = True
    kernels.KernelModel.integer_outputs = True
    kernels.KernelModel.strict = True
    if "loop of ufunc does not support" not in kernels.KernelModel.strict_patterns:
        kernels.KernelModel.strict_patterns += ("loop of ufunc does not support",)
    kernels.FuncProxy.call_fallback = True
    kernels.NpShimAF.object_empty = True
    from numpy._core import _methods
    if not isinstance(_methods.nt, _NTProxy):
        _methods.nt = _NTProxy(_methods.nt)
    import numpy.lib._function_base_impl as fb
    if not getattr(fb.average, "_symx_patched", False):
        orig = fb.average

        def average(a, axis=None, weights=None, returned=False, **kw):
            """np.cov/np.corrcoef call average(X, returned=True): with weights=None numpy builds the count with
            `avg.dtype.type(...)`, which for object dtype is a python float without .shape; give it the float64 count"""
            arr = np.asanyarray(a)
            if returned and weights is None and arr.dtype == object:
                avg = orig(a, axis=axis, weights=None, returned=False, **kw)
                aa = np.asanyarray(avg)
                scl = np.float64(arr.size / aa.size)
                if scl.shape != aa.shape:
                    scl = np.broadcast_to(scl, aa.shape).copy()
                return avg, scl
            return orig(a, axis=axis, weights=weights, returned=returned, **kw)

        average._symx_patched = True
        fb.average = average


ASSUMPTIONS = [
    "A11 numpy internals on object payloads: numpy._core._methods._var takes its float branch (um.square) for object dtype; "
    "the average(returned=True, weights=None) call inside np.cov builds its count as float64 instead of np.object_(...) "
    "(both are no-ops on float data)",
    "A8 (Tier 2) LAPACK / FFT / interp / histogram kernels are uninterpreted functions named by the NumPy function and its "
    "bound non-payload arguments; C07 adds ground instances of the homogeneity K(k*x) = k**p * K(x) from an oracle table",
]

# ----------------------------------------------------------------------------------------------------------- units of the runs

GROUP_DIMS = {"L": "length", "T": "time", "M": "mass", "L2": "length", "K": "temperature"}
UNITS = {"A": {"L": "xa", "T": "xc", "M": "xe", "L2": "xg", "K": "xta"},
         "B": {"L": "xb", "T": "xd", "M": "xf", "L2": "xh", "K": "xtb"}}
NAMES = sorted(set(UNITS["A"].values()) | set(UNITS["B"].values()))


# a coherent change of units re-expresses every input of one dimension by the same factor: L and L2 (two different units of
# length inside one call) share k_L
KGROUP = {"L2": "L"}


def make_registry(ctx, groups, both):
    """registry with one symbolic-scale unit per dimension group for run A (scale k_g*s_g) and, if `both`, run B (s_g)"""
    D = ctx.mods["unyt"].dimensions
    reg = ctx.registry([])
    for g in groups:
        if g in ("1", "bare"):
            continue
        dims = getattr(D, GROUP_DIMS[g])
        sB = ctx.real("s_" + g, pos=True)
        if both:
            k = ctx.real("k_" + KGROUP.get(g, g), pos=True)
            ctx.add_row(reg, UNITS["A"][g], dims, k * sB)
            ctx.add_row(reg, UNITS["B"][g], dims, sB)
        else:
            ctx.add_row(reg, UNITS["A"][g], dims, sB)
    if both and "L" in groups and "L2" in groups:
        # two units of one dimension inside one call: stay out of unyt's deliberate "equal up to 1e-9" band (HARNESS_GUIDE)
        from .common import distinct_scales
        distinct_scales(ctx, ctx.real("s_L", pos=True), ctx.real("s_L2", pos=True))
    return reg


MIX_KINDS = ("scale", "offset", "affine")


def make_mixed_registry(ctx, kind, groups):
    """two different units of one dimension: `scale` length units xa/xg with symbolic scales; `offset` temperature units xta/xtb with
    the SAME symbolic scale and different symbolic offsets; `affine` xta/xtb with different scales and offsets. Scales/offsets are
    exactly equal or clearly different (outside unyt's deliberate isclose(1e-9) band, HARNESS_GUIDE lessons). -> reg, (U1, U2)"""
    from .common import U, Or, distinct_scales, vabs
    D = ctx.mods["unyt"].dimensions
    reg = ctx.registry([])
    if kind == "scale":
        s1, s2 = ctx.real("s_X", pos=True), ctx.real("s_X2", pos=True)
        distinct_scales(ctx, s1, s2)
        U1, U2 = U("xa", s1, 0.0), U("xg", s2, 0.0)
        dims = D.length
    else:
        s1 = ctx.real("s_X", pos=True)
        s2 = s1 if kind == "offset" else ctx.real("s_X2", pos=True)
        if kind == "affine":
            distinct_scales(ctx, s1, s2)
        o1, o2 = ctx.real("o_X"), ctx.real("o_X2")
        ctx.assume(Or(exact_eq(o1, o2), vabs(o1 - o2) > (vabs(o1) + vabs(o2)) * 1e-3))
        U1, U2 = U("xta", s1, o1), U("xtb", s2, o2)
        dims = D.temperature
    ctx.add_row(reg, U1.name, dims, U1.s, U1.o)
    ctx.add_row(reg, U2.name, dims, U2.s, U2.o)
    for g in groups:
        if g in ("T", "M"):
            ctx.add_row(reg, UNITS["A"][g], getattr(D, GROUP_DIMS[g]), ctx.real("s_" + g, pos=True))
    return reg, (U1, U2)


def group_dims(ctx, spec):
    """dimension (sympy) of an oracle spec {group: exponent}"""
    D = ctx.mods["unyt"].dimensions
    d = D.dimensionless
    for g, e in spec.items():
        d = d * getattr(D, GROUP_DIMS[g]) ** e
    return d


# ----------------------------------------------------------------------------------------------------------- argument factory

def _scale(x, f):
    if f is None:
        return x
    if isinstance(x, np.ndarray) and x.dtype == object:
        out = np.empty(x.shape, dtype=object)
        for idx in np.ndindex(*x.shape):
            out[idx] = x[idx] * f
        return out
    return x * f


class Env:
    def __init__(self, ctx, mode, reg=None, run="A", alias=False, mix=None):
        self.ctx, self.mode, self.reg, self.run = ctx, mode, reg, run
        self.made = {}
        self.group = {}
        # mix = (U1, U2): oracle views of two different units of ONE dimension. Groups "X"/"X2": run "M" (mixed) gives X-operands
        # unit U1 and X2-operands unit U2 with the raw payload; run "C" (common) gives both unit U1, the X2 payload re-expressed by
        # the harness through the affine oracle SI(x) = s*(x - o)
        self.mix = mix
        # alias: the stripped run of C06 works on its own symbols x~ with the assumption x~ == x ("the same data"), so that
        # the equality of the two results is a solver verdict under that assumption and not a syntactic coincidence
        self.alias = alias and ctx.symbolic and not ctx.pinned

    def _real(self, name, **kw):
        v = self.ctx.real(name, **kw)
        if not self.alias:
            return v
        w = self.ctx.real(name + "~", **kw)
        self.ctx.assume(exact_eq(w, v))
        return w

    def _reals(self, name, shape, **kw):
        if not self.alias:
            return self.ctx.reals(name, shape, **kw)
        a = np.empty(shape, dtype=object)
        for idx in np.ndindex(*shape):
            a[idx] = self._real(name + "".join(f"_{i}" for i in idx), **kw)
        return a

    def factor(self, group):
        if self.run in ("A", "M", "C") or group in ("1", "bare", None):
            return None
        return self.ctx.real("k_" + KGROUP.get(group, group), pos=True)

    def unit(self, group):
        return self.ctx.mods["unyt"].Unit(UNITS["A" if self.run in ("M", "C") else self.run][group], registry=self.reg)

    def _mix_payload(self, x, group):
        if self.mix is None or group != "X2" or self.run != "C":
            return x
        U1, U2 = self.mix

        def conv(e):
            return U2.si(e) / U1.s + U1.o if not (isinstance(U1.o, (int, float)) and U1.o == 0) else U2.si(e) / U1.s
        if isinstance(x, np.ndarray):
            out = np.empty(x.shape, dtype=x.dtype)
            for idx in np.ndindex(*x.shape):
                out[idx] = conv(x[idx])
            return out
        return conv(x)

    def _wrap(self, x, group):
        if self.mix is not None and group in ("X", "X2") and self.mode != "bare":
            U1, U2 = self.mix
            name = U2.name if (group == "X2" and self.run == "M") else U1.name
            return self.ctx.quantity(self._mix_payload(x, group), name, self.reg)
        if self.mode == "bare" or group in ("bare", None):
            return x
        if group == "1":
            return self.ctx.quantity(x, "dimensionless", self.reg)
        return self.ctx.quantity(x, UNITS["A" if self.run in ("M", "C") else self.run][group], self.reg)

    def q(self, name, group="L", shape=(2,), pos=False, nonzero=False, increasing=False, lo=None, hi=None, pattern=None):
        ctx = self.ctx
        if pattern is not None:
            # generic data for opaque kernels: one positive symbol times a concrete, non-degenerate pattern
            x = ctx.const_array(np.asarray(pattern, dtype=float)) * self._real(name + "_x", pos=True)
            x = np.asarray(x, dtype=object) if ctx.symbolic else np.asarray(x, dtype=float)
            shape = x.shape
        else:
            x = self._reals(name, shape, pos=pos, nonzero=nonzero, lo=lo, hi=hi)
        if increasing:
            # strictly increasing by construction: x_0, x_0 + d_1, x_0 + d_1 + d_2 ... with d_i > 0
            y = x.copy()
            flat = list(x.ravel())
            acc = flat[0]
            for i, idx in enumerate(np.ndindex(*shape)):
                if i:
                    acc = acc + self._real(f"{name}_d{i}", pos=True)
                    y[idx] = acc
            x = y
        v = self._wrap(_scale(x, self.factor(group)), group)
        self.made[name] = v
        self.group[name] = group
        return v

    def raw(self, name, shape=(2,), **kw):
        """a bare, dimensionless array in every run"""
        return self.q(name, "bare", shape, **kw)

    def num(self, name, group="L", **kw):
        """a bare python-level number that denotes a quantity in the unit of `group`"""
        v = self._real(name, **kw)
        f = self.factor(group)
        return v if f is None else v * f

    def out(self, name, group, shape):
        """an out= buffer with fresh initial content; `group` None -> a plain ndarray also in the quantity runs"""
        x = self._reals(name, shape)
        v = self._wrap(x, group)
        self.made[name] = v
        self.group[name] = group
        return v

    def const(self, values, group=None):
        """concrete numbers (as payload of this mode), optionally a quantity of `group` (not rescaled: use for 0/1 fill)"""
        return self._wrap(self.ctx.const_array(values), group)


class BareNP:
    """numpy namespace of the stripped run in symbolic mode"""

    def __init__(self, real=np):
        self._r = real

    def __getattr__(self, k):
        from symx.kernels import KernelModel
        v = getattr(self._r, k)
        if self._r is np and k in ("isclose", "allclose"):
            from symx.shims import NpShim  # A4: the same formula model that unyt's modules see
            return getattr(NpShim(), k)
        if hasattr(v, "_implementation"):
            return KernelModel(v)
        if inspect.ismodule(v) and v.__name__.startswith("numpy"):
            return BareNP(v)
        return v


def namespaces(ctx):
    """(N for quantity runs, N for the stripped run)"""
    return np, (BareNP() if ctx.symbolic else np)


# ----------------------------------------------------------------------------------------------------------- results

def is_unyt(x):
    return isinstance(x, np.ndarray) and hasattr(x, "units")


def flatten(r, path="r", depth=0):
    """result tree -> [(path, kind, obj)], kind: u unyt, a ndarray, n number, b boolean, s string, z None, o other"""
    if r is None:
        return [(path, "z", None)]
    if is_unyt(r):
        return [(path, "u", r)]
    if isinstance(r, np.ndarray):
        return [(path, "a", r)]
    if isinstance(r, (SymBool, bool, np.bool_)):
        return [(path, "b", r)]
    if isinstance(r, (SymReal, int, float, np.integer, np.floating)):
        return [(path, "n", r)]
    if type(r).__name__ == "SymComplex" or isinstance(r, (complex, np.complexfloating)):
        return [(path, "n", r)]
    if isinstance(r, str):
        return [(path, "s", r)]
    if isinstance(r, (tuple, list)) and depth < 4:
        out = [(path, "t", len(r))]
        for i, e in enumerate(r):
            out += flatten(e, f"{path}.{i}", depth + 1)
        return out
    return [(path, "o", type(r).__name__)]


def bare_of(x):
    """the stripped ndarray view of a leaf"""
    if is_unyt(x):
        return x.view(np.ndarray)
    return x


def parts(v):
    """real components of one element (complex -> re, im)"""
    if type(v).__name__ == "SymComplex":
        return [v.re, v.im]
    if isinstance(v, (complex, np.complexfloating)):
        return [float(v.real), float(v.imag)]
    return [v]


def leaf_elements(x):
    x = bare_of(x)
    if isinstance(x, (SymReal, SymBool)) or type(x).__name__ == "SymComplex":
        flat = [x]
    else:
        a = np.asarray(x)
        flat = list(a.ravel()) if a.dtype == object else [e.item() for e in a.ravel()]
    out = []
    for e in flat:
        if is_unyt(e):
            e = e.view(np.ndarray)[()]
        out += parts(e)
    return out


def leaf_shape(x):
    x = bare_of(x)
    if isinstance(x, (SymReal, SymBool)) or type(x).__name__ == "SymComplex":
        return ()
    return tuple(np.shape(x))


def _isbool(v):
    return isinstance(v, (SymBool, bool, np.bool_))


def elem_eq(x, y, exact=True, tol=None):
    if _isbool(x) or _isbool(y):
        if _isbool(x) and _isbool(y):
            return Iff(x, y)
        x = int(x) if isinstance(x, (bool, np.bool_)) else x
        y = int(y) if isinstance(y, (bool, np.bool_)) else y
        if isinstance(x, SymBool) or isinstance(y, SymBool):
            return False
    if exact:
        return eqmath(x, y)
    return close(x, y)


def leaves_equal(x, y, exact=True):
    xs, ys = leaf_elements(x), leaf_elements(y)
    if len(xs) != len(ys):
        return False
    return And(*[elem_eq(a, b, exact) for a, b in zip(xs, ys)]) if xs else True


REFUSAL = ("SymReal", "SymBool", "dtype('O')", "dtype(object)", "Cannot cast", "not supported for the input types", "No loop matching",
           "must be real", "loop of ufunc does not support", "float() argument", "<ufunc 'real'>", "<ufunc 'imag'>",
           "object arrays", "has no attribute 'shape'", "does not have an identity", "is not subscriptable", "doesn't define __", "data type not understood", "object of type")


def engine_refusal(e):
    """an exception that is NumPy refusing the symbolic object payload (an encoding limit, never 'unyt raised')"""
    msg = f"{type(e).__name__}: {e}"
    return any(s in msg for s in REFUSAL)


def numeric_obs(r):
    """numeric leaves for the shim-conformance comparison; a pinned value that is not a numeral (uninterpreted function of
    numerals) is dropped, which shows up as a conformance disagreement instead of crashing the worker"""
    import z3
    out = []
    for p, k, o in flatten(r):
        if k in ("u", "a", "n"):
            for e in leaf_elements(o):
                if _isbool(e):
                    continue
                if isinstance(e, SymReal) and not z3.is_rational_value(z3.simplify(e.t)):
                    continue
                out.append(e)
    return out


# ----------------------------------------------------------------------------------------------------------- templates

class Tpl:
    def __init__(self, name, key, fn, groups=("L",), dim=None, cov=True, tier=1, quick=True, c06=True, c07=True,
                 strings=False, homog=None, weight=1, exact=True, max_paths=400, note="", conform=True, kargs=None):
        self.conform = conform and tier == 1
        self.kargs = kargs or {}
        if weight == 1 and any(w in name for w in ("sort", "median", "percentile", "quantile", "intersect", "union", "setxor", "setdiff", "unique", "partition", "isin", "clip", "mix/")):
            self.weight = 5  # many orderings: schedule first
        self.name, self.key, self.fn, self.groups = name, key, fn, tuple(groups)
        self.dim, self.cov, self.tier, self.quick, self.c06, self.c07 = dim, cov, tier, quick, c06, c07
        self.strings, self.homog, self.weight, self.exact, self.max_paths, self.note = strings, homog, weight, exact, max_paths, note


TEMPLATES = []


def T(name, key, fn, **kw):
    TEMPLATES.append(Tpl(name, key, fn, **kw))


# functions of the test-suite whitelist (and of C06/C07's text) that cannot be templated: NumPy's own implementation refuses
# or mis-handles object payloads before/independently of any unyt code, and unyt has no handler that would be modelled
NOT_COVERED_UNWRAPPED = {
    "numpy.interp(left=/right= as quantities), numpy.histogram_bin_edges(range= as quantities)": "the C kernel / np.isfinite refuse the object payload before any unyt code decides (by hand: np.interp(..., left=5 cm) on fp in m returns the raw 5 labelled m)",
    "numpy.gradient": "allocates a float64 result for non-inexact dtypes (float() on a symbol)",
    "numpy.bincount": "C kernel casts weights to float64", "numpy.digitize": "C kernel casts to float64",
    "numpy.corrcoef": "clips c.real in place; .real of an object array is a read-only copy",
    "reductions with where= (np.sum/np.mean/np.prod(..., where=mask))": "object-dtype reductions have no identity, NumPy demands initial=",
    "numpy.median(keepdims=True) / isreal / iscomplex": "0-d object results are bare elements (A9), NumPy subscripts them",
    "numpy.real/imag": "object arrays route .real through the `real` ufunc, which unyt's ufunc registry does not list (float arrays never do)",
    "numpy.linalg.cholesky/qr/cond/slogdet/matrix_rank/svdvals(unwrapped LAPACK gufuncs)": "LAPACK gufuncs refuse object arrays and unyt has no handler (only handled LAPACK functions are modelled, Tier 2)",
}

DL = {"L": 1}
DT = {"T": 1}
DLT = {"L": 1, "T": 1}
DL2 = {"L": 2}
BARE = "bare"


# =========================================================================================================== Tier 1
# ---- joining / stacking (handlers): equal extents next to ragged ones
def _two(E, s1=(2,), s2=(2,), g2="L"):
    return [E.q("a", "L", s1), E.q("b", g2, s2)]


T("np.concatenate/eq", "numpy.concatenate", lambda N, E: N.concatenate(_two(E)), dim=DL)
T("np.concatenate/ragged", "numpy.concatenate", lambda N, E: N.concatenate(_two(E, (2,), (3,))), dim=DL)
T("np.concatenate/axis1kw", "numpy.concatenate", lambda N, E: N.concatenate(_two(E, (2, 2), (2, 1)), axis=1), dim=DL)
T("np.concatenate/axisNone", "numpy.concatenate", lambda N, E: N.concatenate(_two(E, (2, 2), (2,)), axis=None), dim=DL, quick=False)
T("np.concatenate/out", "numpy.concatenate", lambda N, E: N.concatenate(_two(E), out=E.out("o", "L", (4,))), dim=DL)
T("np.concatenate/out-bare", "numpy.concatenate", lambda N, E: N.concatenate(_two(E), out=E.out("o", None, (4,))), dim=DL, quick=False, c07=False)
T("np.concatenate/mixdim", "numpy.concatenate", lambda N, E: N.concatenate(_two(E, g2="T")), groups=("L", "T"))
T("np.vstack/eq", "numpy.vstack", lambda N, E: N.vstack(_two(E)), dim=DL)
T("np.vstack/2d", "numpy.vstack", lambda N, E: N.vstack(_two(E, (2, 2), (1, 2))), dim=DL, quick=False)
T("np.hstack/eq", "numpy.hstack", lambda N, E: N.hstack(_two(E)), dim=DL)
T("np.hstack/ragged", "numpy.hstack", lambda N, E: N.hstack(_two(E, (2,), (3,))), dim=DL)
T("np.hstack/2d", "numpy.hstack", lambda N, E: N.hstack(_two(E, (2, 2), (2, 1))), dim=DL)
T("np.dstack/eq", "numpy.dstack", lambda N, E: N.dstack(_two(E)), dim=DL)
T("np.dstack/2d", "numpy.dstack", lambda N, E: N.dstack(_two(E, (2, 2), (2, 2))), dim=DL, quick=False)
T("np.column_stack/eq", "numpy.column_stack", lambda N, E: N.column_stack(_two(E)), dim=DL)
T("np.column_stack/2d1d", "numpy.column_stack", lambda N, E: N.column_stack(_two(E, (2, 2), (2,))), dim=DL, quick=False)
T("np.stack/eq", "numpy.stack", lambda N, E: N.stack(_two(E)), dim=DL)
T("np.stack/axis1", "numpy.stack", lambda N, E: N.stack(_two(E), axis=1), dim=DL)
T("np.stack/axis-1pos", "numpy.stack", lambda N, E: N.stack(_two(E, (2, 2), (2, 2)), -1), dim=DL, quick=False)
T("np.stack/out", "numpy.stack", lambda N, E: N.stack(_two(E), axis=1, out=E.out("o", "L", (2, 2))), dim=DL)
T("np.block/row", "numpy.block", lambda N, E: N.block(_two(E)), dim=DL)
T("np.block/2x2", "numpy.block", lambda N, E: N.block([[E.q("a", "L", (2, 2)), E.q("b", "L", (2, 1))], [E.q("c", "L", (1, 3))]]), dim=DL)
T("np.append/eq", "numpy.append", lambda N, E: N.append(*_two(E)), dim=DL)
T("np.append/axis0", "numpy.append", lambda N, E: N.append(*_two(E, (2, 2), (1, 2)), axis=0), dim=DL, quick=False)
T("np.insert/scalar", "numpy.insert", lambda N, E: N.insert(E.q("a", "L", (3,)), 1, E.q("b", "L", ())), dim=DL)
T("np.insert/array-axis", "numpy.insert", lambda N, E: N.insert(E.q("a", "L", (2, 2)), 1, E.q("b", "L", (2,)), axis=1), dim=DL)
T("np.insert/num", "numpy.insert", lambda N, E: N.insert(E.q("a", "L", (3,)), [0, 2], E.num("v", "L")), dim=DL)
T("np.delete/idx", "numpy.delete", lambda N, E: N.delete(E.q("a", "L", (3,)), 1), dim=DL)
T("np.delete/axis", "numpy.delete", lambda N, E: N.delete(E.q("a", "L", (2, 3)), [0, 2], axis=1), dim=DL, quick=False)
T("np.pad/const", "numpy.pad", lambda N, E: N.pad(E.q("a", "L", (2,)), 1), dim=DL)
T("np.pad/edge2d", "numpy.pad", lambda N, E: N.pad(E.q("a", "L", (2, 2)), ((1, 0), (0, 1)), mode="edge"), dim=DL)
T("np.pad/reflect", "numpy.pad", lambda N, E: N.pad(E.q("a", "L", (3,)), (2, 1), mode="reflect"), dim=DL, quick=False)
T("np.pad/wrap", "numpy.pad", lambda N, E: N.pad(E.q("a", "L", (3,)), 2, mode="wrap"), dim=DL, quick=False)
T("np.pad/mean", "numpy.pad", lambda N, E: N.pad(E.q("a", "L", (3,)), 1, mode="mean"), dim=DL, quick=False)
T("np.pad/linear_ramp", "numpy.pad", lambda N, E: N.pad(E.q("a", "L", (2,)), 2, mode="linear_ramp"), dim=DL, quick=False)

# ---- selection
T("np.take/1d", "numpy.take", lambda N, E: N.take(E.q("a", "L", (3,)), [2, 0]), dim=DL)
T("np.take/scalar-index", "numpy.take", lambda N, E: N.take(E.q("a", "L", (3,)), 1), dim=DL)
T("np.take/axis", "numpy.take", lambda N, E: N.take(E.q("a", "L", (2, 3)), [2, 0], axis=1), dim=DL)
T("np.take/out", "numpy.take", lambda N, E: N.take(E.q("a", "L", (3,)), [2, 0], out=E.out("o", "L", (2,))), dim=DL)
T("np.take/mode-wrap", "numpy.take", lambda N, E: N.take(E.q("a", "L", (3,)), [4, -1], mode="wrap"), dim=DL)
T("np.take/mode-clip", "numpy.take", lambda N, E: N.take(E.q("a", "L", (3,)), [4, 1], mode="clip"), dim=DL, quick=False)
T("m.take/1d", "ndarray.take", lambda N, E: E.q("a", "L", (3,)).take([2, 0]), dim=DL)
T("m.take/axis-out", "ndarray.take", lambda N, E: E.q("a", "L", (2, 3)).take([1], axis=1, out=E.out("o", "L", (2, 1))), dim=DL, quick=False)
T("np.take_along_axis", "numpy.take_along_axis", lambda N, E: N.take_along_axis(E.q("a", "L", (2, 2)), np.array([[1, 0], [0, 0]]), 1), dim=DL)
T("np.compress", "numpy.compress", lambda N, E: N.compress([True, False, True], E.q("a", "L", (3,))), dim=DL)
T("np.extract", "numpy.extract", lambda N, E: N.extract(np.array([True, False, True]), E.q("a", "L", (3,))), dim=DL)
T("np.choose/eq", "numpy.choose", lambda N, E: N.choose(np.array([0, 1, 0]), [E.q("a", "L", (3,)), E.q("b", "L", (3,))]), dim=DL)
T("np.choose/out", "numpy.choose", lambda N, E: N.choose(np.array([1, 0]), [E.q("a", "L", (2,)), E.q("b", "L", (2,))], out=E.out("o", "L", (2,))), dim=DL)
T("np.choose/mode", "numpy.choose", lambda N, E: N.choose(np.array([2, 0]), [E.q("a", "L", (2,)), E.q("b", "L", (2,))], mode="wrap"), dim=DL)
T("np.select/default-q", "numpy.select", lambda N, E: N.select([np.array([True, False, False]), np.array([False, True, False])],
                                                              [E.q("a", "L", (3,)), E.q("b", "L", (3,))], default=E.q("c", "L", ())), dim=DL)
T("np.select/default0", "numpy.select", lambda N, E: N.select([np.array([True, False])], [E.q("a", "L", (2,))]), dim=DL)
T("np.where/xy", "numpy.where", lambda N, E: N.where(np.array([True, False]), E.q("a", "L", (2,)), E.q("b", "L", (2,))), dim=DL)
T("np.where/bcast", "numpy.where", lambda N, E: N.where(np.array([[True], [False]]), E.q("a", "L", (2,)), E.q("b", "L", ())), dim=DL)
T("np.where/cond-only", "numpy.where", lambda N, E: N.where(E.q("a", "L", (2,))), dim=BARE, cov=True)
T("np.where/mixdim", "numpy.where", lambda N, E: N.where(np.array([True, False]), E.q("a", "L", (2,)), E.q("b", "T", (2,))), groups=("L", "T"))
T("m.getitem/int", "ndarray.__getitem__", lambda N, E: E.q("a", "L", (3,))[1], dim=DL)
T("m.getitem/slice", "ndarray.__getitem__", lambda N, E: E.q("a", "L", (2, 3))[:, 1:], dim=DL)
T("m.getitem/mask", "ndarray.__getitem__", lambda N, E: E.q("a", "L", (3,))[np.array([True, False, True])], dim=DL)
T("m.getitem/fancy", "ndarray.__getitem__", lambda N, E: E.q("a", "L", (2, 3))[[1, 0], [2, 2]], dim=DL)
T("np.diag/1d", "numpy.diag", lambda N, E: N.diag(E.q("a", "L", (2,))), dim=DL)
T("np.diag/2d-k", "numpy.diag", lambda N, E: N.diag(E.q("a", "L", (2, 3)), k=1), dim=DL)
T("np.diagonal", "numpy.diagonal", lambda N, E: N.diagonal(E.q("a", "L", (2, 3)), offset=1), dim=DL)
T("np.diagflat", "numpy.diagflat", lambda N, E: N.diagflat(E.q("a", "L", (2,))), dim=DL, quick=False)
T("np.triu/k", "numpy.triu", lambda N, E: N.triu(E.q("a", "L", (2, 3)), 1), dim=DL)
T("np.triu/kw", "numpy.triu", lambda N, E: N.triu(E.q("a", "L", (2, 2)), k=-1), dim=DL, quick=False)
T("np.tril/k", "numpy.tril", lambda N, E: N.tril(E.q("a", "L", (2, 3)), -1), dim=DL)
T("np.tril/default", "numpy.tril", lambda N, E: N.tril(E.q("a", "L", (2, 2))), dim=DL, quick=False)
T("np.trim_zeros", "numpy.trim_zeros", lambda N, E: N.trim_zeros(E.q("a", "L", (2,))), dim=DL)

# ---- reshaping / reordering (unwrapped)
T("np.reshape", "numpy.reshape", lambda N, E: N.reshape(E.q("a", "L", (2, 3)), (3, 2)), dim=DL)
T("m.reshape", "ndarray.reshape", lambda N, E: E.q("a", "L", (2, 3)).reshape(3, 2), dim=DL)
T("m.reshape/quantity", "ndarray.reshape", lambda N, E: E.q("a", "L", ()).reshape(1, 1), dim=DL)
T("np.ravel", "numpy.ravel", lambda N, E: N.ravel(E.q("a", "L", (2, 2))), dim=DL)
T("m.flatten", "ndarray.flatten", lambda N, E: E.q("a", "L", (2, 2)).flatten(), dim=DL, quick=False)
T("np.transpose", "numpy.transpose", lambda N, E: N.transpose(E.q("a", "L", (2, 3))), dim=DL)
T("m.transpose", "ndarray.transpose", lambda N, E: E.q("a", "L", (2, 3)).transpose(1, 0), dim=DL)
T("m.T", "ndarray.T", lambda N, E: E.q("a", "L", (2, 3)).T, dim=DL, quick=False)
T("np.swapaxes", "numpy.swapaxes", lambda N, E: N.swapaxes(E.q("a", "L", (2, 3)), 0, 1), dim=DL)
T("np.moveaxis", "numpy.moveaxis", lambda N, E: N.moveaxis(E.q("a", "L", (2, 3)), 0, -1), dim=DL, quick=False)
T("np.rollaxis", "numpy.rollaxis", lambda N, E: N.rollaxis(E.q("a", "L", (2, 3)), 1), dim=DL, quick=False)
T("np.squeeze", "numpy.squeeze", lambda N, E: N.squeeze(E.q("a", "L", (1, 2))), dim=DL)
T("np.expand_dims", "numpy.expand_dims", lambda N, E: N.expand_dims(E.q("a", "L", (2,)), 0), dim=DL)
T("np.atleast_2d", "numpy.atleast_2d", lambda N, E: N.atleast_2d(E.q("a", "L", (2,))), dim=DL)
T("np.atleast_1d/q", "numpy.atleast_1d", lambda N, E: N.atleast_1d(E.q("a", "L", ())), dim=DL)
T("np.atleast_3d", "numpy.atleast_3d", lambda N, E: N.atleast_3d(E.q("a", "L", (2,))), dim=DL, quick=False)
T("np.broadcast_to", "numpy.broadcast_to", lambda N, E: N.broadcast_to(E.q("a", "L", (2,)), (2, 2)), dim=DL)
T("np.broadcast_arrays", "numpy.broadcast_arrays", lambda N, E: N.broadcast_arrays(E.q("a", "L", (2,)), E.q("b", "T", (2, 1))), groups=("L", "T"), dim=[DL, DT])
T("np.flip", "numpy.flip", lambda N, E: N.flip(E.q("a", "L", (2, 2)), axis=1), dim=DL)
T("np.fliplr", "numpy.fliplr", lambda N, E: N.fliplr(E.q("a", "L", (2, 2))), dim=DL, quick=False)
T("np.flipud", "numpy.flipud", lambda N, E: N.flipud(E.q("a", "L", (2, 2))), dim=DL, quick=False)
T("np.roll", "numpy.roll", lambda N, E: N.roll(E.q("a", "L", (3,)), 1), dim=DL)
T("np.roll/axis", "numpy.roll", lambda N, E: N.roll(E.q("a", "L", (2, 3)), -1, axis=1), dim=DL, quick=False)
T("np.rot90", "numpy.rot90", lambda N, E: N.rot90(E.q("a", "L", (2, 2))), dim=DL)
T("np.tile", "numpy.tile", lambda N, E: N.tile(E.q("a", "L", (2,)), 2), dim=DL)
T("np.repeat", "numpy.repeat", lambda N, E: N.repeat(E.q("a", "L", (2,)), 2), dim=DL)
T("m.repeat/axis", "ndarray.repeat", lambda N, E: E.q("a", "L", (2, 2)).repeat(2, axis=0), dim=DL, quick=False)
T("np.resize", "numpy.resize", lambda N, E: N.resize(E.q("a", "L", (3,)), (2, 2)), dim=DL)
T("np.split", "numpy.split", lambda N, E: N.split(E.q("a", "L", (4,)), 2), dim=[DL, DL])
T("np.array_split", "numpy.array_split", lambda N, E: N.array_split(E.q("a", "L", (3,)), 2), dim=[DL, DL])
T("np.hsplit", "numpy.hsplit", lambda N, E: N.hsplit(E.q("a", "L", (2, 2)), 2), dim=[DL, DL], quick=False)
T("np.vsplit", "numpy.vsplit", lambda N, E: N.vsplit(E.q("a", "L", (2, 2)), 2), dim=[DL, DL], quick=False)
T("np.dsplit", "numpy.dsplit", lambda N, E: N.dsplit(E.q("a", "L", (1, 1, 2)), 2), dim=[DL, DL], quick=False)
T("np.unstack", "numpy.unstack", lambda N, E: N.unstack(E.q("a", "L", (2, 2))), dim=[DL, DL], quick=False)
T("np.meshgrid", "numpy.meshgrid", lambda N, E: N.meshgrid(E.q("a", "L", (2,)), E.q("b", "T", (2,))), groups=("L", "T"), dim=[DL, DT])
T("np.copy", "numpy.copy", lambda N, E: N.copy(E.q("a", "L", (2,))), dim=DL)
T("m.copy", "ndarray.copy", lambda N, E: E.q("a", "L", (2, 2)).copy(), dim=DL)
T("np.astype", "numpy.astype", lambda N, E: N.astype(E.q("a", "L", (2,)), E.made["a"].dtype), dim=DL, quick=False)
T("np.zeros_like", "numpy.zeros_like", lambda N, E: N.zeros_like(E.q("a", "L", (2,))), dim=DL)
T("np.ones_like", "numpy.ones_like", lambda N, E: N.ones_like(E.q("a", "L", (2,))), dim=DL, cov=False,
  note="ones_like(x) is 'one unit of x': by construction not covariant, only its dimension is checked")
T("np.full_like", "numpy.full_like", lambda N, E: N.full_like(E.q("a", "L", (2,)), E.q("b", "L", ())), dim=DL)
T("np.fft.fftshift", "numpy.fft.fftshift", lambda N, E: N.fft.fftshift(E.q("a", "L", (3,))), dim=DL)
T("np.fft.fftshift/axes", "numpy.fft.fftshift", lambda N, E: N.fft.fftshift(E.q("a", "L", (2, 3)), axes=1), dim=DL, quick=False)
T("np.fft.ifftshift", "numpy.fft.ifftshift", lambda N, E: N.fft.ifftshift(E.q("a", "L", (3,))), dim=DL)
T("np.fft.ifftshift/axes", "numpy.fft.ifftshift", lambda N, E: N.fft.ifftshift(E.q("a", "L", (2, 3)), axes=(0, 1)), dim=DL, quick=False)

# ---- sorting / searching / sets
T("np.sort", "numpy.sort", lambda N, E: N.sort(E.q("a", "L", (3,))), dim=DL)
T("np.sort/axis0", "numpy.sort", lambda N, E: N.sort(E.q("a", "L", (2, 2)), axis=0), dim=DL, quick=False)
T("m.sort", "ndarray.sort", lambda N, E: E.q("a", "L", (3,)).sort(), dim=None)
T("np.argsort", "numpy.argsort", lambda N, E: N.argsort(E.q("a", "L", (3,))), dim=BARE)
T("m.argsort", "ndarray.argsort", lambda N, E: E.q("a", "L", (3,)).argsort(), dim=BARE)
T("m.argsort/axis", "ndarray.argsort", lambda N, E: E.q("a", "L", (2, 2)).argsort(axis=0), dim=BARE, quick=False)
T("np.partition", "numpy.partition", lambda N, E: N.partition(E.q("a", "L", (3,)), 1), dim=DL)
T("np.argpartition", "numpy.argpartition", lambda N, E: N.argpartition(E.q("a", "L", (3,)), 1), dim=BARE)
T("np.lexsort", "numpy.lexsort", lambda N, E: N.lexsort((E.q("a", "L", (3,)),)), dim=BARE, quick=False)
T("np.argmax", "numpy.argmax", lambda N, E: N.argmax(E.q("a", "L", (3,))), dim=BARE)
T("np.argmin/axis", "numpy.argmin", lambda N, E: N.argmin(E.q("a", "L", (2, 2)), axis=1), dim=BARE)
T("m.argmax", "ndarray.argmax", lambda N, E: E.q("a", "L", (3,)).argmax(), dim=BARE, quick=False)
T("np.nanargmax", "numpy.nanargmax", lambda N, E: N.nanargmax(E.q("a", "L", (3,))), dim=BARE, quick=False)
T("np.argwhere", "numpy.argwhere", lambda N, E: N.argwhere(E.q("a", "L", (2,))), dim=BARE)
T("np.nonzero", "numpy.nonzero", lambda N, E: N.nonzero(E.q("a", "L", (2,))), dim=[BARE])
T("np.flatnonzero", "numpy.flatnonzero", lambda N, E: N.flatnonzero(E.q("a", "L", (2,))), dim=BARE, quick=False)
T("np.count_nonzero", "numpy.count_nonzero", lambda N, E: N.count_nonzero(E.q("a", "L", (2,))), dim=BARE)
T("np.searchsorted", "numpy.searchsorted", lambda N, E: N.searchsorted(E.q("a", "L", (3,), increasing=True), E.q("b", "L", ())), dim=BARE)
T("np.searchsorted/right-arr", "numpy.searchsorted", lambda N, E: N.searchsorted(E.q("a", "L", (2,), increasing=True), E.q("b", "L", (2,)), side="right"), dim=BARE)
T("np.searchsorted/sorter", "numpy.searchsorted", lambda N, E: N.searchsorted(E.q("a", "L", (2,)), E.q("b", "L", ()), sorter=np.array([1, 0])), dim=BARE, quick=False)
T("np.searchsorted/num", "numpy.searchsorted", lambda N, E: N.searchsorted(E.q("a", "L", (2,), increasing=True), E.num("v", "L")), dim=BARE)
T("m.searchsorted", "ndarray.searchsorted", lambda N, E: E.q("a", "L", (2,), increasing=True).searchsorted(E.q("b", "L", ())), dim=BARE, quick=False)
T("np.unique", "numpy.unique", lambda N, E: N.unique(E.q("a", "L", (3,))), dim=DL)
T("np.unique/counts", "numpy.unique", lambda N, E: N.unique(E.q("a", "L", (2,)), return_counts=True, return_index=True), dim=[DL, BARE, BARE])
T("np.unique_values", "numpy.unique_values", lambda N, E: N.unique_values(E.q("a", "L", (2,))), dim=DL, quick=False)
T("np.intersect1d", "numpy.intersect1d", lambda N, E: N.intersect1d(E.q("a", "L", (2,)), E.q("b", "L", (2,))), dim=DL)
T("np.intersect1d/indices", "numpy.intersect1d", lambda N, E: N.intersect1d(E.q("a", "L", (2,)), E.q("b", "L", (2,)), return_indices=True), dim=[DL, BARE, BARE],
  note="return_indices=True: the handler returns the common values bare")
T("np.intersect1d/unique", "numpy.intersect1d", lambda N, E: N.intersect1d(E.q("a", "L", (2,)), E.q("b", "L", (2,)), assume_unique=True), dim=DL, quick=False)
T("np.union1d", "numpy.union1d", lambda N, E: N.union1d(E.q("a", "L", (2,)), E.q("b", "L", (2,))), dim=DL)
T("np.setdiff1d", "numpy.setdiff1d", lambda N, E: N.setdiff1d(E.q("a", "L", (2,)), E.q("b", "L", (2,))), dim=DL)
T("np.setdiff1d/unique", "numpy.setdiff1d", lambda N, E: N.setdiff1d(E.q("a", "L", (2,)), E.q("b", "L", (2,)), assume_unique=True), dim=DL, quick=False)
T("np.setxor1d", "numpy.setxor1d", lambda N, E: N.setxor1d(E.q("a", "L", (2,)), E.q("b", "L", (2,))), dim=DL)
T("np.isin", "numpy.isin", lambda N, E: N.isin(E.q("a", "L", (2,)), E.q("b", "L", (2,))), dim=BARE)
T("np.isin/invert", "numpy.isin", lambda N, E: N.isin(E.q("a", "L", (2, 1)), E.q("b", "L", (2,)), invert=True), dim=BARE)
T("np.isin/mixdim", "numpy.isin", lambda N, E: N.isin(E.q("a", "L", (2,)), E.q("b", "T", (2,))), groups=("L", "T"), quick=False)

# ---- location / spread statistics
T("np.sum", "numpy.sum", lambda N, E: N.sum(E.q("a", "L", (3,))), dim=DL)
T("np.sum/axis-keepdims", "numpy.sum", lambda N, E: N.sum(E.q("a", "L", (2, 3)), axis=1, keepdims=True), dim=DL)
T("m.sum/axis", "ndarray.sum", lambda N, E: E.q("a", "L", (2, 3)).sum(axis=0), dim=DL)
T("m.sum/out", "ndarray.sum", lambda N, E: E.q("a", "L", (2, 2)).sum(axis=0, out=E.out("o", "L", (2,))), dim=DL)
T("np.nansum", "numpy.nansum", lambda N, E: N.nansum(E.q("a", "L", (3,))), dim=DL, quick=False)
T("np.mean", "numpy.mean", lambda N, E: N.mean(E.q("a", "L", (3,))), dim=DL)
T("m.mean/axis", "ndarray.mean", lambda N, E: E.q("a", "L", (2, 3)).mean(axis=1), dim=DL)
T("np.nanmean", "numpy.nanmean", lambda N, E: N.nanmean(E.q("a", "L", (3,))), dim=DL, quick=False)
T("np.average", "numpy.average", lambda N, E: N.average(E.q("a", "L", (3,))), dim=DL)
T("np.average/weights", "numpy.average", lambda N, E: N.average(E.q("a", "L", (3,)), weights=E.raw("w", (3,), pos=True)), dim=DL)
T("np.average/weights-q", "numpy.average", lambda N, E: N.average(E.q("a", "L", (2,)), weights=E.q("w", "T", (2,), pos=True), returned=True), groups=("L", "T"), dim=[DL, DT])
T("np.median", "numpy.median", lambda N, E: N.median(E.q("a", "L", (3,))), dim=DL)
T("np.median/axis", "numpy.median", lambda N, E: N.median(E.q("a", "L", (2, 2)), axis=0), dim=DL)
T("np.nanmedian", "numpy.nanmedian", lambda N, E: N.nanmedian(E.q("a", "L", (3,))), dim=DL, quick=False)
T("np.percentile", "numpy.percentile", lambda N, E: N.percentile(E.q("a", "L", (3,)), 30), dim=DL)
T("np.percentile/axis-kw", "numpy.percentile", lambda N, E: N.percentile(E.q("a", "L", (2, 2)), [25, 75], axis=1), dim=DL)
T("np.percentile/method", "numpy.percentile", lambda N, E: N.percentile(E.q("a", "L", (3,)), 40, method="lower"), dim=DL, quick=False)
T("np.quantile", "numpy.quantile", lambda N, E: N.quantile(E.q("a", "L", (3,)), 0.3), dim=DL)
T("np.quantile/keepdims", "numpy.quantile", lambda N, E: N.quantile(E.q("a", "L", (2, 2)), 0.5, axis=0, keepdims=True), dim=DL, quick=False)
T("np.nanpercentile", "numpy.nanpercentile", lambda N, E: N.nanpercentile(E.q("a", "L", (3,)), 30), dim=DL)
T("np.nanquantile", "numpy.nanquantile", lambda N, E: N.nanquantile(E.q("a", "L", (3,)), 0.7), dim=DL)
T("np.max", "numpy.max", lambda N, E: N.max(E.q("a", "L", (3,))), dim=DL)
T("np.amin/axis", "numpy.amin", lambda N, E: N.amin(E.q("a", "L", (2, 2)), axis=0), dim=DL)
T("m.max/out", "ndarray.max", lambda N, E: E.q("a", "L", (2, 2)).max(axis=1, out=E.out("o", "L", (2,))), dim=DL, quick=False)
T("m.min", "ndarray.min", lambda N, E: E.q("a", "L", (3,)).min(), dim=DL)
T("np.nanmax", "numpy.nanmax", lambda N, E: N.nanmax(E.q("a", "L", (2,))), dim=DL, quick=False)
T("np.nanmin", "numpy.nanmin", lambda N, E: N.nanmin(E.q("a", "L", (2,))), dim=DL, quick=False)
T("np.ptp", "numpy.ptp", lambda N, E: N.ptp(E.q("a", "L", (3,))), dim=DL)
T("np.ptp/axis", "numpy.ptp", lambda N, E: N.ptp(E.q("a", "L", (2, 2)), axis=1), dim=DL)
T("np.ptp/temperature", "numpy.ptp", lambda N, E: N.ptp(E.q("a", "K", (2,))), groups=("K",), dim={"K": 1})
T("np.std", "numpy.std", lambda N, E: N.std(E.q("a", "L", (3,))), dim=DL)
T("np.std/ddof-axis", "numpy.std", lambda N, E: N.std(E.q("a", "L", (2, 2)), axis=0, ddof=1), dim=DL)
T("m.std", "ndarray.std", lambda N, E: E.q("a", "L", (2,)).std(), dim=DL)
T("np.nanstd", "numpy.nanstd", lambda N, E: N.nanstd(E.q("a", "L", (2,))), dim=DL, quick=False)
T("np.var", "numpy.var", lambda N, E: N.var(E.q("a", "L", (3,))), dim=DL2)
T("np.var/ddof-axis", "numpy.var", lambda N, E: N.var(E.q("a", "L", (2, 2)), axis=1, ddof=1), dim=DL2)
T("np.var/keepdims", "numpy.var", lambda N, E: N.var(E.q("a", "L", (2, 2)), 0, keepdims=True), dim=DL2, quick=False)
T("m.var", "ndarray.var", lambda N, E: E.q("a", "L", (3,)).var(), dim=DL2)
T("np.nanvar", "numpy.nanvar", lambda N, E: N.nanvar(E.q("a", "L", (2,))), dim=DL2, quick=False)
T("np.cumsum", "numpy.cumsum", lambda N, E: N.cumsum(E.q("a", "L", (3,))), dim=DL)
T("m.cumsum/axis", "ndarray.cumsum", lambda N, E: E.q("a", "L", (2, 2)).cumsum(axis=1), dim=DL)
T("np.cumulative_sum", "numpy.cumulative_sum", lambda N, E: N.cumulative_sum(E.q("a", "L", (3,)), include_initial=True), dim=DL, quick=False)
T("np.nancumsum", "numpy.nancumsum", lambda N, E: N.nancumsum(E.q("a", "L", (3,))), dim=DL, quick=False)
T("np.diff", "numpy.diff", lambda N, E: N.diff(E.q("a", "L", (3,))), dim=DL)
T("np.diff/n2", "numpy.diff", lambda N, E: N.diff(E.q("a", "L", (3,)), 2), dim=DL)
T("np.diff/axis-kw", "numpy.diff", lambda N, E: N.diff(E.q("a", "L", (2, 2)), axis=0), dim=DL)
T("np.diff/prepend", "numpy.diff", lambda N, E: N.diff(E.q("a", "L", (2,)), prepend=E.q("b", "L", (1,))), dim=DL, quick=False)
T("np.diff/temperature", "numpy.diff", lambda N, E: N.diff(E.q("a", "K", (2,))), groups=("K",), dim={"K": 1})
T("np.ediff1d", "numpy.ediff1d", lambda N, E: N.ediff1d(E.q("a", "L", (3,))), dim=DL)
T("np.ediff1d/to_end", "numpy.ediff1d", lambda N, E: N.ediff1d(E.q("a", "L", (2,)), to_end=E.q("b", "L", (1,))), dim=DL)
T("np.ediff1d/temperature", "numpy.ediff1d", lambda N, E: N.ediff1d(E.q("a", "K", (2,))), groups=("K",), dim={"K": 1}, quick=False)
T("np.trace", "numpy.trace", lambda N, E: N.trace(E.q("a", "L", (2, 2))), dim=DL)
T("np.trace/offset", "numpy.trace", lambda N, E: N.trace(E.q("a", "L", (2, 3)), 1), dim=DL)
T("np.trace/kw", "numpy.trace", lambda N, E: N.trace(E.q("a", "L", (2, 2, 2)), axis1=1, axis2=2), dim=DL, quick=False)
T("m.trace", "ndarray.trace", lambda N, E: E.q("a", "L", (2, 2)).trace(), dim=DL, quick=False)
T("np.cov/xy", "numpy.cov", lambda N, E: N.cov(E.q("a", "L", (3,)), E.q("b", "L", (3,))), dim=DL2)
T("np.cov/rows", "numpy.cov", lambda N, E: N.cov(E.q("a", "L", (2, 2))), dim=DL2)

# ---- rounding / clipping
T("np.around", "numpy.around", lambda N, E: N.around(E.q("a", "L", (2,))), dim=DL, cov=False)
T("np.around/decimals", "numpy.around", lambda N, E: N.around(E.q("a", "L", (2,)), 1), dim=DL, cov=False)
T("np.around/decimals-kw-neg", "numpy.around", lambda N, E: N.around(E.q("a", "L", ()), decimals=-1), dim=DL, cov=False)
T("np.around/out", "numpy.around", lambda N, E: N.around(E.q("a", "L", (2,)), 1, out=E.out("o", "L", (2,))), dim=DL, cov=False)
T("np.round", "numpy.round", lambda N, E: N.round(E.q("a", "L", (2,)), 1), dim=DL, cov=False)
T("m.round", "ndarray.round", lambda N, E: E.q("a", "L", (2,)).round(1), dim=DL, cov=False)
T("np.fix", "numpy.fix", lambda N, E: N.fix(E.q("a", "L", (2,))), dim=DL, cov=False)
T("np.rint", "numpy.rint", lambda N, E: N.rint(E.q("a", "L", (2,))), dim=DL, cov=False, quick=False)
T("np.floor", "numpy.floor", lambda N, E: N.floor(E.q("a", "L", (2,))), dim=DL, cov=False, quick=False)
T("np.nan_to_num", "numpy.nan_to_num", lambda N, E: N.nan_to_num(E.q("a", "L", (2,))), dim=DL)
T("np.clip/q", "numpy.clip", lambda N, E: N.clip(E.q("a", "L", (2,)), E.q("b", "L", ()), E.q("c", "L", ())), dim=DL)
T("np.clip/kw", "numpy.clip", lambda N, E: N.clip(E.q("a", "L", (2,)), a_min=E.q("b", "L", ()), a_max=E.q("c", "L", ())), dim=DL)
T("np.clip/num", "numpy.clip", lambda N, E: N.clip(E.q("a", "L", (2,)), E.num("v", "L"), E.num("w", "L")), dim=DL)
T("np.clip/arrays", "numpy.clip", lambda N, E: N.clip(E.q("a", "L", (2,)), E.q("b", "L", (2,)), E.q("c", "L", (2,))), dim=DL, quick=False)
T("np.clip/out", "numpy.clip", lambda N, E: N.clip(E.q("a", "L", (2,)), E.q("b", "L", ()), E.q("c", "L", ()), out=E.out("o", "L", (2,))), dim=DL)
T("np.clip/mixdim", "numpy.clip", lambda N, E: N.clip(E.q("a", "L", (2,)), E.q("b", "T", ()), E.q("c", "T", ())), groups=("L", "T"), quick=False)
T("m.clip", "ndarray.clip", lambda N, E: E.q("a", "L", (2,)).clip(E.q("b", "L", ()), E.q("c", "L", ())), dim=DL)
T("np.unwrap", "numpy.unwrap", lambda N, E: N.unwrap(E.q("a", "L", (2,))), dim=DL, cov=False,
  note="default period 2*pi is a bare number: only the dimension is checked")
T("np.unwrap/period", "numpy.unwrap", lambda N, E: N.unwrap(E.q("a", "L", (2,)), period=4.0, axis=0), dim=DL, cov=False, quick=False)

# ---- products (unit = product of the operands' units)
def _ab(E, sa=(2,), sb=(2,), gb="T"):
    return E.q("a", "L", sa), E.q("b", gb, sb)


LT = ("L", "T")
T("np.dot/1d", "numpy.dot", lambda N, E: N.dot(*_ab(E)), groups=LT, dim=DLT)
T("np.dot/2d", "numpy.dot", lambda N, E: N.dot(*_ab(E, (2, 3), (3, 2))), groups=LT, dim=DLT)
T("np.dot/same", "numpy.dot", lambda N, E: N.dot(*_ab(E, gb="L")), dim=DL2)
T("np.dot/bare-b", "numpy.dot", lambda N, E: N.dot(*_ab(E, gb="bare")), dim=DL)
T("np.dot/out", "numpy.dot", lambda N, E: N.dot(*_ab(E, (2, 2), (2, 2)), out=E.out("o", "L", (2, 2))), groups=LT, dim=DLT)
T("m.dot", "ndarray.dot", lambda N, E: _ab(E, (2, 2), (2,))[0].dot(E.made["b"]), groups=LT, dim=DLT)
T("m.dot/out", "ndarray.dot", lambda N, E: E.q("a", "L", (2, 2)).dot(E.q("b", "T", (2, 2)), out=E.out("o", "L", (2, 2))), groups=LT, dim=DLT, quick=False)
T("np.vdot", "numpy.vdot", lambda N, E: N.vdot(*_ab(E)), groups=LT, dim=DLT)
T("np.vdot/2d", "numpy.vdot", lambda N, E: N.vdot(*_ab(E, (2, 2), (2, 2))), groups=LT, dim=DLT, quick=False)
T("np.inner", "numpy.inner", lambda N, E: N.inner(*_ab(E)), groups=LT, dim=DLT)
T("np.inner/2d", "numpy.inner", lambda N, E: N.inner(*_ab(E, (2, 2), (3, 2))), groups=LT, dim=DLT, quick=False)
T("np.outer", "numpy.outer", lambda N, E: N.outer(*_ab(E, (2,), (3,))), groups=LT, dim=DLT)
T("np.outer/out", "numpy.outer", lambda N, E: N.outer(*_ab(E), out=E.out("o", "L", (2, 2))), groups=LT, dim=DLT)
T("np.linalg.outer", "numpy.linalg.outer", lambda N, E: N.linalg.outer(*_ab(E, (2,), (3,))), groups=LT, dim=DLT)
T("np.kron", "numpy.kron", lambda N, E: N.kron(*_ab(E)), groups=LT, dim=DLT)
T("np.kron/2d", "numpy.kron", lambda N, E: N.kron(*_ab(E, (2, 2), (1, 2))), groups=LT, dim=DLT, quick=False)
T("np.cross", "numpy.cross", lambda N, E: N.cross(*_ab(E, (3,), (3,))), groups=LT, dim=DLT)
T("np.cross/axis", "numpy.cross", lambda N, E: N.cross(*_ab(E, (3, 2), (3, 2)), axis=0), groups=LT, dim=DLT)
T("np.cross/axisabc", "numpy.cross", lambda N, E: N.cross(*_ab(E, (3, 1), (1, 3)), axisa=0, axisb=1), groups=LT, dim=DLT, quick=False)
T("np.linalg.cross", "numpy.linalg.cross", lambda N, E: N.linalg.cross(*_ab(E, (3,), (3,))), groups=LT, dim=DLT, quick=False)
T("np.tensordot", "numpy.tensordot", lambda N, E: N.tensordot(*_ab(E, (2, 2), (2, 2))), groups=LT, dim=DLT)
T("np.tensordot/axes1", "numpy.tensordot", lambda N, E: N.tensordot(*_ab(E, (2, 3), (3, 2)), 1), groups=LT, dim=DLT)
T("np.tensordot/axes-kw", "numpy.tensordot", lambda N, E: N.tensordot(*_ab(E, (2, 3), (2, 3)), axes=([0], [0])), groups=LT, dim=DLT, quick=False)
T("np.convolve", "numpy.convolve", lambda N, E: N.convolve(*_ab(E, (3,), (2,))), groups=LT, dim=DLT)
T("np.convolve/same", "numpy.convolve", lambda N, E: N.convolve(*_ab(E, (3,), (2,)), "same"), groups=LT, dim=DLT)
T("np.convolve/valid-kw", "numpy.convolve", lambda N, E: N.convolve(*_ab(E, (3,), (2,)), mode="valid"), groups=LT, dim=DLT, quick=False)
T("np.correlate", "numpy.correlate", lambda N, E: N.correlate(*_ab(E, (3,), (2,))), groups=LT, dim=DLT)
T("np.correlate/full", "numpy.correlate", lambda N, E: N.correlate(*_ab(E, (3,), (2,)), "full"), groups=LT, dim=DLT)
T("np.matmul", "numpy.matmul", lambda N, E: N.matmul(*_ab(E, (2, 2), (2, 2))), groups=LT, dim=DLT)
T("op.matmul", "ndarray.__matmul__", lambda N, E: E.q("a", "L", (2, 3)) @ E.q("b", "T", (3,)), groups=LT, dim=DLT)
T("np.linalg.vecdot", "numpy.linalg.vecdot", lambda N, E: N.linalg.vecdot(*_ab(E)), groups=LT, dim=DLT, quick=False)
T("np.linalg.multi_dot", "numpy.linalg.multi_dot", lambda N, E: N.linalg.multi_dot([E.q("a", "L", (2, 2)), E.q("b", "T", (2, 2)), E.q("c", "L", (2,))]), groups=LT, dim={"L": 2, "T": 1})
T("np.linalg.matrix_power", "numpy.linalg.matrix_power", lambda N, E: N.linalg.matrix_power(E.q("a", "L", (2, 2)), 3), dim={"L": 3})
T("np.einsum/ii", "numpy.einsum", lambda N, E: N.einsum("ii", E.q("a", "L", (2, 2))), dim=DL)
T("np.einsum/transpose", "numpy.einsum", lambda N, E: N.einsum("ij->ji", E.q("a", "L", (2, 3))), dim=DL)
T("np.einsum/sum-out", "numpy.einsum", lambda N, E: N.einsum("ij->i", E.q("a", "L", (2, 2)), out=E.out("o", "L", (2,))), dim=DL)
T("np.einsum/inner-same", "numpy.einsum", lambda N, E: N.einsum("i,i->", *_ab(E, gb="L")), dim=DL2)
T("np.einsum/matmul-same", "numpy.einsum", lambda N, E: N.einsum("ij,jk->ik", *_ab(E, (2, 2), (2, 2), gb="L")), dim=DL2)
T("np.einsum/inner-LT", "numpy.einsum", lambda N, E: N.einsum("i,i->", *_ab(E)), groups=LT, dim=DLT)
T("np.einsum/outer-bare", "numpy.einsum", lambda N, E: N.einsum("i,j->ij", *_ab(E, gb="bare")), dim=DL, quick=False)
T("np.prod", "numpy.prod", lambda N, E: N.prod(E.q("a", "L", (3,))), dim={"L": 3})
T("np.prod/axis", "numpy.prod", lambda N, E: N.prod(E.q("a", "L", (2, 3)), axis=0), dim=DL2)
T("np.prod/axis-kw-keepdims", "numpy.prod", lambda N, E: N.prod(E.q("a", "L", (2, 3)), axis=1, keepdims=True), dim={"L": 3})
T("np.prod/quantity", "numpy.prod", lambda N, E: N.prod(E.q("a", "L", ())), dim=DL, quick=False)
T("m.prod", "ndarray.prod", lambda N, E: E.q("a", "L", (2,)).prod(), dim=DL2)
T("np.nanprod", "numpy.nanprod", lambda N, E: N.nanprod(E.q("a", "L", (2,))), dim=DL2)
T("np.cumprod", "numpy.cumprod", lambda N, E: N.cumprod(E.q("a", "L", (2,))))
T("np.cumulative_prod", "numpy.cumulative_prod", lambda N, E: N.cumulative_prod(E.q("a", "L", (2,))))
T("np.cumprod/dimensionless", "numpy.cumprod", lambda N, E: N.cumprod(E.q("a", "1", (2,))), groups=("1",), quick=False)
T("np.trapezoid/x", "numpy.trapezoid", lambda N, E: N.trapezoid(E.q("a", "L", (3,)), E.q("b", "T", (3,))), groups=LT, dim=DLT)
T("np.trapezoid/dx-q", "numpy.trapezoid", lambda N, E: N.trapezoid(E.q("a", "L", (3,)), dx=E.q("b", "T", ())), groups=LT, dim=DLT)
T("np.trapezoid/default", "numpy.trapezoid", lambda N, E: N.trapezoid(E.q("a", "L", (3,))), dim=DL)
T("np.trapezoid/axis", "numpy.trapezoid", lambda N, E: N.trapezoid(E.q("a", "L", (2, 2)), E.q("b", "T", (2,)), axis=0), groups=LT, dim=DLT)
T("np.trapezoid/x-kw-bare", "numpy.trapezoid", lambda N, E: N.trapezoid(E.q("a", "L", (2,)), x=E.raw("b", (2,))), dim=DL, quick=False)

# ---- in-place writers
T("np.copyto", "numpy.copyto", lambda N, E: N.copyto(E.q("a", "L", (2,)), E.q("b", "L", (2,))))
T("np.copyto/where", "numpy.copyto", lambda N, E: N.copyto(E.q("a", "L", (2,)), E.q("b", "L", ()), where=np.array([True, False])))
T("np.copyto/other-dim", "numpy.copyto", lambda N, E: N.copyto(E.q("a", "L", (2,)), E.q("b", "T", (2,))), groups=LT,
  note="dst takes the unit of src (documented behaviour of the handler)")
T("np.fill_diagonal", "numpy.fill_diagonal", lambda N, E: N.fill_diagonal(E.q("a", "L", (2, 2)), E.q("b", "L", ())))
T("np.fill_diagonal/wrap", "numpy.fill_diagonal", lambda N, E: N.fill_diagonal(E.q("a", "L", (3, 2)), E.q("b", "L", ()), wrap=True))
T("np.fill_diagonal/num", "numpy.fill_diagonal", lambda N, E: N.fill_diagonal(E.q("a", "L", (2, 2)), E.num("v", "L")), quick=False)
T("np.place", "numpy.place", lambda N, E: N.place(E.q("a", "L", (3,)), np.array([True, False, True]), E.q("b", "L", (2,))))
T("np.put", "numpy.put", lambda N, E: N.put(E.q("a", "L", (3,)), [0, 2], E.q("b", "L", (2,))))
T("np.put/mode-wrap", "numpy.put", lambda N, E: N.put(E.q("a", "L", (3,)), [4], E.q("b", "L", (1,)), mode="wrap"))
T("np.put/mode-clip-pos", "numpy.put", lambda N, E: N.put(E.q("a", "L", (3,)), [7], E.q("b", "L", (1,)), "clip"), quick=False)
T("np.put_along_axis", "numpy.put_along_axis", lambda N, E: N.put_along_axis(E.q("a", "L", (2, 2)), np.array([[1], [0]]), E.q("b", "L", (2, 1)), 1))
T("np.put_along_axis/axis-kw", "numpy.put_along_axis", lambda N, E: N.put_along_axis(E.q("a", "L", (2, 2)), np.array([[1, 0]]), E.q("b", "L", ()), axis=0), quick=False)
T("np.putmask", "numpy.putmask", lambda N, E: N.putmask(E.q("a", "L", (3,)), np.array([True, False, True]), E.q("b", "L", (2,))))
T("m.setitem", "ndarray.__setitem__", lambda N, E: E.q("a", "L", (3,)).__setitem__(slice(0, 2), E.q("b", "L", (2,))))
T("m.fill", "ndarray.fill", lambda N, E: E.q("a", "L", (2,)).fill(E.q("b", "L", ())), quick=False)

# ---- comparisons
T("np.isclose/atol0", "numpy.isclose", lambda N, E: N.isclose(E.q("a", "L", (2,)), E.q("b", "L", (2,)), atol=0), dim=BARE)
T("np.isclose/rtol-pos", "numpy.isclose", lambda N, E: N.isclose(E.q("a", "L", (2,)), E.q("b", "L", (2,)), 1e-3, 0), dim=BARE)
T("np.isclose/default", "numpy.isclose", lambda N, E: N.isclose(E.q("a", "L", (2,)), E.q("b", "L", (2,))), dim=BARE, cov=False,
  note="the default atol=1e-8 is a bare number read in the first operand's unit (property C19)")
T("np.allclose/atol0", "numpy.allclose", lambda N, E: N.allclose(E.q("a", "L", (2,)), E.q("b", "L", (2,)), atol=0), dim=BARE)
T("np.allclose/rtol-kw", "numpy.allclose", lambda N, E: N.allclose(E.q("a", "L", (2,)), E.q("b", "L", (2,)), rtol=0.5, atol=0.0), dim=BARE)
T("np.array_equal", "numpy.array_equal", lambda N, E: N.array_equal(E.q("a", "L", (2,)), E.q("b", "L", (2,))), dim=BARE)
T("np.array_equal/shape", "numpy.array_equal", lambda N, E: N.array_equal(E.q("a", "L", (2,)), E.q("b", "L", (3,))), dim=BARE, quick=False)
T("np.array_equiv", "numpy.array_equiv", lambda N, E: N.array_equiv(E.q("a", "L", (2,)), E.q("b", "L", (1,))), dim=BARE)
T("np.all", "numpy.all", lambda N, E: N.all(E.q("a", "L", (2,))), dim=BARE)
T("np.any", "numpy.any", lambda N, E: N.any(E.q("a", "L", (2,))), dim=BARE)

# ---- ranges
T("np.linspace", "numpy.linspace", lambda N, E: N.linspace(E.q("a", "L", ()), E.q("b", "L", ()), 3), dim=DL)
T("np.linspace/endpoint", "numpy.linspace", lambda N, E: N.linspace(E.q("a", "L", ()), E.q("b", "L", ()), num=3, endpoint=False), dim=DL)
T("np.linspace/retstep", "numpy.linspace", lambda N, E: N.linspace(E.q("a", "L", ()), E.q("b", "L", ()), 3, retstep=True), dim=[DL, DL])
T("np.linspace/arrays-axis", "numpy.linspace", lambda N, E: N.linspace(E.q("a", "L", (2,)), E.q("b", "L", (2,)), 3, axis=1), dim=DL)
T("np.linspace/mixdim", "numpy.linspace", lambda N, E: N.linspace(E.q("a", "L", ()), E.q("b", "T", ()), 3), groups=LT, quick=False)
T("np.geomspace", "numpy.geomspace", lambda N, E: N.geomspace(E.q("a", "L", (), pos=True), E.q("b", "L", (), pos=True), 3), dim=DL, cov=False, conform=False,
  note="log10/pow are uninterpreted: covariance not decidable, dimension and forwarding only")
T("np.geomspace/endpoint", "numpy.geomspace", lambda N, E: N.geomspace(E.q("a", "L", (), pos=True), E.q("b", "L", (), pos=True), num=2, endpoint=False), dim=DL, cov=False, conform=False)
T("np.logspace/base-q", "numpy.logspace", lambda N, E: N.logspace(1, 2, 2, base=E.q("a", "L", (), pos=True)), dim=None, cov=False, conform=False)
T("np.logspace/start-q", "numpy.logspace", lambda N, E: N.logspace(E.q("a", "L", ()), 2, 2))
T("np.sinc/dimensionless", "numpy.sinc", lambda N, E: N.sinc(E.q("a", "1", (2,), nonzero=True)), groups=("1",), dim=None, conform=False)
T("np.interp", "numpy.interp", lambda N, E: N.interp(E.q("a", "L", (2,)), E.q("b", "L", (2,), increasing=True), E.q("c", "T", (2,))), groups=LT, dim=DT, tier=2,
  kargs={"x": "L", "xp": "L", "fp": "T"})

# ---- strings
T("np.array2string", "numpy.array2string", lambda N, E: N.array2string(E.q("a", "L", (2,))), strings=True)
T("np.array_repr", "numpy.array_repr", lambda N, E: N.array_repr(E.q("a", "L", (2,))), strings=True)
T("np.array_str", "numpy.array_str", lambda N, E: N.array_str(E.q("a", "L", (2,))), strings=True, quick=False)

# ---- callbacks
T("np.apply_over_axes", "numpy.apply_over_axes", lambda N, E: N.apply_over_axes(np.sum, E.q("a", "L", (2, 2)), [0]), dim=DL)
T("np.apply_over_axes/two", "numpy.apply_over_axes", lambda N, E: N.apply_over_axes(np.sum, E.q("a", "L", (2, 2, 2)), [0, 2]), dim=DL)
T("np.apply_over_axes/01", "numpy.apply_over_axes", lambda N, E: N.apply_over_axes(np.sum, E.q("a", "L", (2, 2, 2)), [0, 1]), dim=DL)
T("np.apply_along_axis", "numpy.apply_along_axis", lambda N, E: N.apply_along_axis(np.sum, 0, E.q("a", "L", (2, 2))), dim=DL)


# =========================================================================================================== Tier 2 (A8 kernels)
def _last(it, name):
    return int(np.shape(it[name])[-1])


# oracle table: homogeneity degree of every numeric output member of a kernel in each of its payload arguments
# K(k_a*a, k_b*b, ...) = prod_i k_i**e_i * K(a, b, ...)   (written from the mathematics, not read from unyt; trusted base)
HOMOG = {
    "numpy.linalg.det": lambda it: [{"a": _last(it, "a")}],
    "numpy.linalg.inv": lambda it: [{"a": -1}],
    "numpy.linalg.pinv": lambda it: [{"a": -1}],
    "numpy.linalg.tensorinv": lambda it: [{"a": -1}],
    "numpy.linalg.solve": lambda it: [{"a": -1, "b": 1}],
    "numpy.linalg.tensorsolve": lambda it: [{"a": -1, "b": 1}],
    "numpy.linalg.lstsq": lambda it: [{"a": -1, "b": 1}, {"b": 2}, {}, {"a": 1}],
    "numpy.linalg.eig": lambda it: [{"a": 1}, {}],
    "numpy.linalg.eigh": lambda it: [{"a": 1}, {}],
    "numpy.linalg.eigvals": lambda it: [{"a": 1}],
    "numpy.linalg.eigvalsh": lambda it: [{"a": 1}],
    "numpy.linalg.svd": lambda it: [{}, {"a": 1}, {}] if it["compute_uv"] else [{"a": 1}],
    "numpy.linalg.norm": lambda it: [{"x": 1}],
    "numpy.interp": lambda it: [{"fp": 1}],           # jointly of degree 0 in (x, xp, period): checked by the argument relation
    "numpy.histogram": lambda it: [dict(({"a": -1} if it["density"] else {}), **({"weights": 1} if it["weights"] is not None else {})), {"a": 1}],
    "numpy.histogram2d": lambda it: [dict(({"x": -1, "y": -1} if it["density"] else {}), **({"weights": 1} if it["weights"] is not None else {})), {"x": 1}, {"y": 1}],
    "numpy.histogramdd": lambda it: [dict(({("sample", i): -1 for i in range(len(it["sample"]))} if it["density"] else {}), **({"weights": 1} if it["weights"] is not None else {})),
                                     [{("sample", i): 1} for i in range(len(it["sample"]))]],
    "numpy.histogram_bin_edges": lambda it: [{"a": 1}],
}
for _n in ("fft", "ifft", "rfft", "irfft", "hfft", "ihfft", "fft2", "ifft2", "rfft2", "irfft2", "fftn", "ifftn", "rfftn", "irfftn"):
    HOMOG["numpy.fft." + _n] = lambda it: [{"a": 1}]


def _members(res):
    return list(res) if isinstance(res, (tuple, list)) else [res]


def _flat_reals(x):
    """real z3-backed components of one kernel output member"""
    if isinstance(x, (tuple, list)):
        return [e for m in x for e in _flat_reals(m)]
    return [e for e in leaf_elements(x)]


def _proved(ctx, formula, timeout_ms=3000):
    """formula holds under the current path condition (z3, short budget)"""
    import z3
    sol = z3.Solver()
    sol.set("timeout", timeout_ms)
    sol.add(*ctx.ex.pc)
    sol.add(z3.Not(formula))
    return sol.check() == z3.unsat


def tier2_axioms(ctx, t, calls1, calls2, factor_of=None):
    """C07: add, for every opaque-kernel call of the two runs, the ground instances out_B == k**e * out_A of the oracle
    table's homogeneity, after checking that the kernel's arguments in run B are exactly the declared factors times run A's.
    factor_of(group) -> SymReal | None: the re-expression factor of a unit group where it is not the plain symbol k_<group>
    (C07 family `uform`: compound units)"""
    import z3
    from symx.kernels import _flat_terms
    if len(calls1) != len(calls2):
        raise core.Unsupported(f"tier 2: {len(calls1)} kernel calls in run A, {len(calls2)} in run B")
    for c1, c2 in zip(calls1, calls2):
        if c1["key"] != c2["key"]:
            ctx.require("tier 2: same kernel and bound arguments in both unit systems", False, first=c1["key"][:200], second=c2["key"][:200])
            continue
        name = c1["name"]
        if name not in HOMOG:
            raise core.Unsupported(f"tier 2: no homogeneity oracle for {name}")
        it1, it2 = dict(c1["items"]), dict(c2["items"])

        def factor(argkey):
            g = t.kargs.get(argkey)
            if g in (None, "bare", "1"):
                return None
            if factor_of is not None:
                return factor_of(g)
            return ctx.real("k_" + KGROUP.get(g, g), pos=True)

        # argument relation
        for an, v1 in it1.items():
            v2 = it2[an]
            subs = [((an, i), a, b) for i, (a, b) in enumerate(zip(v1, v2))] if isinstance(v1, (list, tuple)) and (an, 0) in t.kargs else [(an, v1, v2)]
            for ak, a, b in subs:
                fa, fb = _flat_terms(a), _flat_terms(b)
                if fa is None:
                    continue
                f = factor(ak)
                for x, y in zip(fa, fb):
                    want = x if f is None else x * f.t
                    if not z3.is_true(z3.simplify(want == y)) and not z3.is_true(z3.simplify(z3.simplify(want - y, som=True) == 0)) and not _proved(ctx, want == y):
                        raise core.Unsupported(f"tier 2: argument {ak} of {name} in run B is not the declared factor times run A's ({y} vs {want})"[:300])
        spec = HOMOG[name](it1)
        m1, m2 = _members(c1["result"]), _members(c2["result"])
        if len(spec) != len(m1):
            raise core.Unsupported(f"tier 2: oracle of {name} lists {len(spec)} members, kernel returned {len(m1)}")

        def apply(sp, a, b):
            if isinstance(sp, list):
                for s_, a_, b_ in zip(sp, a, b):
                    apply(s_, a_, b_)
                return
            fac = 1
            for ak, e in sp.items():
                f = factor(ak)
                if f is not None:
                    fac = fac * (f ** e)
            for x, y in zip(_flat_reals(a), _flat_reals(b)):
                if isinstance(x, SymReal) or isinstance(y, SymReal):
                    ctx.assume(exact_eq(y, x * fac))
        for sp, a, b in zip(spec, m1, m2):
            apply(sp, a, b)


# Tier-2 data: one free magnitude times a regular (symmetric positive definite / full rank) pattern. The kernels are uninterpreted,
# so the element values carry no information; degenerate data (which z3 would pick first) makes real LAPACK raise or return empties
L22 = lambda E, n="a", g="L": E.q(n, g, pattern=[[2, 1], [1, 3]])
T("np.linalg.det", "numpy.linalg.det", lambda N, E: N.linalg.det(L22(E)), dim=DL2, tier=2, kargs={"a": "L"})
T("np.linalg.det/stack1", "numpy.linalg.det", lambda N, E: N.linalg.det(E.q("a", "L", pattern=[[[2, 1], [1, 3]]])), dim=DL2, tier=2, kargs={"a": "L"})
T("np.linalg.det/stack3", "numpy.linalg.det", lambda N, E: N.linalg.det(E.q("a", "L", pattern=[[[2, 1], [1, 3]], [[1, 2], [3, 1]], [[1, 1], [0, 2]]])), dim=DL2, tier=2, kargs={"a": "L"}, quick=False)
T("np.linalg.det/3x3", "numpy.linalg.det", lambda N, E: N.linalg.det(E.q("a", "L", pattern=[[2, 1, 0], [1, 3, 1], [0, 1, 4]])), dim={"L": 3}, tier=2, kargs={"a": "L"}, quick=False)
T("np.linalg.inv", "numpy.linalg.inv", lambda N, E: N.linalg.inv(L22(E)), dim={"L": -1}, tier=2, kargs={"a": "L"})
T("np.linalg.inv/stack", "numpy.linalg.inv", lambda N, E: N.linalg.inv(E.q("a", "L", pattern=[[[2, 1], [1, 3]]])), dim={"L": -1}, tier=2, kargs={"a": "L"}, quick=False)
T("np.linalg.pinv", "numpy.linalg.pinv", lambda N, E: N.linalg.pinv(E.q("a", "L", pattern=[[1, 2, 0], [0, 1, 3]])), dim={"L": -1}, tier=2, kargs={"a": "L"})
T("np.linalg.pinv/hermitian", "numpy.linalg.pinv", lambda N, E: N.linalg.pinv(L22(E), hermitian=True), dim={"L": -1}, tier=2, kargs={"a": "L"}, quick=False)
T("np.linalg.tensorinv", "numpy.linalg.tensorinv", lambda N, E: N.linalg.tensorinv(L22(E), ind=1), dim={"L": -1}, tier=2, kargs={"a": "L"})
T("np.linalg.solve", "numpy.linalg.solve", lambda N, E: N.linalg.solve(L22(E), E.q("b", "T", pattern=[1, 2])), groups=LT, dim={"L": -1, "T": 1}, tier=2, kargs={"a": "L", "b": "T"})
T("np.linalg.solve/matrix", "numpy.linalg.solve", lambda N, E: N.linalg.solve(L22(E), E.q("b", "T", pattern=[[1, 2], [0, 1]])), groups=LT, dim={"L": -1, "T": 1}, tier=2, kargs={"a": "L", "b": "T"}, quick=False)
T("np.linalg.solve/bare-b", "numpy.linalg.solve", lambda N, E: N.linalg.solve(L22(E), E.q("b", "bare", pattern=[1, 2])), dim={"L": -1}, tier=2, kargs={"a": "L"})
T("np.linalg.tensorsolve", "numpy.linalg.tensorsolve", lambda N, E: N.linalg.tensorsolve(L22(E), E.q("b", "T", pattern=[1, 2])), groups=LT, dim={"L": -1, "T": 1}, tier=2, kargs={"a": "L", "b": "T"})
def _lstsq(N, E, gb, **kw):
    """generic data (one free magnitude times a regular pattern): the residual is neither empty nor zero - uninterpreted
    kernels would otherwise admit models on degenerate data that real LAPACK answers with an empty residual array"""
    return N.linalg.lstsq(E.q("a", "L", pattern=[[1, 1], [1, 2], [1, 3]]), E.q("b", gb, pattern=[1, 2, 2]), **kw)


T("np.linalg.lstsq", "numpy.linalg.lstsq", lambda N, E: _lstsq(N, E, "T", rcond=None), groups=LT,
  dim=[{"L": -1, "T": 1}, {"T": 2}, BARE, DL], tier=2, kargs={"a": "L", "b": "T"})
T("np.linalg.lstsq/same", "numpy.linalg.lstsq", lambda N, E: _lstsq(N, E, "L"),
  dim=[None, DL2, BARE, DL], tier=2, kargs={"a": "L", "b": "L"}, quick=False)
T("np.linalg.eig", "numpy.linalg.eig", lambda N, E: N.linalg.eig(L22(E)), dim=[DL, BARE], tier=2, kargs={"a": "L"})
T("np.linalg.eigh", "numpy.linalg.eigh", lambda N, E: N.linalg.eigh(L22(E)), dim=[DL, BARE], tier=2, kargs={"a": "L"})
T("np.linalg.eigh/UPLO", "numpy.linalg.eigh", lambda N, E: N.linalg.eigh(L22(E), "U"), dim=[DL, BARE], tier=2, kargs={"a": "L"})
T("np.linalg.eigvals", "numpy.linalg.eigvals", lambda N, E: N.linalg.eigvals(L22(E)), dim=DL, tier=2, kargs={"a": "L"})
T("np.linalg.eigvalsh", "numpy.linalg.eigvalsh", lambda N, E: N.linalg.eigvalsh(L22(E)), dim=DL, tier=2, kargs={"a": "L"})
T("np.linalg.eigvalsh/UPLO-kw", "numpy.linalg.eigvalsh", lambda N, E: N.linalg.eigvalsh(L22(E), UPLO="U"), dim=DL, tier=2, kargs={"a": "L"})
T("np.linalg.svd", "numpy.linalg.svd", lambda N, E: N.linalg.svd(E.q("a", "L", pattern=[[1, 2, 0], [0, 1, 3]])), dim=[BARE, DL, BARE], tier=2, kargs={"a": "L"})
T("np.linalg.svd/reduced", "numpy.linalg.svd", lambda N, E: N.linalg.svd(E.q("a", "L", pattern=[[1, 2, 0], [0, 1, 3]]), full_matrices=False), dim=[BARE, DL, BARE], tier=2, kargs={"a": "L"})
T("np.linalg.svd/values-only", "numpy.linalg.svd", lambda N, E: N.linalg.svd(E.q("a", "L", pattern=[[1, 2, 0], [0, 1, 3]]), True, False), dim=DL, tier=2, kargs={"a": "L"})
T("np.linalg.svd/hermitian", "numpy.linalg.svd", lambda N, E: N.linalg.svd(L22(E), compute_uv=False, hermitian=True), dim=DL, tier=2, kargs={"a": "L"}, quick=False)
T("np.linalg.norm", "numpy.linalg.norm", lambda N, E: N.linalg.norm(E.q("a", "L", (2,))), dim=DL)
T("np.linalg.norm/ord1", "numpy.linalg.norm", lambda N, E: N.linalg.norm(E.q("a", "L", (2,)), 1), dim=DL)
T("np.linalg.norm/inf", "numpy.linalg.norm", lambda N, E: N.linalg.norm(E.q("a", "L", (2,)), ord=np.inf), dim=DL, quick=False)
T("np.linalg.norm/axis-keepdims", "numpy.linalg.norm", lambda N, E: N.linalg.norm(E.q("a", "L", (2, 2)), axis=1, keepdims=True), dim=DL)
T("np.linalg.norm/fro", "numpy.linalg.norm", lambda N, E: N.linalg.norm(L22(E), "fro"), dim=DL, quick=False)
T("np.linalg.norm/ord2-matrix", "numpy.linalg.norm", lambda N, E: N.linalg.norm(L22(E), 2), dim=DL, tier=2, kargs={"a": "L", "x": "L"})
T("np.linalg.norm/nuc", "numpy.linalg.norm", lambda N, E: N.linalg.norm(L22(E), "nuc"), dim=DL, tier=2, kargs={"a": "L", "x": "L"}, quick=False)
T("np.linalg.vector_norm", "numpy.linalg.vector_norm", lambda N, E: N.linalg.vector_norm(E.q("a", "L", (2,))), dim=DL, quick=False)
T("np.linalg.matrix_norm", "numpy.linalg.matrix_norm", lambda N, E: N.linalg.matrix_norm(L22(E)), dim=DL, quick=False)

for _n, _shape, _kw, _q in [("fft", (3,), {}, True), ("fft", (4,), {"n": 2}, False), ("fft", (2, 2), {"axis": 0}, True), ("fft", (3,), {"norm": "ortho"}, False),
                            ("ifft", (3,), {}, True), ("ifft", (2, 2), {"axis": 0, "norm": "forward"}, False), ("rfft", (4,), {}, True), ("rfft", (3,), {"n": 4}, False),
                            ("irfft", (3,), {}, True), ("irfft", (3,), {"n": 3}, False), ("hfft", (3,), {}, True), ("ihfft", (3,), {}, True),
                            ("fft2", (2, 2), {}, True), ("fft2", (2, 2), {"s": (2, 1)}, False), ("ifft2", (2, 2), {}, True), ("rfft2", (2, 2), {}, True), ("irfft2", (2, 2), {}, True),
                            ("fftn", (2, 2), {}, True), ("fftn", (2, 2), {"axes": (0,)}, False), ("ifftn", (2, 2), {}, True), ("rfftn", (2, 2), {}, True), ("irfftn", (2, 2), {}, True)]:
    def _mk(n=_n, shape=_shape, kw=_kw):
        return lambda N, E: getattr(N.fft, n)(E.q("a", "L", shape), **kw)
    T(f"np.fft.{_n}" + ("/" + "-".join(f"{k}{v}" for k, v in _kw.items()).replace(" ", "").replace("(", "").replace(")", "").replace(",", "_") if _kw else ""),
      "numpy.fft." + _n, _mk(), dim=DL, tier=2, kargs={"a": "L"}, quick=_q)
T("np.fft.fft/n-positional", "numpy.fft.fft", lambda N, E: N.fft.fft(E.q("a", "L", (3,)), 2, 0, "ortho"), dim=DL, tier=2, kargs={"a": "L"}, quick=False)

T("np.interp/left-right", "numpy.interp", lambda N, E: N.interp(E.q("a", "L", (2,)), E.q("b", "L", (2,), increasing=True), E.q("c", "T", (2,)), left=0.0, right=0.0), groups=LT, dim=DT, tier=2,
  kargs={"x": "L", "xp": "L", "fp": "T"})
T("np.interp/scalar-x", "numpy.interp", lambda N, E: N.interp(E.q("a", "L", ()), E.q("b", "L", (3,), increasing=True), E.q("c", "T", (3,))), groups=LT, dim=DT, tier=2,
  kargs={"x": "L", "xp": "L", "fp": "T"})
T("np.interp/bare-fp", "numpy.interp", lambda N, E: N.interp(E.q("a", "L", (2,)), E.q("b", "L", (2,), increasing=True), E.raw("c", (2,))), dim=BARE, tier=2,
  kargs={"x": "L", "xp": "L"})
T("np.interp/mixdim", "numpy.interp", lambda N, E: N.interp(E.q("a", "T", (2,)), E.q("b", "L", (2,), increasing=True), E.q("c", "T", (2,))), groups=LT, tier=2, quick=False)
T("np.histogram", "numpy.histogram", lambda N, E: N.histogram(E.q("a", "L", (3,)), bins=2), dim=[BARE, DL], tier=2, kargs={"a": "L"})
T("np.histogram/bins-pos", "numpy.histogram", lambda N, E: N.histogram(E.q("a", "L", (3,)), 3), dim=[BARE, DL], tier=2, kargs={"a": "L"}, quick=False)
T("np.histogram/density", "numpy.histogram", lambda N, E: N.histogram(E.q("a", "L", (3,)), bins=2, density=True), dim=[{"L": -1}, DL], tier=2, kargs={"a": "L"})
T("np.histogram/weights", "numpy.histogram", lambda N, E: N.histogram(E.q("a", "L", (3,)), bins=2, weights=E.q("w", "T", (3,))), groups=LT, dim=[DT, DL], tier=2, kargs={"a": "L", "weights": "T"})
T("np.histogram/weights-density", "numpy.histogram", lambda N, E: N.histogram(E.q("a", "L", (3,)), 2, None, True, E.q("w", "T", (3,))), groups=LT, dim=[{"L": -1, "T": 1}, DL], tier=2,
  kargs={"a": "L", "weights": "T"}, quick=False)
T("np.histogram2d", "numpy.histogram2d", lambda N, E: N.histogram2d(E.q("a", "L", (3,)), E.q("b", "T", (3,)), bins=2), groups=LT, dim=[BARE, DL, DT], tier=2, kargs={"x": "L", "y": "T"})
T("np.histogram2d/density", "numpy.histogram2d", lambda N, E: N.histogram2d(E.q("a", "L", (3,)), E.q("b", "T", (3,)), bins=2, density=True), groups=LT,
  dim=[{"L": -1, "T": -1}, DL, DT], tier=2, kargs={"x": "L", "y": "T"})
T("np.histogram2d/weights", "numpy.histogram2d", lambda N, E: N.histogram2d(E.q("a", "L", (3,)), E.q("b", "L", (3,)), bins=(2, 1), weights=E.q("w", "T", (3,))), groups=LT,
  dim=[DT, DL, DL], tier=2, kargs={"x": "L", "y": "L", "weights": "T"}, quick=False)
T("np.histogramdd", "numpy.histogramdd", lambda N, E: N.histogramdd([E.q("a", "L", (3,)), E.q("b", "T", (3,))], bins=2), groups=LT, dim=[BARE, [DL, DT]], tier=2,
  kargs={("sample", 0): "L", ("sample", 1): "T"})
T("np.histogramdd/density", "numpy.histogramdd", lambda N, E: N.histogramdd([E.q("a", "L", (3,)), E.q("b", "T", (3,))], bins=2, density=True), groups=LT,
  dim=[{"L": -1, "T": -1}, [DL, DT]], tier=2, kargs={("sample", 0): "L", ("sample", 1): "T"})
T("np.histogram_bin_edges", "numpy.histogram_bin_edges", lambda N, E: N.histogram_bin_edges(E.q("a", "L", (3,)), bins=2), dim=DL, tier=2, kargs={"a": "L"})
T("np.histogram_bin_edges/pos", "numpy.histogram_bin_edges", lambda N, E: N.histogram_bin_edges(E.q("a", "L", (3,)), 3), dim=DL, tier=2, kargs={"a": "L"}, quick=False)

NOT_COVERED_HANDLERS = {
    "numpy.savetxt": "I/O (outside the property's domain as stated in DESIGN.md)",
    "numpy.sort_complex": "casts to complex128 (float() on a symbol); complex payloads are outside",
}


# =========================================================================================================== widening
# ---- more ndarray methods
T("m.ravel", "ndarray.ravel", lambda N, E: E.q("a", "L", (2, 2)).ravel(), dim=DL)
T("m.squeeze", "ndarray.squeeze", lambda N, E: E.q("a", "L", (1, 2)).squeeze(), dim=DL, quick=False)
T("m.swapaxes", "ndarray.swapaxes", lambda N, E: E.q("a", "L", (2, 3)).swapaxes(0, 1), dim=DL, quick=False)
T("m.diagonal", "ndarray.diagonal", lambda N, E: E.q("a", "L", (2, 2)).diagonal(), dim=DL)
T("m.compress", "ndarray.compress", lambda N, E: E.q("a", "L", (3,)).compress([True, False, True]), dim=DL, quick=False)
T("m.nonzero", "ndarray.nonzero", lambda N, E: E.q("a", "L", (2,)).nonzero(), dim=[BARE], quick=False)
T("m.all", "ndarray.all", lambda N, E: E.q("a", "L", (2,)).all(), dim=BARE)
T("m.any", "ndarray.any", lambda N, E: E.q("a", "L", (2,)).any(), dim=BARE, quick=False)
T("m.cumprod", "ndarray.cumprod", lambda N, E: E.q("a", "L", (2,)).cumprod())
T("m.partition", "ndarray.partition", lambda N, E: E.q("a", "L", (3,)).partition(1))
T("m.argpartition", "ndarray.argpartition", lambda N, E: E.q("a", "L", (3,)).argpartition(1), dim=BARE)
T("m.argmin/axis", "ndarray.argmin", lambda N, E: E.q("a", "L", (2, 2)).argmin(axis=0), dim=BARE)
T("m.put", "ndarray.put", lambda N, E: E.q("a", "L", (3,)).put([0, 2], E.q("b", "L", (2,))))
T("m.mean/out", "ndarray.mean", lambda N, E: E.q("a", "L", (2, 2)).mean(axis=0, out=E.out("o", "L", (2,))), dim=DL)
T("m.std/ddof", "ndarray.std", lambda N, E: E.q("a", "L", (3,)).std(ddof=1), dim=DL, quick=False)
T("m.var/axis", "ndarray.var", lambda N, E: E.q("a", "L", (2, 2)).var(axis=0), dim=DL2, quick=False)
T("m.prod/axis", "ndarray.prod", lambda N, E: E.q("a", "L", (2, 3)).prod(axis=1), dim={"L": 3})
T("m.cumsum/out", "ndarray.cumsum", lambda N, E: E.q("a", "L", (3,)).cumsum(out=E.out("o", "L", (3,))), dim=DL, quick=False)
T("m.conj", "ndarray.conj", lambda N, E: E.q("a", "L", (2,)).conj(), dim=DL)
T("m.astype", "ndarray.astype", lambda N, E: E.q("a", "L", (2,)).astype(E.made["a"].dtype), dim=DL)
T("m.view-ndarray", "ndarray.view", lambda N, E: E.q("a", "L", (2,)).view(np.ndarray), note="explicit request for the bare view", c07=False)
T("m.item", "ndarray.item", lambda N, E: E.q("a", "L", (1,)).item(), c07=False, note="item()/tolist() are documented to return python numbers")
T("m.iter", "ndarray.__iter__", lambda N, E: list(E.q("a", "L", (2,))), dim=[DL, DL])
T("m.getitem/ellipsis", "ndarray.__getitem__", lambda N, E: E.q("a", "L", (2, 2))[..., 0], dim=DL, quick=False)
T("m.getitem/newaxis", "ndarray.__getitem__", lambda N, E: E.q("a", "L", (2,))[None, :], dim=DL, quick=False)
T("m.getitem/quantity-0d", "ndarray.__getitem__", lambda N, E: E.q("a", "L", ())[()], dim=DL, quick=False)
T("m.setitem/num", "ndarray.__setitem__", lambda N, E: E.q("a", "L", (3,)).__setitem__(1, E.num("v", "L")))
T("m.setitem/mask", "ndarray.__setitem__", lambda N, E: E.q("a", "L", (3,)).__setitem__(np.array([True, False, True]), E.q("b", "L", ())), quick=False)
T("op.pos", "ndarray.__pos__", lambda N, E: +E.q("a", "L", (2,)), dim=DL)
T("op.abs", "ndarray.__abs__", lambda N, E: abs(E.q("a", "L", (2,))), dim=DL)
T("np.dot/quantity-scalar", "numpy.dot", lambda N, E: N.dot(E.q("a", "L", (2,)), E.q("b", "T", ())), groups=LT, dim=DLT, quick=False)
T("np.dot/bare-a", "numpy.dot", lambda N, E: N.dot(E.raw("a", (2,)), E.q("b", "T", (2,))), groups=("T",), dim=DT)

# ---- more unwrapped functions of the test-suite whitelist
T("np.amax", "numpy.amax", lambda N, E: N.amax(E.q("a", "L", (3,))), dim=DL, quick=False)
T("np.min/keepdims", "numpy.min", lambda N, E: N.min(E.q("a", "L", (2, 2)), axis=1, keepdims=True), dim=DL, quick=False)
T("np.max/initial", "numpy.max", lambda N, E: N.max(E.q("a", "L", (2,)), initial=E.num("v", "L")), dim=DL, quick=False)
T("np.sum/out", "numpy.sum", lambda N, E: N.sum(E.q("a", "L", (2, 2)), axis=1, out=E.out("o", "L", (2,))), dim=DL)
T("np.mean/keepdims", "numpy.mean", lambda N, E: N.mean(E.q("a", "L", (2, 3)), axis=0, keepdims=True), dim=DL, quick=False)
T("np.median/out", "numpy.median", lambda N, E: N.median(E.q("a", "L", (2, 2)), axis=1, out=E.out("o", "L", (2,))), dim=DL, quick=False)
T("np.average/axis-weights", "numpy.average", lambda N, E: N.average(E.q("a", "L", (2, 2)), axis=0, weights=E.raw("w", (2,), pos=True)), dim=DL)
T("np.average/returned", "numpy.average", lambda N, E: N.average(E.q("a", "L", (2,)), weights=E.raw("w", (2,), pos=True), returned=True), dim=[DL, BARE], quick=False)
T("np.percentile/many", "numpy.percentile", lambda N, E: N.percentile(E.q("a", "L", (3,)), [10, 50, 90]), dim=DL, quick=False)
T("np.percentile/out", "numpy.percentile", lambda N, E: N.percentile(E.q("a", "L", (2, 2)), 50, axis=0, out=E.out("o", "L", (2,))), dim=DL)
T("np.percentile/methods", "numpy.percentile", lambda N, E: [N.percentile(E.q("a", "L", (3,)), 40, method=m) for m in ("higher", "nearest", "midpoint")], dim=[DL, DL, DL], quick=False)
T("np.quantile/many-axis", "numpy.quantile", lambda N, E: N.quantile(E.q("a", "L", (2, 2)), [0.25, 0.75], axis=1), dim=DL, quick=False)
T("np.nanquantile/axis", "numpy.nanquantile", lambda N, E: N.nanquantile(E.q("a", "L", (2, 2)), 0.5, axis=0), dim=DL, quick=False)
T("np.nanpercentile/kw", "numpy.nanpercentile", lambda N, E: N.nanpercentile(E.q("a", "L", (2, 2)), q=25, axis=1, keepdims=True), dim=DL, quick=False)
T("np.sort/stable", "numpy.sort", lambda N, E: N.sort(E.q("a", "L", (3,)), kind="stable"), dim=DL, quick=False)
T("np.sort/axisNone", "numpy.sort", lambda N, E: N.sort(E.q("a", "L", (2, 2)), axis=None), dim=DL, quick=False)
T("np.argsort/axis-kind", "numpy.argsort", lambda N, E: N.argsort(E.q("a", "L", (2, 2)), axis=0, kind="stable"), dim=BARE, quick=False)
T("np.argmax/keepdims", "numpy.argmax", lambda N, E: N.argmax(E.q("a", "L", (2, 2)), axis=1, keepdims=True), dim=BARE, quick=False)
T("np.argmin", "numpy.argmin", lambda N, E: N.argmin(E.q("a", "L", (3,))), dim=BARE, quick=False)
T("np.nanargmin", "numpy.nanargmin", lambda N, E: N.nanargmin(E.q("a", "L", (2,))), dim=BARE, quick=False)
T("np.partition/kth-list", "numpy.partition", lambda N, E: N.partition(E.q("a", "L", (3,)), [0, 2]), dim=DL, quick=False)
T("np.unique/inverse", "numpy.unique", lambda N, E: N.unique(E.q("a", "L", (2,)), return_inverse=True), dim=[DL, BARE], quick=False)
T("np.unique/axis", "numpy.unique", lambda N, E: N.unique(E.q("a", "L", (2, 1)), axis=0), dim=DL, quick=False)
T("np.unique_counts", "numpy.unique_counts", lambda N, E: tuple(N.unique_counts(E.q("a", "L", (2,)))), dim=[DL, BARE], quick=False)
T("np.unique_inverse", "numpy.unique_inverse", lambda N, E: tuple(N.unique_inverse(E.q("a", "L", (2,)))), dim=[DL, BARE], quick=False)
T("np.unique_all", "numpy.unique_all", lambda N, E: tuple(N.unique_all(E.q("a", "L", (2,)))), dim=[DL, BARE, BARE, BARE], quick=False)
T("np.ndim-shape-size", "numpy.ndim", lambda N, E: (N.ndim(E.q("a", "L", (2, 3))), N.shape(E.made["a"]), N.size(E.made["a"])), dim=BARE, quick=False)
T("np.iscomplexobj", "numpy.iscomplexobj", lambda N, E: N.iscomplexobj(E.q("a", "L", (2,))), dim=BARE, quick=False)
T("np.cumulative_sum/axis", "numpy.cumulative_sum", lambda N, E: N.cumulative_sum(E.q("a", "L", (2, 2)), axis=1), dim=DL, quick=False)
T("np.nancumprod", "numpy.nancumprod", lambda N, E: N.nancumprod(E.q("a", "L", (2,))), quick=False)
T("np.linalg.diagonal", "numpy.linalg.diagonal", lambda N, E: N.linalg.diagonal(E.q("a", "L", (2, 2))), dim=DL, quick=False)
T("np.linalg.trace", "numpy.linalg.trace", lambda N, E: N.linalg.trace(E.q("a", "L", (2, 2))), dim=DL)
T("np.linalg.matmul", "numpy.linalg.matmul", lambda N, E: N.linalg.matmul(*_ab(E, (2, 2), (2, 2))), groups=LT, dim=DLT, quick=False)
T("np.linalg.tensordot", "numpy.linalg.tensordot", lambda N, E: N.linalg.tensordot(*_ab(E, (2, 2), (2, 2))), groups=LT, dim=DLT, quick=False)
T("np.linalg.matrix_transpose", "numpy.linalg.matrix_transpose", lambda N, E: N.linalg.matrix_transpose(E.q("a", "L", (2, 3))), dim=DL, quick=False)
T("np.matrix_transpose", "numpy.matrix_transpose", lambda N, E: N.matrix_transpose(E.q("a", "L", (2, 3))), dim=DL, quick=False)
T("np.tril_indices_from", "numpy.tril_indices_from", lambda N, E: N.tril_indices_from(E.q("a", "L", (2, 2))), dim=BARE, quick=False)
T("np.diag_indices_from", "numpy.diag_indices_from", lambda N, E: N.diag_indices_from(E.q("a", "L", (2, 2))), dim=BARE, quick=False)
T("np.sign", "numpy.sign", lambda N, E: N.sign(E.q("a", "L", (2,))), dim=BARE, quick=False)
T("np.vecdot", "numpy.vecdot", lambda N, E: N.vecdot(*_ab(E)), groups=LT, dim=DLT, quick=False)

# ---- more argument forms of handlers
T("np.pad/constant_values-q", "numpy.pad", lambda N, E: N.pad(E.q("a", "L", (2,)), 1, constant_values=E.q("b", "L", ())), dim=DL)
T("np.pad/constant_values-num", "numpy.pad", lambda N, E: N.pad(E.q("a", "L", (2,)), 1, constant_values=E.num("v", "L")), dim=DL)
T("np.pad/end_values-q", "numpy.pad", lambda N, E: N.pad(E.q("a", "L", (2,)), 1, mode="linear_ramp", end_values=E.q("b", "L", ())), dim=DL, quick=False)
T("np.pad/stat_length", "numpy.pad", lambda N, E: N.pad(E.q("a", "L", (3,)), 1, mode="maximum", stat_length=2), dim=DL, quick=False)
T("np.clip/min-only", "numpy.clip", lambda N, E: N.clip(E.q("a", "L", (2,)), E.q("b", "L", ()), None), dim=DL)
T("np.clip/max-kw-only", "numpy.clip", lambda N, E: N.clip(E.q("a", "L", (2,)), a_max=E.q("c", "L", ())), dim=DL, quick=False)
T("np.clip/minmax-kw", "numpy.clip", lambda N, E: N.clip(E.q("a", "L", (2,)), min=E.q("b", "L", ()), max=E.q("c", "L", ())), dim=DL)
T("np.where/zero", "numpy.where", lambda N, E: N.where(np.array([True, False]), E.q("a", "L", (2,)), 0.0), dim=DL, quick=False)
T("np.select/default-num", "numpy.select", lambda N, E: N.select([np.array([True, False])], [E.q("a", "L", (2,))], E.num("v", "L")), dim=DL)
T("np.full_like/num", "numpy.full_like", lambda N, E: N.full_like(E.q("a", "L", (2,)), E.num("v", "L")), dim=DL, quick=False)
T("np.einsum/implicit-same", "numpy.einsum", lambda N, E: N.einsum("ij,jk", *_ab(E, (2, 2), (2, 2), gb="L")), dim=DL2, quick=False)
T("np.einsum/three-same", "numpy.einsum", lambda N, E: N.einsum("i,i,i->", E.q("a", "L", (2,)), E.q("b", "L", (2,)), E.q("c", "L", (2,))), dim={"L": 3}, quick=False)
T("np.einsum/optimize", "numpy.einsum", lambda N, E: N.einsum("ij->j", E.q("a", "L", (2, 2)), optimize=True), dim=DL, quick=False)
T("np.einsum/trace-sum", "numpy.einsum", lambda N, E: N.einsum("ii->", E.q("a", "L", (2, 2))), dim=DL)
T("np.tensordot/axes0", "numpy.tensordot", lambda N, E: N.tensordot(*_ab(E), 0), groups=LT, dim=DLT, quick=False)
T("np.cross/2d-rows", "numpy.cross", lambda N, E: N.cross(*_ab(E, (2, 3), (2, 3))), groups=LT, dim=DLT, quick=False)
T("np.trapezoid/axis-kw-2d", "numpy.trapezoid", lambda N, E: N.trapezoid(E.q("a", "L", (2, 3)), E.q("b", "T", (3,)), axis=-1), groups=LT, dim=DLT, quick=False)
T("np.trapezoid/dx-num", "numpy.trapezoid", lambda N, E: N.trapezoid(E.q("a", "L", (3,)), dx=2.0), dim=DL, quick=False)
T("np.trapezoid/dx-pos", "numpy.trapezoid", lambda N, E: N.trapezoid(E.q("a", "L", (3,)), None, E.q("b", "T", ())), groups=LT, dim=DLT, quick=False)
T("np.array_equal/equal_nan", "numpy.array_equal", lambda N, E: N.array_equal(E.q("a", "L", (2,)), E.q("b", "L", (2,)), equal_nan=False), dim=BARE, quick=False)
T("np.array_equal/mixdim", "numpy.array_equal", lambda N, E: N.array_equal(E.q("a", "L", (2,)), E.q("b", "T", (2,))), groups=LT, dim=BARE, quick=False, c06=False,
  note="quantities of different units are never array_equal (C19): deliberately not NumPy's verdict on the numbers")
T("np.linspace/num-kw-dtype", "numpy.linspace", lambda N, E: N.linspace(E.q("a", "L", ()), E.q("b", "L", ()), num=2, dtype=None, axis=0), dim=DL, quick=False)
T("np.stack/three", "numpy.stack", lambda N, E: N.stack([E.q("a", "L", (2,)), E.q("b", "L", (2,)), E.q("c", "L", (2,))], axis=-1), dim=DL, quick=False)
T("np.vstack/three-ragged", "numpy.vstack", lambda N, E: N.vstack([E.q("a", "L", (2,)), E.q("b", "L", (1, 2)), E.q("c", "L", (2, 2))]), dim=DL, quick=False)
T("np.hstack/three", "numpy.hstack", lambda N, E: N.hstack([E.q("a", "L", (1,)), E.q("b", "L", (2,)), E.q("c", "L", (1,))]), dim=DL, quick=False)
T("np.hstack/quantities", "numpy.hstack", lambda N, E: N.hstack([E.q("a", "L", ()), E.q("b", "L", ())]), dim=DL)
T("np.concatenate/bare-mixed", "numpy.concatenate", lambda N, E: N.concatenate([E.q("a", "L", (2,)), E.raw("b", (2,))]))
T("np.concatenate/dimensionless-mixed", "numpy.concatenate", lambda N, E: N.concatenate([E.q("a", "1", (2,)), E.raw("b", (2,))]), groups=("1",), quick=False)
T("np.column_stack/three", "numpy.column_stack", lambda N, E: N.column_stack([E.q("a", "L", (2,)), E.q("b", "L", (2, 2)), E.q("c", "L", (2,))]), dim=DL, quick=False)
T("np.dstack/ragged", "numpy.dstack", lambda N, E: N.dstack([E.q("a", "L", (2,)), E.q("b", "L", (1, 2, 2))]), dim=DL, quick=False)
T("np.block/nested-scalars", "numpy.block", lambda N, E: N.block([[E.q("a", "L", ()), E.q("b", "L", ())], [E.q("c", "L", (1, 2))]]), dim=DL, quick=False)
T("np.insert/slice", "numpy.insert", lambda N, E: N.insert(E.q("a", "L", (3,)), slice(0, 2), E.q("b", "L", (2,))), dim=DL, quick=False)
T("np.insert/mixdim", "numpy.insert", lambda N, E: N.insert(E.q("a", "L", (2,)), 0, E.q("b", "T", ())), groups=LT, quick=False)
T("np.put/scalar-v", "numpy.put", lambda N, E: N.put(E.q("a", "L", (3,)), 1, E.q("b", "L", ())), quick=False)
T("np.put/mixdim", "numpy.put", lambda N, E: N.put(E.q("a", "L", (3,)), 1, E.q("b", "T", ())), groups=LT, quick=False)
T("np.place/cycle", "numpy.place", lambda N, E: N.place(E.q("a", "L", (3,)), np.array([True, True, True]), E.q("b", "L", (2,))), quick=False)
T("np.putmask/bcast", "numpy.putmask", lambda N, E: N.putmask(E.q("a", "L", (2, 2)), np.array([[True, False], [False, True]]), E.q("b", "L", ())), quick=False)
T("np.copyto/casting", "numpy.copyto", lambda N, E: N.copyto(E.q("a", "L", (2,)), E.q("b", "L", (2,)), casting="unsafe"), quick=False)
T("np.copyto/bare-dst", "numpy.copyto", lambda N, E: N.copyto(E.raw("a", (2,)), E.q("b", "L", (2,))), quick=False, c07=False)
T("np.searchsorted/mixdim", "numpy.searchsorted", lambda N, E: N.searchsorted(E.q("a", "L", (2,), increasing=True), E.q("b", "T", ())), groups=LT, quick=False)
T("np.take/quantity-index-kw", "numpy.take", lambda N, E: N.take(E.q("a", "L", (2, 2)), indices=[1], axis=0, mode="raise"), dim=DL, quick=False)
T("np.choose/three", "numpy.choose", lambda N, E: N.choose(np.array([2, 0, 1]), [E.q("a", "L", (3,)), E.q("b", "L", (3,)), E.q("c", "L", (3,))]), dim=DL, quick=False)
T("np.choose/mixdim", "numpy.choose", lambda N, E: N.choose(np.array([0, 1]), [E.q("a", "L", (2,)), E.q("b", "T", (2,))]), groups=LT, quick=False)
T("np.setdiff1d/mixdim", "numpy.setdiff1d", lambda N, E: N.setdiff1d(E.q("a", "L", (2,)), E.q("b", "T", (2,))), groups=LT, quick=False)
T("np.union1d/mixdim", "numpy.union1d", lambda N, E: N.union1d(E.q("a", "L", (2,)), E.q("b", "T", (2,))), groups=LT, quick=False)
T("np.kron/bare", "numpy.kron", lambda N, E: N.kron(E.q("a", "L", (2,)), E.raw("b", (2,))), dim=DL, quick=False)
T("np.outer/bare-a", "numpy.outer", lambda N, E: N.outer(E.raw("a", (2,)), E.q("b", "T", (2,))), groups=("T",), dim=DT, quick=False)
T("np.inner/same", "numpy.inner", lambda N, E: N.inner(*_ab(E, gb="L")), dim=DL2, quick=False)
T("np.convolve/same-dim", "numpy.convolve", lambda N, E: N.convolve(*_ab(E, (2,), (2,), gb="L")), dim=DL2, quick=False)
T("np.var/mean-kw", "numpy.var", lambda N, E: N.var(E.q("a", "L", (2,)), mean=E.q("b", "L", ())), dim=DL2, quick=False)
T("np.prod/where-initial", "numpy.prod", lambda N, E: N.prod(E.q("a", "L", (3,)), where=np.array([True, False, True]), initial=1.0), dim=DL2,
  note="the product runs over 2 of the 3 elements: the unit exponent must be 2")
T("np.sum/where-initial", "numpy.sum", lambda N, E: N.sum(E.q("a", "L", (3,)), where=np.array([True, False, True]), initial=0.0), dim=DL)
T("np.prod/initial", "numpy.prod", lambda N, E: N.prod(E.q("a", "L", (2,)), initial=2.0), dim=DL2, quick=False)
T("np.ptp/keepdims", "numpy.ptp", lambda N, E: N.ptp(E.q("a", "L", (2, 2)), axis=0, keepdims=True), dim=DL, quick=False)
T("np.ptp/out", "numpy.ptp", lambda N, E: N.ptp(E.q("a", "L", (2, 2)), 1, E.out("o", "L", (2,))), dim=DL, quick=False)
T("np.diff/append-q", "numpy.diff", lambda N, E: N.diff(E.q("a", "L", (2,)), append=E.q("b", "L", (1,))), dim=DL, quick=False)
T("np.ediff1d/to_begin", "numpy.ediff1d", lambda N, E: N.ediff1d(E.q("a", "L", (2,)), to_begin=E.q("b", "L", (1,))), dim=DL, quick=False)
T("np.around/quantity", "numpy.around", lambda N, E: N.around(E.q("a", "L", ()), 1), dim=DL, cov=False, quick=False)
T("np.linalg.outer/same", "numpy.linalg.outer", lambda N, E: N.linalg.outer(*_ab(E, gb="L")), dim=DL2, quick=False)
T("np.linalg.norm/quantity-axis0", "numpy.linalg.norm", lambda N, E: N.linalg.norm(E.q("a", "L", (2, 2)), None, 0), dim=DL, quick=False)
T("np.linalg.norm/ord-neg", "numpy.linalg.norm", lambda N, E: N.linalg.norm(E.q("a", "L", (2,), nonzero=True), -1), dim=DL, quick=False)
T("np.unwrap/discont", "numpy.unwrap", lambda N, E: N.unwrap(E.q("a", "L", (2,)), discont=1.0), dim=DL, cov=False, quick=False)
T("np.sinc/length", "numpy.sinc", lambda N, E: N.sinc(E.q("a", "L", (2,), nonzero=True)), cov=False, c07=False, conform=False,
  note="np.sinc is declared unit-ignoring by the handler (like the non-angle transcendental ufuncs): C06 only")


# ---- two different units of one dimension inside one call (C07 only: the handler converts or refuses)
LL = ("L", "L2")
_mixkw = dict(groups=LL, c06=False, quick=False)
T("mix/np.isclose", "numpy.isclose", lambda N, E: N.isclose(E.q("a", "L", (2,)), E.q("b", "L2", (2,)), rtol=0.25, atol=0), dim=BARE, groups=LL, c06=False)
T("mix/np.allclose", "numpy.allclose", lambda N, E: N.allclose(E.q("a", "L", (2,)), E.q("b", "L2", (2,)), 0.25, 0), dim=BARE, **_mixkw)
T("mix/np.array_equal", "numpy.array_equal", lambda N, E: N.array_equal(E.q("a", "L", (2,)), E.q("b", "L2", (2,))), dim=BARE, **_mixkw)
T("mix/np.concatenate", "numpy.concatenate", lambda N, E: N.concatenate([E.q("a", "L", (2,)), E.q("b", "L2", (2,))]), dim=DL, **_mixkw)
T("mix/np.clip", "numpy.clip", lambda N, E: N.clip(E.q("a", "L", (2,)), E.q("b", "L2", ()), E.q("c", "L2", ())), dim=DL, **_mixkw)
T("mix/np.where", "numpy.where", lambda N, E: N.where(np.array([True, False]), E.q("a", "L", (2,)), E.q("b", "L2", (2,))), dim=DL, **_mixkw)
T("mix/np.linspace", "numpy.linspace", lambda N, E: N.linspace(E.q("a", "L", ()), E.q("b", "L2", ()), 3), dim=DL, **_mixkw)
T("mix/np.copyto", "numpy.copyto", lambda N, E: N.copyto(E.q("a", "L", (2,)), E.q("b", "L2", (2,))), groups=LL, c06=False)
T("mix/m.setitem", "ndarray.__setitem__", lambda N, E: E.q("a", "L", (3,)).__setitem__(slice(0, 2), E.q("b", "L2", (2,))), groups=LL, c06=False)
T("mix/np.dot", "numpy.dot", lambda N, E: N.dot(E.q("a", "L", (2,)), E.q("b", "L2", (2,))), dim={"L": 2}, **_mixkw)
T("mix/np.trapezoid", "numpy.trapezoid", lambda N, E: N.trapezoid(E.q("a", "L", (3,)), E.q("b", "L2", (3,))), dim={"L": 2}, **_mixkw)
T("mix/np.put", "numpy.put", lambda N, E: N.put(E.q("a", "L", (3,)), [0], E.q("b", "L2", (1,))), **_mixkw)
T("mix/np.fill_diagonal", "numpy.fill_diagonal", lambda N, E: N.fill_diagonal(E.q("a", "L", (2, 2)), E.q("b", "L2", ())), **_mixkw)
T("mix/np.insert", "numpy.insert", lambda N, E: N.insert(E.q("a", "L", (2,)), 1, E.q("b", "L2", ())), dim=DL, **_mixkw)
T("mix/np.searchsorted", "numpy.searchsorted", lambda N, E: N.searchsorted(E.q("a", "L", (2,), increasing=True), E.q("b", "L2", ())), dim=BARE, **_mixkw)
T("mix/np.isin", "numpy.isin", lambda N, E: N.isin(E.q("a", "L", (2,)), E.q("b", "L2", (2,))), dim=BARE, **_mixkw)
T("mix/np.histogram-weights", "numpy.histogram", lambda N, E: N.histogram(E.q("a", "L", (3,)), bins=2, weights=E.q("w", "L2", (3,))), groups=LL, c06=False, quick=False,
  dim=[DL, DL], tier=2, kargs={"a": "L", "weights": "L2"})


# ---- thorough tier: shape x axis sweep of single-operand functions (0-d, 1-d, 2-d, 3-d, empty where legal)
def _n_along(shape, ax):
    if ax is None:
        return int(np.prod(shape)) if shape else 1
    return shape[ax]


_SWEEP = {
    # name: (key, call(N, a, axis), oracle(shape, axis), covariant, needs an axis)
    "np.sum": ("numpy.sum", lambda N, a, ax: N.sum(a, axis=ax), lambda sh, ax: DL, True),
    "np.mean": ("numpy.mean", lambda N, a, ax: N.mean(a, axis=ax), lambda sh, ax: DL, True),
    "np.median": ("numpy.median", lambda N, a, ax: N.median(a, axis=ax), lambda sh, ax: DL, True),
    "np.std": ("numpy.std", lambda N, a, ax: N.std(a, axis=ax), lambda sh, ax: DL, True),
    "np.var": ("numpy.var", lambda N, a, ax: N.var(a, axis=ax), lambda sh, ax: DL2, True),
    "np.prod": ("numpy.prod", lambda N, a, ax: N.prod(a, axis=ax), lambda sh, ax: {"L": _n_along(sh, ax)}, True),
    "np.max": ("numpy.max", lambda N, a, ax: N.max(a, axis=ax), lambda sh, ax: DL, True),
    "np.ptp": ("numpy.ptp", lambda N, a, ax: N.ptp(a, axis=ax), lambda sh, ax: DL, True),
    "np.cumsum": ("numpy.cumsum", lambda N, a, ax: N.cumsum(a, axis=ax), lambda sh, ax: DL, True),
    "np.sort": ("numpy.sort", lambda N, a, ax: N.sort(a, axis=ax), lambda sh, ax: DL, True),
    "np.argsort": ("numpy.argsort", lambda N, a, ax: N.argsort(a, axis=ax), lambda sh, ax: BARE, True),
    "np.argmax": ("numpy.argmax", lambda N, a, ax: N.argmax(a, axis=ax), lambda sh, ax: BARE, True),
    "np.percentile": ("numpy.percentile", lambda N, a, ax: N.percentile(a, 50, axis=ax), lambda sh, ax: DL, True),
    "np.quantile": ("numpy.quantile", lambda N, a, ax: N.quantile(a, 0.25, axis=ax), lambda sh, ax: DL, True),
    "np.flip": ("numpy.flip", lambda N, a, ax: N.flip(a, axis=ax), lambda sh, ax: DL, True),
    "np.roll": ("numpy.roll", lambda N, a, ax: N.roll(a, 1, axis=ax), lambda sh, ax: DL, True),
    "np.take": ("numpy.take", lambda N, a, ax: N.take(a, [0], axis=ax), lambda sh, ax: DL, True),
    "np.around": ("numpy.around", lambda N, a, ax: N.around(a, 1), lambda sh, ax: DL, False),
    "np.trapezoid": ("numpy.trapezoid", lambda N, a, ax: N.trapezoid(a, axis=(-1 if ax is None else ax)), lambda sh, ax: DL, True),
    "np.linalg.norm": ("numpy.linalg.norm", lambda N, a, ax: N.linalg.norm(a, axis=ax), lambda sh, ax: DL, True),
    "np.triu": ("numpy.triu", lambda N, a, ax: N.triu(a), lambda sh, ax: DL, True),
    "np.pad": ("numpy.pad", lambda N, a, ax: N.pad(a, 1), lambda sh, ax: DL, True),
    "np.concatenate": ("numpy.concatenate", lambda N, a, ax: N.concatenate([a, a], axis=ax), lambda sh, ax: DL, True),
    "np.stack": ("numpy.stack", lambda N, a, ax: N.stack([a, a], axis=(0 if ax is None else ax)), lambda sh, ax: DL, True),
    "np.diff": ("numpy.diff", lambda N, a, ax: N.diff(a, axis=(-1 if ax is None else ax)), lambda sh, ax: DL, True),
}
_SWEEP_SHAPES = [((), [None]), ((1,), [None, 0]), ((0,), [None, 0]), ((2, 3), [None, 0, 1, -1]), ((3, 2), [0]), ((2, 2, 2), [None, 1, 2]), ((1, 2), [1])]
_SWEEP_SKIP = {("np.triu", ()), ("np.diff", ()), ("np.trapezoid", ()), ("np.stack", (0,)), ("np.linalg.norm", (2, 2, 2)), ("np.take", (0,)), ("np.argmax", (0,)),
               ("np.max", (0,)), ("np.ptp", (0,)), ("np.percentile", (0,)), ("np.quantile", (0,)), ("np.median", (0,)), ("np.mean", (0,)), ("np.std", (0,)), ("np.var", (0,))}
for _f, (_key, _call, _orc, _cov) in _SWEEP.items():
    for _sh, _axes in _SWEEP_SHAPES:
        if (_f, _sh) in _SWEEP_SKIP:
            continue
        for _ax in _axes:
            if _f in ("np.around", "np.triu", "np.pad") and _ax not in (None, _axes[0]):
                continue
            if _f == "np.concatenate" and _sh == () :
                continue
            if _f == "np.linalg.norm" and _ax is None and len(_sh) > 2:
                continue
            if _f in ("np.sort", "np.argsort", "np.median", "np.percentile", "np.quantile", "np.ptp") and _ax is None and len(_sh) > 1:
                continue  # n! orderings of 6-8 elements: the per-axis forms cover the same code
            if _sh == (0,) and _f not in ("np.sort", "np.argsort", "np.flip", "np.roll", "np.concatenate", "np.cumsum", "np.around", "np.diff"):
                continue  # empty object-dtype reductions return python ints (A9 artefact)
            if _f == "np.pad" and _sh == ():
                continue
            if _f in ("np.sort", "np.argsort", "np.median", "np.percentile", "np.quantile", "np.ptp") and _ax is not None and len(_sh) == 2 and _sh[_ax] == 3:
                continue  # two lanes of three elements: 13**2 orderings per run; (3,)/(2,3)ax0/(2,2,2) cover the same code

            def _mk(call=_call, sh=_sh, ax=_ax):
                return lambda N, E: call(N, E.q("a", "L", sh), ax)
            T(f"sweep/{_f}/{'x'.join(map(str, _sh)) or '0d'}/ax{_ax}", _key, _mk(), dim=_orc(_sh, _ax), cov=_cov, quick=False)


# =========================================================================================================== mixed units of one dimension
# QUICK tier, C07: every merging / validating function with operands in two different units of the same dimension (groups X, X2),
# instantiated for the three MIX_KINDS. Obligation: the call raises, or it denotes the same physical quantity as the same call
# on operands re-expressed by the harness into one common unit.
MIXED = []


def TM(name, key, fn, **kw):
    kw.setdefault("groups", ("X", "X2"))
    MIXED.append(Tpl(name, key, fn, **kw))


def _x2(E, s1=(2,), s2=(2,)):
    return [E.q("a", "X", s1), E.q("b", "X2", s2)]


_M3 = np.array([True, False, True])
TM("np.concatenate", "numpy.concatenate", lambda N, E: N.concatenate(_x2(E)))
TM("np.concatenate/out", "numpy.concatenate", lambda N, E: N.concatenate(_x2(E), out=E.out("o", "X", (4,))))
TM("np.vstack", "numpy.vstack", lambda N, E: N.vstack(_x2(E)))
TM("np.hstack", "numpy.hstack", lambda N, E: N.hstack(_x2(E)))
TM("np.dstack", "numpy.dstack", lambda N, E: N.dstack(_x2(E)))
TM("np.column_stack", "numpy.column_stack", lambda N, E: N.column_stack(_x2(E)))
TM("np.stack", "numpy.stack", lambda N, E: N.stack(_x2(E), axis=1))
TM("np.block", "numpy.block", lambda N, E: N.block([_x2(E, (2, 1), (2, 1))]))
TM("np.append", "numpy.append", lambda N, E: N.append(*_x2(E, (2,), (1,))))
TM("np.where", "numpy.where", lambda N, E: N.where(np.array([True, False]), *_x2(E)))
TM("np.select/choices", "numpy.select", lambda N, E: N.select([np.array([True, False]), np.array([False, True])], _x2(E)))
TM("np.select/default", "numpy.select", lambda N, E: N.select([np.array([True, False])], [E.q("a", "X", (2,))], E.q("b", "X2", ())))
TM("np.choose", "numpy.choose", lambda N, E: N.choose(np.array([0, 1]), _x2(E)))
TM("np.clip/both-other", "numpy.clip", lambda N, E: N.clip(E.q("a", "X", (2,)), E.q("b", "X2", ()), E.q("c", "X2", ())))
TM("np.clip/max-other", "numpy.clip", lambda N, E: N.clip(E.q("a", "X", (2,)), E.q("b", "X", ()), E.q("c", "X2", ())))
TM("np.searchsorted", "numpy.searchsorted", lambda N, E: N.searchsorted(E.q("a", "X", (2,), increasing=True), E.q("b", "X2", ())))
TM("np.intersect1d", "numpy.intersect1d", lambda N, E: N.intersect1d(*_x2(E, (2,), (1,))))
TM("np.union1d", "numpy.union1d", lambda N, E: N.union1d(*_x2(E, (1,), (1,))))
TM("np.setdiff1d", "numpy.setdiff1d", lambda N, E: N.setdiff1d(*_x2(E, (2,), (1,))))
TM("np.setxor1d", "numpy.setxor1d", lambda N, E: N.setxor1d(*_x2(E, (1,), (1,))))
TM("np.isin", "numpy.isin", lambda N, E: N.isin(*_x2(E, (2,), (1,))))
TM("np.insert", "numpy.insert", lambda N, E: N.insert(E.q("a", "X", (2,)), 1, E.q("b", "X2", ())))
TM("np.place", "numpy.place", lambda N, E: N.place(E.q("a", "X", (3,)), _M3, E.q("b", "X2", (2,))))
TM("np.put", "numpy.put", lambda N, E: N.put(E.q("a", "X", (3,)), [0, 2], E.q("b", "X2", (2,))))
TM("np.putmask", "numpy.putmask", lambda N, E: N.putmask(E.q("a", "X", (3,)), _M3, E.q("b", "X2", (3,))))
TM("np.put_along_axis", "numpy.put_along_axis", lambda N, E: N.put_along_axis(E.q("a", "X", (2, 2)), np.array([[1], [0]]), E.q("b", "X2", (2, 1)), 1))
TM("np.fill_diagonal", "numpy.fill_diagonal", lambda N, E: N.fill_diagonal(E.q("a", "X", (2, 2)), E.q("b", "X2", ())))
TM("np.copyto", "numpy.copyto", lambda N, E: N.copyto(E.q("a", "X", (2,)), E.q("b", "X2", (2,))))
TM("m.setitem", "ndarray.__setitem__", lambda N, E: E.q("a", "X", (3,)).__setitem__(slice(0, 2), E.q("b", "X2", (2,))))
TM("m.setitem/scalar", "ndarray.__setitem__", lambda N, E: E.q("a", "X", (2,)).__setitem__(1, E.q("b", "X2", ())))
TM("m.fill", "ndarray.fill", lambda N, E: E.q("a", "X", (2,)).fill(E.q("b", "X2", ())))
TM("np.linspace", "numpy.linspace", lambda N, E: N.linspace(E.q("a", "X", ()), E.q("b", "X2", ()), 3))
TM("np.pad/constant_values", "numpy.pad", lambda N, E: N.pad(E.q("a", "X", (2,)), 1, constant_values=E.q("b", "X2", ())))
TM("np.full_like", "numpy.full_like", lambda N, E: N.full_like(E.q("a", "X", (2,)), E.q("b", "X2", ())))
TM("np.diff/prepend", "numpy.diff", lambda N, E: N.diff(E.q("a", "X", (2,)), prepend=E.q("b", "X2", (1,))))
TM("np.ediff1d/to_end", "numpy.ediff1d", lambda N, E: N.ediff1d(E.q("a", "X", (2,)), to_end=E.q("b", "X2", (1,))))
TM("np.isclose", "numpy.isclose", lambda N, E: N.isclose(*_x2(E), rtol=0.25, atol=0))
TM("np.allclose", "numpy.allclose", lambda N, E: N.allclose(*_x2(E), 0.25, 0))
TM("np.interp/x-other", "numpy.interp", lambda N, E: N.interp(E.q("a", "X2", (2,)), E.q("b", "X", (2,), increasing=True), E.q("c", "T", (2,))), groups=("X", "X2", "T"), tier=2)
TM("np.interp/xp-other", "numpy.interp", lambda N, E: N.interp(E.q("a", "X", (2,)), E.q("b", "X2", (2,), increasing=True), E.q("c", "T", (2,))), groups=("X", "X2", "T"), tier=2)
# histogram family: range / bins given as quantities in the other unit (range is flat: lo, hi[, lo, hi])
TM("np.histogram/range-hi-other", "numpy.histogram", lambda N, E: N.histogram(E.q("a", "X", (3,)), bins=2, range=(E.q("lo", "X", ()), E.q("hi", "X2", ()))), tier=2)
TM("np.histogram/range-lo-other", "numpy.histogram", lambda N, E: N.histogram(E.q("a", "X", (3,)), bins=2, range=(E.q("lo", "X2", ()), E.q("hi", "X", ()))), tier=2)
TM("np.histogram/range-both-other", "numpy.histogram", lambda N, E: N.histogram(E.q("a", "X", (3,)), 2, (E.q("lo", "X2", ()), E.q("hi", "X2", ()))), tier=2,
   note="not for kind affine: two affine conversions inside one uninterpreted application are slow to equate; range-lo/hi-other cover the code")
TM("np.histogram/bins-other", "numpy.histogram", lambda N, E: N.histogram(E.q("a", "X", (1,)), bins=E.q("b", "X2", (2,), increasing=True)), tier=2)
TM("np.histogram2d/range-hi-other", "numpy.histogram2d", lambda N, E: N.histogram2d(E.q("a", "X", (3,)), E.q("b", "T", (3,)), bins=2,
   range=(E.q("lo", "X", ()), E.q("hi", "X2", ()), E.q("tl", "T", ()), E.q("th", "T", ()))), groups=("X", "X2", "T"), tier=2)
TM("np.histogram2d/bins-other", "numpy.histogram2d", lambda N, E: N.histogram2d(E.q("a", "X", (1,)), E.q("b", "T", (1,)),
   bins=[E.q("e", "X2", (2,), increasing=True), 1]), groups=("X", "X2", "T"), tier=2)
TM("np.histogramdd/range-hi-other", "numpy.histogramdd", lambda N, E: N.histogramdd([E.q("a", "X", (3,)), E.q("b", "T", (3,))], bins=2,
   range=(E.q("lo", "X", ()), E.q("hi", "X2", ()), E.q("tl", "T", ()), E.q("th", "T", ()))), groups=("X", "X2", "T"), tier=2)
TM("np.histogram_bin_edges/bins-other", "numpy.histogram_bin_edges", lambda N, E: N.histogram_bin_edges(E.q("a", "X", (1,)), bins=E.q("b", "X2", (2,), increasing=True)), tier=2)

# histogram range / bins as quantities in the data's own unit: forwarding of the limits (C06) and covariance (C07)
T("np.histogram/range-q", "numpy.histogram", lambda N, E: N.histogram(E.q("a", "L", (3,)), bins=2, range=(E.q("lo", "L", ()), E.q("hi", "L", ()))), dim=[BARE, DL], tier=2,
  kargs={"a": "L", "range": "L"})
T("np.histogram/bins-q", "numpy.histogram", lambda N, E: N.histogram(E.q("a", "L", (1,)), bins=E.q("b", "L", (2,), increasing=True)), dim=[BARE, DL], tier=2, kargs={"a": "L", "bins": "L"})
T("np.histogram2d/range-q", "numpy.histogram2d", lambda N, E: N.histogram2d(E.q("a", "L", (3,)), E.q("b", "L", (3,)), bins=2,
  range=(E.q("lo", "L", ()), E.q("hi", "L", ()), E.q("tl", "L", ()), E.q("th", "L", ()))), dim=[BARE, DL, DL], tier=2, kargs={"x": "L", "y": "L", "range": "L"}, c06=False,
  note="C06: NumPy wants a nested range for bare data while unyt's helper reads a flat one - no common call form")


# =========================================================================================================== operand rank x operand kind
# Two-operand handlers over EVERY pair of operand ranks 0-d / 1-d / 2-d and every operand kind (quantity, bare ndarray, bare python
# number). A 0-d operand takes NumPy's scalar routes, which differ per function (outer ravels it to length 1 and always returns 2-d,
# dot / inner / kron / tensordot(axes=0) multiply, vdot / linalg.outer / concatenate refuse, convolve / correlate promote to 1-d, the
# stack family promotes with atleast_1d/2d/3d): a handler that shares one shortcut between these functions is wrong for some of them.
# Names: rank/<function>/<rank a><kind a>-<rank b><kind b>, kind q = quantity, b = bare ndarray, n = bare python number (0-d only).
_RK = {"0": (), "1": (2,), "2": (2, 2)}


def _operand(E, name, rank, kind, group):
    if kind == "q":
        return E.q(name, group, _RK[rank])
    if kind == "b":
        return E.raw(name, _RK[rank])
    return E.num(name, "bare")


def _rank_sweep(fname, key, fn, ga, gb, dim_of, kinds=("qq", "qb", "bq", "qn", "nq"), cov=True, quick_pairs=(("0", "0"), ("0", "1"), ("1", "0")),
                quick_qq=(("0", "2"), ("2", "0")), method=False, max_elements=None, **kw):
    for ra in _RK:
        for rb in _RK:
            if max_elements is not None and int(np.prod(_RK[ra])) + int(np.prod(_RK[rb])) > max_elements:
                continue  # sorting-type functions: n! orderings per run
            for ka, kb in kinds:
                if (ka == "n" and ra != "0") or (kb == "n" and rb != "0"):
                    continue
                if method and ka == "n":
                    continue  # a python number has no ndarray method
                quick = (ra, rb) in quick_pairs or ((ra, rb) in quick_qq and ka + kb == "qq")
                groups = tuple(dict.fromkeys(g for g, k in ((ga, ka), (gb, kb)) if k == "q"))

                def _mk(ra=ra, rb=rb, ka=ka, kb=kb):
                    return lambda N, E: fn(N, _operand(E, "a", ra, ka, ga), _operand(E, "b", rb, kb, gb))
                T(f"rank/{fname}/{ra}{ka}-{rb}{kb}", key, _mk(), groups=groups, dim=dim_of(ka, kb), cov=cov, quick=quick, **kw)


def _dim_product(ka, kb):
    return {"qq": DLT, "qb": DL, "qn": DL, "bq": DT, "nq": DT}[ka + kb]


for _fname, _key, _fn in [
        ("np.dot", "numpy.dot", lambda N, a, b: N.dot(a, b)),
        ("np.vdot", "numpy.vdot", lambda N, a, b: N.vdot(a, b)),
        ("np.inner", "numpy.inner", lambda N, a, b: N.inner(a, b)),
        ("np.outer", "numpy.outer", lambda N, a, b: N.outer(a, b)),
        ("np.linalg.outer", "numpy.linalg.outer", lambda N, a, b: N.linalg.outer(a, b)),
        ("np.kron", "numpy.kron", lambda N, a, b: N.kron(a, b)),
        ("np.tensordot-axes0", "numpy.tensordot", lambda N, a, b: N.tensordot(a, b, 0)),
        ("np.tensordot-axes1", "numpy.tensordot", lambda N, a, b: N.tensordot(a, b, axes=1)),
        ("np.einsum-bcast", "numpy.einsum", lambda N, a, b: N.einsum("...,...->...", a, b)),
        ("np.convolve", "numpy.convolve", lambda N, a, b: N.convolve(a, b)),
        ("np.correlate", "numpy.correlate", lambda N, a, b: N.correlate(a, b, "full")),
]:
    _rank_sweep(_fname, _key, _fn, "L", "T", _dim_product)
_rank_sweep("m.dot", "ndarray.dot", lambda N, a, b: a.dot(b), "L", "T", _dim_product, kinds=("qq", "qb", "qn"), method=True)

# joining functions on a list whose members have different ranks, 0-d members included (concatenate refuses 0-d, the stack family
# promotes); a bare python number next to a quantity is a member kind of its own
for _fname, _key, _fn in [
        ("np.concatenate", "numpy.concatenate", lambda N, a, b: N.concatenate([a, b])),
        ("np.concatenate-axisNone", "numpy.concatenate", lambda N, a, b: N.concatenate([a, b], axis=None)),
        ("np.vstack", "numpy.vstack", lambda N, a, b: N.vstack([a, b])),
        ("np.hstack", "numpy.hstack", lambda N, a, b: N.hstack([a, b])),
        ("np.dstack", "numpy.dstack", lambda N, a, b: N.dstack([a, b])),
        ("np.column_stack", "numpy.column_stack", lambda N, a, b: N.column_stack([a, b])),
        ("np.stack", "numpy.stack", lambda N, a, b: N.stack([a, b])),
        ("np.block", "numpy.block", lambda N, a, b: N.block([a, b])),
        ("np.append", "numpy.append", lambda N, a, b: N.append(a, b)),
]:
    _rank_sweep(_fname, _key, _fn, "L", "L", lambda ka, kb: DL, kinds=("qq", "qn", "nq"))

# validating / selecting functions with operands of different ranks (broadcasting of a 0-d operand)
_C2 = np.array([True, False])
for _fname, _key, _fn, _dim in [
        ("np.isclose", "numpy.isclose", lambda N, a, b: N.isclose(a, b, rtol=0.25, atol=0), BARE),
        ("np.allclose", "numpy.allclose", lambda N, a, b: N.allclose(a, b, 0.25, 0), BARE),
        ("np.array_equal", "numpy.array_equal", lambda N, a, b: N.array_equal(a, b), BARE),
        ("np.array_equiv", "numpy.array_equiv", lambda N, a, b: N.array_equiv(a, b), BARE),
        ("np.where", "numpy.where", lambda N, a, b: N.where(_C2, a, b), DL),
        ("np.isin", "numpy.isin", lambda N, a, b: N.isin(a, b), BARE),
        ("np.intersect1d", "numpy.intersect1d", lambda N, a, b: N.intersect1d(a, b), DL),
        ("np.union1d", "numpy.union1d", lambda N, a, b: N.union1d(a, b), DL),
        ("np.setdiff1d", "numpy.setdiff1d", lambda N, a, b: N.setdiff1d(a, b), DL),
        ("np.searchsorted", "numpy.searchsorted", lambda N, a, b: N.searchsorted(a, b), BARE),
]:
    _rank_sweep(_fname, _key, _fn, "L", "L", (lambda d: (lambda ka, kb: d))(_dim), kinds=("qq",), quick_pairs=(("0", "0"), ("0", "1"), ("1", "0")), quick_qq=(),
                max_elements=(3 if _fname in ("np.isin", "np.intersect1d", "np.union1d", "np.setdiff1d", "np.searchsorted") else None))
# in-place targets written from a source of lower rank
for _fname, _key, _fn in [
        ("np.copyto", "numpy.copyto", lambda N, a, b: N.copyto(a, b)),
        ("np.fill_diagonal", "numpy.fill_diagonal", lambda N, a, b: N.fill_diagonal(a, b)),
        ("np.putmask", "numpy.putmask", lambda N, a, b: N.putmask(a, np.ones(np.shape(a), dtype=bool), b)),
        ("np.place", "numpy.place", lambda N, a, b: N.place(a, np.ones(np.shape(a), dtype=bool), b)),
        ("np.put", "numpy.put", lambda N, a, b: N.put(a, [0], b)),
]:
    _rank_sweep(_fname, _key, _fn, "L", "L", lambda ka, kb: None, kinds=("qq",), quick_pairs=(("1", "0"), ("2", "0"), ("2", "1")), quick_qq=())

# =========================================================================================================== rounding: decimals x call form
# decimals < 0 rounds to tens / hundreds (also for integers), 0 to whole numbers, > 0 to fractions: every sign of `decimals` in the
# positional, keyword and out= forms of the three spellings np.around / np.round / ndarray.round (only np.around has a handler)
for _d in (-2, -1, 0, 2):
    _dn = f"m{-_d}" if _d < 0 else str(_d)
    _q = _d in (-2, 2)
    T(f"round/np.around/pos{_dn}", "numpy.around", (lambda d: lambda N, E: N.around(E.q("a", "L", (3,)), d))(_d), dim=DL, cov=False, quick=_q)
    T(f"round/np.around/kw{_dn}-2d", "numpy.around", (lambda d: lambda N, E: N.around(E.q("a", "L", (2, 2)), decimals=d))(_d), dim=DL, cov=False, quick=not _q)
    T(f"round/np.around/out{_dn}", "numpy.around", (lambda d: lambda N, E: N.around(E.q("a", "L", (2,)), d, out=E.out("o", "L", (2,))))(_d), dim=DL, cov=False, quick=(_d == -1))
    T(f"round/np.around/0d{_dn}", "numpy.around", (lambda d: lambda N, E: N.around(E.q("a", "L", ()), d))(_d), dim=DL, cov=False, quick=(_d == -2))
    T(f"round/np.round/pos{_dn}", "numpy.round", (lambda d: lambda N, E: N.round(E.q("a", "L", (2,)), d))(_d), dim=DL, cov=False, quick=(_d == -1))
    T(f"round/np.round/kw-out{_dn}", "numpy.round", (lambda d: lambda N, E: N.round(E.q("a", "L", (2,)), decimals=d, out=E.out("o", "L", (2,))))(_d), dim=DL, cov=False, quick=False)
    T(f"round/m.round/pos{_dn}", "ndarray.round", (lambda d: lambda N, E: E.q("a", "L", (2,)).round(d))(_d), dim=DL, cov=False, quick=(_d == -1))
    T(f"round/m.round/kw-out{_dn}", "ndarray.round", (lambda d: lambda N, E: E.q("a", "L", (2,)).round(decimals=d, out=E.out("o", "L", (2,))))(_d), dim=DL, cov=False, quick=(_d == -2))


def handler_coverage(mods):
    """(all keys of the real _HANDLED_FUNCTIONS, those with at least one template, those without)"""
    AF = mods["AF"]
    keys = set()
    for f in AF._HANDLED_FUNCTIONS:
        keys.add((f.__module__ or "numpy") + "." + f.__name__)
    templated = {t.key for t in TEMPLATES}
    return sorted(keys), sorted(keys & templated), sorted(keys - templated)


def coverage_summary(results, tier, prop):
    """handlers_total / handlers_templated / not_covered (with reasons) for the evidence file"""
    from symx import shims
    mods = shims._installed.get("mods")
    out = {}
    ran = {r["group"] for r in results}
    if mods:
        allk, have, missing = handler_coverage(mods)
        out["handlers_total"] = len(allk)
        out["handlers_templated"] = len([k for k in allk if k in ran])
        out["handlers_templated_in_full_catalogue"] = len(have)
        out["not_covered"] = [f"{k}: {NOT_COVERED_HANDLERS.get(k, 'no template')}" for k in missing] + \
                             [f"{k} (has templates, none in the {tier} tier)" for k in have if k not in ran]
    out["not_covered_unwrapped"] = [f"{k}: {v}" for k, v in NOT_COVERED_UNWRAPPED.items()]
    out["templates"] = len(results)
    out["functions_and_methods_templated"] = len(ran)
    out["tier2_templates"] = len([t for t in select(tier, prop) if t.tier == 2])
    return out


def select(tier, prop):
    out = []
    for t in TEMPLATES:
        if not getattr(t, prop):
            continue
        if tier == "quick" and not t.quick:
            continue
        out.append(t)
    return out


