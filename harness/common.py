"""Vocabulary shared by the harnesses (DESIGN.md section 3)."""
from fractions import Fraction

import numpy as np

from symx.case import Case, call  # noqa: F401
from symx.core import (And, Iff, Implies, Not, Or, SymBool, SymReal, all_close, all_exact, close, elements,  # noqa: F401
                       exact_eq, ite, lift, vabs)
from symx.shims import HarnessError

# independent SI prefix table (written for this check, not read from unyt)
PREFIX = {"Y": 1e24, "Z": 1e21, "E": 1e18, "P": 1e15, "T": 1e12, "G": 1e9, "M": 1e6, "k": 1e3, "h": 1e2, "da": 1e1,
          "d": 1e-1, "c": 1e-2, "m": 1e-3, "u": 1e-6, "µ": 1e-6, "μ": 1e-6, "n": 1e-9, "p": 1e-12, "f": 1e-15, "a": 1e-18,
          "z": 1e-21, "y": 1e-24}

EXPONENTS = [Fraction(0), Fraction(1), Fraction(-1), Fraction(2), Fraction(-2), Fraction(3), Fraction(-3),
             Fraction(1, 2), Fraction(-1, 2), Fraction(1, 3), Fraction(-1, 3), Fraction(3, 2), Fraction(2, 3)]


def check_names(mods, names):
    """A10: harness symbol names must not be readable as anything else by unyt's parser"""
    from unyt._unit_lookup_table import default_unit_symbol_lut, inv_name_alternatives, unit_prefixes
    for n in names:
        if n in inv_name_alternatives or n in default_unit_symbol_lut:
            raise HarnessError(f"A10: harness symbol {n!r} collides with a unyt name")
        for p in unit_prefixes:
            if n.startswith(p) and (n[len(p):] in default_unit_symbol_lut):
                raise HarnessError(f"A10: harness symbol {n!r} reads as prefix {p!r} + {n[len(p):]!r}")


def dims_catalogue(mods, tier):
    """distinct dimension objects found at run time in the default table and unyt.dimensions (the
    real singletons, so `is` behaves as in production)"""
    import sympy
    D = mods["unyt"].dimensions
    from unyt._unit_lookup_table import default_unit_symbol_lut
    seen = []
    names = {}
    for n in dir(D):
        v = getattr(D, n)
        if isinstance(v, sympy.Basic) and not n.startswith("_"):
            if not any(v is s for s in seen):
                seen.append(v)
                names[id(v)] = n
    for sym, row in default_unit_symbol_lut.items():
        v = row[1]
        if not any(v is s for s in seen) and not any(v == s for s in seen):
            seen.append(v)
            names[id(v)] = "dim_of_" + sym
    out = [(names[id(v)], v) for v in seen]
    if tier == "quick":
        keep = ["length", "mass", "time", "temperature", "angle", "current_mks", "luminous_intensity", "logarithmic",
                "dimensionless", "energy", "charge_cgs", "magnetic_field_mks", "velocity"]
        out = [(n, v) for n, v in out if n in keep]
    return out


class U:
    """oracle view of a harness-defined unit: SI(x) = s*(x - o)"""

    def __init__(self, name, s, o=0.0, dims=None):
        self.name, self.s, self.o, self.dims = name, s, o, dims

    def si(self, x):
        if isinstance(self.o, (int, float)) and self.o == 0:
            return x * self.s
        return (x - self.o) * self.s


def si_close(a, b, ua, ub, tol=None):
    """SI magnitudes equal up to the rounding band, with the offsets' magnitudes in the band"""
    extra = (vabs(ua.s * ua.o) + vabs(ub.s * ub.o)) * float(Fraction(1, 10**6))
    return close(a, b, extra=extra)


def payload(x):
    """the bare data of a result (unyt or ndarray or scalar) as a flat list"""
    if hasattr(x, "units") and hasattr(x, "d"):
        return elements(x.d)
    return elements(x)


def exc_name(r):
    return type(r[1]).__name__ if r[0] == "raise" else None


def band(*terms, tol=1e-6):
    """rounding band relative to the magnitudes of the given operands: tol * sum |t| (polymorphic).
    Use it as `extra=` for sums/differences: a result that cancels to ~0 is only accurate relative to its operands,
    and unyt deliberately treats units whose scales agree to 1e-9 as the same unit."""
    tot = 0
    for t in terms:
        tot = tot + vabs(t)
    return tot * float(tol)


def eqmath(a, b, tol=1e-9):
    """exact equality in symbolic mode (real arithmetic), `close` with a float tolerance in concrete mode.
    For discontinuous operations (floor, mod, comparisons) where a tolerance band is meaningless. A model that exists
    only because of a sub-tolerance deviation does not reproduce and is reported as inconclusive, never as a violation."""
    if isinstance(a, SymReal) or isinstance(b, SymReal):
        return exact_eq(a, b)
    return close(a, b, tol=Fraction(tol).limit_denominator(10**15))


def distinct_scales(ctx, s1, s2, ratio=1e-3):
    """assume two symbolic scales are either exactly equal or differ by more than `ratio` relative: keeps harnesses
    out of unyt's deliberate 'same unit up to 1e-9' band where discontinuous operations legitimately differ"""
    ctx.assume(Or(exact_eq(s1, s2), s1 > s2 * (1 + ratio), s2 > s1 * (1 + ratio)))


import contextlib


@contextlib.contextmanager
def as_ufunc_global(mods, standin):
    """NumPy has no object-dtype loop for a few ufuncs (divmod, modf, nextafter, copysign, heaviside): harnesses hand the real
    unyt_array.__array_ufunc__ a stand-in that is equal and hash-equal to the real ufunc. unyt also tests ufuncs by IDENTITY
    (`ufunc is divmod_`): while the stand-in is in flight, every module global of unyt.array that names the real ufunc is bound
    to the stand-in too, so identity tests answer as for the real one. Restored on exit (engine control exceptions included)."""
    UA = mods["UA"]
    real = standin.real
    names = [n for n, v in vars(UA).items() if v is real]
    for n in names:
        setattr(UA, n, standin)
    try:
        yield
    finally:
        for n in names:
            setattr(UA, n, real)
